"""BQL query semantics family: C03 (SELECT = solutions), C10 (OPTIONAL), C11 (GROUP BY), C12 (ORDER BY /
LIMIT), C13 (HAVING), C14 (metamorphic invariance).  Oracle: spec/BQLSemantics.tla evaluated by TLC on
traces recorded from the real engine (spec/QueryTrace.tla)."""
import concurrent.futures as cf
import json
import os

import bqlgen
import bqlu
import vlib
from bqlgen import Gen
from vlib import Infra, Verdict, log

UNI = bqlu.PATH


# ------------------------------------------------------------------------------------------ plumbing
def run_cases(cases, d, tag):
    """cases: list of dicts with id/graphs/text[/chan/bulk/procs]; returns {id: result}.

    A panic in a goroutine started by the engine kills the driver process: the case being executed
    gets a synthetic result with panic='process died: ...' and the driver is restarted on the rest."""
    res = {}
    todo = list(cases)
    rnd = 0
    while todo:
        rnd += 1
        inp = os.path.join(d, "%s.cases%d.ndjson" % (tag, rnd))
        out = os.path.join(d, "%s.results%d.ndjson" % (tag, rnd))
        with open(inp, "w") as fh:
            for c in todo:
                fh.write(json.dumps({k: c[k] for k in ("id", "graphs", "text", "chan", "bulk", "procs", "mode") if k in c}) + "\n")
        p = vlib.run([os.path.join(vlib.BUILD_DIR, "bqldrv"), "-universe", UNI, "-in", inp, "-out", out], timeout=3600, check=False)
        got = vlib.read_ndjson(out) if os.path.exists(out) else []
        for r in got:
            res[r["id"]] = r
        if p.returncode == 0:
            if len(got) != len(todo):
                raise Infra("bqldrv returned %d results for %d cases" % (len(got), len(todo)))
            break
        if p.returncode == 3 or len(got) >= len(todo):
            raise Infra("bqldrv failed rc=%d: %s" % (p.returncode, p.stderr[-3000:]))
        if any(c.get("mode") for c in todo):
            raise Infra("bqldrv died in a stateful sequence: %s" % p.stderr[-2000:])
        culprit = todo[len(got)]
        first = (p.stderr.strip().splitlines() or ["?"])[0]
        frames = [ln.strip() for ln in p.stderr.splitlines() if "/repo/" in ln or "badwolf/" in ln][:6]
        res[culprit["id"]] = {"id": culprit["id"], "perr": "", "err": "", "panic": "process died: " + first, "timeout": False,
                              "cols": [], "rows": [], "clauses": [], "limit": -1, "before": [], "after": [], "stack": frames}
        todo = todo[len(got) + 1:]
        if rnd > 400:
            raise Infra("bqldrv keeps dying (%d restarts)" % rnd)
    return res


def validate(events, d, tag, workers=14, per_chunk=4000):
    """events: list of dicts (QueryTrace events). Returns (rejects [(idx, prop, cls)], n_open, states)."""
    if not events:
        return [], 0, 0
    n = max(1, min(workers * 3, (len(events) + per_chunk - 1) // per_chunk))
    size = (len(events) + n - 1) // n
    chunks = []
    for i in range(n):
        part = events[i * size:(i + 1) * size]
        if not part:
            continue
        p = os.path.join(d, "%s.chunk%03d.ndjson" % (tag, i))
        with open(p, "w") as fh:
            for e in part:
                fh.write(json.dumps(e) + "\n")
        chunks.append((i * size, p))
    gen = {"BqlU.tla": bqlu.bqlu_tla()}

    def one(ch):
        base, path = ch
        r = vlib.run_tlc("QueryTrace", "QueryTrace.cfg", gen=gen, env={"TRACE_FILE": path}, workers=1, timeout=3000, heap="3g")
        if r.violation:
            raise Infra("query trace not consumed: %s\n%s" % (r.violation, r.out[-3000:]))
        return base, r

    rejects, opens, states = [], 0, 0
    with cf.ThreadPoolExecutor(max_workers=workers) as ex:
        for base, r in ex.map(one, chunks):
            states += r.distinct
            for v in vlib.parse_printed(r.printed, "REJECT"):
                rejects.append((base + v[1] - 1, v[2], v[3]))
            opens += len(vlib.parse_printed(r.printed, "OPEN"))
    return rejects, opens, states


def rows_in_order(res, outnames):
    """reorder result columns to the order of outnames; None if the columns differ"""
    cols = res["cols"]
    if sorted(cols) != sorted(outnames):
        return None
    idx = [cols.index(n) for n in outnames]
    return [[row[i] for i in idx] for row in res["rows"]]


def is_err(res):
    return bool(res["err"])


def hard_failure(res):
    if res["timeout"]:
        return "timeout"
    if res["panic"]:
        return "panic"
    return None


# ------------------------------------------------------------------------------------------ C03 / C10
def gen_c03(g, budget, optional=False):
    """yields query dicts: clauses, proj, graphs, glo, ghi, alt"""
    qs = []
    contents = [g.content() for _ in range(6)] + [list(range(1, len(bqlu.TRIPLES) + 1))[:12]]
    pool2 = bqlgen.VARS[:3]
    for i in range(budget):
        r = g.rng.random()
        content = g.rng.choice(contents)
        seeded = g.rng.random() < 0.7   # clauses abstracted from triples of the content (they match)
        valvar = {}
        pool = bqlgen.VARS[:4]

        def mk(opt=False, p_alias=0.12):
            if seeded and g.rng.random() < 0.85:
                return g.seeded_clause(content, valvar, pool, opt=opt, p_alias=p_alias)
            return g.clause(pool[:3], opt=opt, p_alias=p_alias)

        if optional:
            nm = 1 if r < 0.6 else 2
            nopt = 1 if g.rng.random() < 0.7 else 2
            cls = [mk(p_alias=0.12) for _ in range(nm)]
            for _ in range(nopt):
                c = mk(opt=True, p_alias=0.2)
                if g.rng.random() < 0.15:  # fully specified optional clause, with or without alias
                    t = bqlu.TRIPLES[g.rng.choice(content) - 1] if g.rng.random() < 0.6 else None
                    if t:
                        c = bqlgen.clause(bqlgen.S(c=t[0]), bqlgen.P(c=t[1]), bqlgen.O(cell=t[2]), opt=True)
                    else:
                        c = bqlgen.clause(bqlgen.S(c=g.rng.choice(bqlgen.NODE_CONSTS)), bqlgen.P(c=g.rng.choice(bqlgen.PRED_CONSTS)),
                                          bqlgen.O(cell=g.rng.choice(bqlgen.OBJ_CONSTS)), opt=True)
                    if g.rng.random() < 0.5:
                        c["o"]["as"] = g.alias(pool, 0)
                pos = g.rng.randint(1, len(cls))
                cls.insert(pos, c)
        elif r < 0.4:
            cls = [mk(p_alias=0.3)]
        elif r < 0.8:
            cls = [mk(), mk()]
        else:
            k = g.rng.randint(3, 4)
            cls = [mk(p_alias=0.08) for _ in range(k)]
        proj = g.proj(cls)
        if not proj:
            continue
        ngraphs = g.rng.choice([1, 1, 2, 3])
        graphs = g.split(content, ngraphs, overlap=g.rng.random() < 0.2)
        glo, ghi = g.bounds()
        qs.append({"clauses": cls, "proj": proj, "graphs": graphs, "glo": glo, "ghi": ghi, "alt": g.rng.random() < 0.2})
    return qs


def q_text(q):
    return bqlgen.render_select({"select": q["proj"], "ngraphs": len(q["graphs"]), "clauses": q["clauses"],
                                 "glo": q["glo"], "ghi": q["ghi"], "alt": q.get("alt", False)})


def q_features(q):
    """mechanical features of a query used to name the class of a rejected case"""
    f = set()
    cls = q["clauses"]
    if len(cls) > 1:
        f.add("multi")
    seen = set()
    for i, c in enumerate(cls):
        ns = set(bqlgen.names_of(c))
        if i > 0 and ns & seen:
            f.add("shared")
        if i > 0 and not (ns & seen):
            f.add("disjoint")
        if bqlgen.specific(c):
            f.add("specific" if i > 0 else "specific-first")
        if c["opt"]:
            f.add("optional")
        seen |= ns
    if q["glo"] or q["ghi"]:
        f.add("global-bounds")
    if len(q["graphs"]) > 1:
        f.add("multi-graph")
    return f


def check_q(prop, v, tier, d):
    g = Gen(vlib.seed() * 7919 + (3 if prop == "C03" else 10))
    budget = {"C03": (6000, 150000), "C10": (4000, 80000)}[prop][0 if tier == "quick" else 1]
    qs = gen_c03(g, budget, optional=(prop == "C10"))
    cases = []
    for i, q in enumerate(qs):
        q["id"] = i
        cases.append({"id": i, "graphs": q["graphs"], "text": q_text(q)})
    res = run_cases(cases, d, prop)
    events, evq = [], []
    stats = {"cases": len(cases), "parser_rejected": 0, "dump_mismatch": 0, "exec_errors": 0, "nonempty": 0}
    distinct = set()
    for q, c in zip(qs, cases):
        r = res[q["id"]]
        hf = hard_failure(r)
        if hf:
            v.reject(hf, {"text": c["text"], "graphs": q["graphs"], "panic": r["panic"][:300]}, {"case": c})
            continue
        if r["perr"]:
            stats["parser_rejected"] += 1
            continue
        if r["clauses"] != q["clauses"]:
            stats["dump_mismatch"] += 1
        rows = rows_in_order(r, q["proj"]) if not is_err(r) else []
        if rows is None:
            v.reject("result-columns", {"text": c["text"], "cols": r["cols"]}, {"case": c})
            continue
        if is_err(r):
            stats["exec_errors"] += 1
        if rows:
            stats["nonempty"] += 1
        distinct.add(c["text"])
        events.append({"ev": "Q", "prop": prop, "id": q["id"], "graphs": q["graphs"], "clauses": q["clauses"], "proj": q["proj"],
                       "glo": q["glo"], "ghi": q["ghi"], "err": is_err(r), "rows": rows})
        evq.append((q, c, r))
    rejects, opens, states = validate(events, d, prop)
    for idx, p, cls in rejects:
        q, c, r = evq[idx]
        name = classify_q(prop, cls, q, r)
        v.reject(name, {"text": c["text"], "graphs": q["graphs"], "class": cls, "err": r["err"][:200], "rows": r["rows"][:6]},
                 {"case": c, "event": events[idx]})
    v.cov.update({"states": states, "transitions": len(events), "traces_validated_against_impl": len(events),
                  "queries_generated": len(cases), "queries_judged": len(events) - opens, "open_not_judged": opens,
                  "distinct_queries": len(distinct), "nonempty_results": stats["nonempty"],
                  "parser_rejected_not_judged": stats["parser_rejected"], "exec_errors": stats["exec_errors"],
                  "parse_dump_mismatch": stats["dump_mismatch"], "rejected_events": len(rejects),
                  "samples": [{"text": c["text"], "graphs": q["graphs"], "rows": r["rows"][:4]} for q, c, r in evq[:3]]})
    v.assumptions += ["query texts are rendered from the AST by lib/bqlgen.py; the parsed pattern dumped by the driver agreed with the AST in all but parse_dump_mismatch cases",
                      "multiplicity is left open only when distinct triples give the same assignment or one triple is in several FROM graphs",
                      "statements the parser/semantic layer rejects are not judged here (C18)"]
    if stats["parser_rejected"] * 3 > len(cases):
        raise Infra("more than a third of the generated queries were rejected by the parser: generator or grammar drift")


def classify_q(prop, cls, q, r):
    """Names the Layer B deviation that explains a rejected query (mechanical, on query features and
    the kind of wrong answer); 'unexplained' otherwise."""
    f = q_features(q)
    if cls == "error-instead-of-rows":
        if "equally binded" in r["err"] and "specific" in f:
            return "fully-specified-clause-after-bound-one"
        return "error-instead-of-rows"
    return cls


# ------------------------------------------------------------------------------------------ entry
def check(prop):
    tier = vlib.tier()
    v = Verdict(prop, tier, "model_checking")
    vlib.build_harness(["bqldrv"])
    d = vlib.scratch("bql-")
    if prop in ("C03", "C10"):
        check_q(prop, v, tier, d)
    else:
        raise Infra("property %s not implemented in fam_bql" % prop)
    return v.finish()
