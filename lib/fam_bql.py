"""BQL query semantics family: C03 (SELECT = solutions), C10 (OPTIONAL), C11 (GROUP BY), C12 (ORDER BY /
LIMIT), C13 (HAVING), C14 (metamorphic invariance).  Oracle: spec/BQLSemantics.tla evaluated by TLC on
traces recorded from the real engine (spec/QueryTrace.tla)."""
import concurrent.futures as cf
import json
import os

import bqlgen
import bqlu
import vlib
from bqlgen import Gen
from vlib import Infra, Verdict, log

UNI = bqlu.PATH


# ------------------------------------------------------------------------------------------ plumbing
def run_cases(cases, d, tag):
    """cases: list of dicts with id/graphs/text[/chan/bulk/procs]; returns {id: result}.

    A panic in a goroutine started by the engine kills the driver process: the case being executed
    gets a synthetic result with panic='process died: ...' and the driver is restarted on the rest."""
    res = {}
    todo = list(cases)
    rnd = 0
    while todo:
        rnd += 1
        inp = os.path.join(d, "%s.cases%d.ndjson" % (tag, rnd))
        out = os.path.join(d, "%s.results%d.ndjson" % (tag, rnd))
        with open(inp, "w") as fh:
            for c in todo:
                fh.write(json.dumps({k: c[k] for k in ("id", "graphs", "text", "chan", "bulk", "procs", "mode") if k in c}) + "\n")
        p = vlib.run([os.path.join(vlib.BUILD_DIR, "bqldrv"), "-universe", UNI, "-in", inp, "-out", out], timeout=3600, check=False)
        got = vlib.read_ndjson(out) if os.path.exists(out) else []
        for r in got:
            res[r["id"]] = r
        if p.returncode == 0:
            if len(got) != len(todo):
                raise Infra("bqldrv returned %d results for %d cases" % (len(got), len(todo)))
            break
        if p.returncode == 3 or len(got) >= len(todo):
            raise Infra("bqldrv failed rc=%d: %s" % (p.returncode, p.stderr[-3000:]))
        if any(c.get("mode") for c in todo):
            raise Infra("bqldrv died in a stateful sequence: %s" % p.stderr[-2000:])
        culprit = todo[len(got)]
        first = (p.stderr.strip().splitlines() or ["?"])[0]
        frames = [ln.strip() for ln in p.stderr.splitlines() if "/repo/" in ln or "badwolf/" in ln][:6]
        res[culprit["id"]] = {"id": culprit["id"], "perr": "", "err": "", "panic": "process died: " + first, "timeout": False,
                              "cols": [], "rows": [], "clauses": [], "limit": -1, "before": [], "after": [], "stack": frames}
        todo = todo[len(got) + 1:]
        if rnd > 400:
            raise Infra("bqldrv keeps dying (%d restarts)" % rnd)
    return res


CHAIN_JUDGED = {}   # per tag: chained OPTIONAL queries whose rows are open and that were judged for kept rows (C10)


def validate(events, d, tag, workers=14, per_chunk=4000):
    """events: list of dicts (QueryTrace events). Returns (rejects [(idx, prop, cls)], n_open, states)."""
    if not events:
        return [], 0, 0
    n = max(1, min(workers * 3, (len(events) + per_chunk - 1) // per_chunk))
    size = (len(events) + n - 1) // n
    chunks = []
    for i in range(n):
        part = events[i * size:(i + 1) * size]
        if not part:
            continue
        p = os.path.join(d, "%s.chunk%03d.ndjson" % (tag, i))
        with open(p, "w") as fh:
            for e in part:
                fh.write(json.dumps(e) + "\n")
        chunks.append((i * size, p))
    gen = {"BqlU.tla": bqlu.bqlu_tla()}

    def one(ch):
        base, path = ch
        r = vlib.run_tlc("QueryTrace", "QueryTrace.cfg", gen=gen, env={"TRACE_FILE": path}, workers=1, timeout=3000, heap="3g")
        if r.violation:
            raise Infra("query trace not consumed: %s\n%s" % (r.violation, r.out[-3000:]))
        return base, r

    rejects, opens, states = [], 0, 0
    with cf.ThreadPoolExecutor(max_workers=workers) as ex:
        for base, r in ex.map(one, chunks):
            states += r.distinct
            for v in vlib.parse_printed(r.printed, "REJECT"):
                rejects.append((base + v[1] - 1, v[2], v[3]))
            opens += len(vlib.parse_printed(r.printed, "OPEN"))
            CHAIN_JUDGED[tag] = CHAIN_JUDGED.get(tag, 0) + len({x[1] for x in vlib.parse_printed(r.printed, "CHAIN")})   # TLC evaluates the verdict several times per line
    return rejects, opens, states


def rows_in_order(res, outnames):
    """reorder result columns to the order of outnames; None if the columns differ"""
    cols = res["cols"]
    if sorted(cols) != sorted(outnames):
        return None
    idx = [cols.index(n) for n in outnames]
    return [[row[i] for i in idx] for row in res["rows"]]


def is_err(res):
    return bool(res["err"])


def hard_failure(res):
    if res["timeout"]:
        return "timeout"
    if res["panic"]:
        return "panic"
    return None


# ------------------------------------------------------------------------------------------ C03 / C10
def gen_c03(g, budget, optional=False):
    """yields query dicts: clauses, proj, graphs, glo, ghi, alt"""
    qs = []
    contents = [g.content() for _ in range(6)] + [list(range(1, 13))] + [[1, 2, 3, 13, 14, 20, 26, 27, 28, 29, 30]]
    pool2 = bqlgen.VARS[:3]
    for i in range(budget):
        r = g.rng.random()
        content = g.rng.choice(contents)
        seeded = g.rng.random() < 0.7   # clauses abstracted from triples of the content (they match)
        valvar = {}
        pool = bqlgen.VARS[:4]

        def mk(opt=False, p_alias=0.12):
            if seeded and g.rng.random() < 0.85:
                return g.seeded_clause(content, valvar, pool, opt=opt, p_alias=p_alias)
            return g.clause(pool[:3], opt=opt, p_alias=p_alias)

        force_alt = False
        if optional and g.rng.random() < 0.1:
            # the mandatory clause binds an anchor (?t); the OPTIONAL clause is written with three constants, takes the
            # anchor of its predicate as AT ?t and brings a new alias: it agrees with exactly the rows whose ?t is that
            # instant - whatever zone the stored anchor or the constant is written in (triples 26 / 39: one predicate
            # stored in +02:00 and in UTC; constants rendered in the other spelling half of the time)
            pid, tri = g.rng.choice([("p", [2, 3, 20, 1]), ("s", [26, 27, 28, 39]), ("q", [13, 14, 6])])
            content = sorted(set(g.content(3, 7)) | set(tri))
            t = bqlu.TRIPLES[g.rng.choice(tri[:3]) - 1]
            first = bqlgen.clause(bqlgen.S(b="?a"), bqlgen.P(pid=bqlu.sid(pid), ab="?t"), bqlgen.O(b="?b"))
            oc = bqlgen.clause(bqlgen.S(c=t[0]), bqlgen.P(c=t[1], at="?t"), bqlgen.O(cell=t[2], as_="?x"), opt=True)
            cls = [first, oc]
            proj = g.proj(cls)
            graphs = g.split(content, g.rng.choice([1, 1, 2]))
            qs.append({"clauses": cls, "proj": proj, "graphs": graphs, "glo": 0, "ghi": 0, "alt": g.rng.random() < 0.5})
            continue
        if optional and g.rng.random() < 0.14:
            # chained OPTIONAL clauses: a later one joins on a name that only an earlier OPTIONAL clause introduced, so for
            # some rows the join value is NULL. How NULL joins is open; that no row of the pattern before it is removed
            # is not (BQLSemantics!LeftKeptDev).
            chain = [1, 4, 5, 19, 22, 6, 7, 8, 21]
            content = sorted(set(g.rng.sample(chain, g.rng.randint(3, 7))) | set(g.content(2, 5)))
            pp = lambda c_, b_: bqlgen.P(c=c_) if g.rng.random() < 0.7 else bqlgen.P(b=b_)
            cls = [bqlgen.clause(bqlgen.S(b="?a"), pp(1, "?p1"), bqlgen.O(b="?b")),
                   bqlgen.clause(bqlgen.S(b="?b"), pp(g.rng.choice([1, 1, 4]), "?p2"), bqlgen.O(b="?c"), opt=True)]
            x = g.rng.random()
            if x < 0.5:
                cls.append(bqlgen.clause(bqlgen.S(b="?c"), pp(g.rng.choice([1, 4, 4]), "?p3"), bqlgen.O(b="?d"), opt=True))
            elif x < 0.75:
                cls.append(bqlgen.clause(bqlgen.S(b="?e"), pp(1, "?p3"), bqlgen.O(b="?c"), opt=True))       # joins on the object
            else:
                cls.append(bqlgen.clause(bqlgen.S(b="?c"), pp(1, "?p3"), bqlgen.O(b="?a"), opt=True))       # two shared names
            if g.rng.random() < 0.3:
                cls.append(bqlgen.clause(bqlgen.S(b="?d" if x < 0.5 else "?c"), bqlgen.P(b="?p4"), bqlgen.O(b="?f"), opt=True))
            names = bqlgen.pattern_names(cls)
            proj = names if g.rng.random() < 0.7 else g.proj(cls)
            qs.append({"clauses": cls, "proj": proj, "graphs": g.split(content, g.rng.choice([1, 1, 2])), "glo": 0, "ghi": 0, "alt": False})
            continue
        if optional:
            nm = 1 if r < 0.6 else 2
            nopt = 1 if g.rng.random() < 0.7 else 2
            cls = [mk(p_alias=0.12) for _ in range(nm)]
            for _ in range(nopt):
                c = mk(opt=True, p_alias=0.2)
                if g.rng.random() < 0.15:  # fully specified optional clause, with or without alias
                    t = bqlu.TRIPLES[g.rng.choice(content) - 1] if g.rng.random() < 0.6 else None
                    if t:
                        c = bqlgen.clause(bqlgen.S(c=t[0]), bqlgen.P(c=t[1]), bqlgen.O(cell=t[2]), opt=True)
                    else:
                        c = bqlgen.clause(bqlgen.S(c=g.rng.choice(bqlgen.NODE_CONSTS)), bqlgen.P(c=g.rng.choice(bqlgen.PRED_CONSTS)),
                                          bqlgen.O(cell=g.rng.choice(bqlgen.OBJ_CONSTS)), opt=True)
                    if g.rng.random() < 0.6:
                        # the alias is a fresh name or (one time in three) a binding of the pattern
                        c["o"]["as"] = g.alias(pool, 0.33)
                    if g.rng.random() < 0.15:
                        c["s"]["as"] = g.alias(pool, 0.33)
                    pe = bqlu.PREDS[c["p"]["c"] - 1]
                    if pe[1] and g.rng.random() < 0.5:
                        # the anchor of the constant predicate as AT alias: the name of a binding that already holds
                        # that instant (the clause agrees with the row whatever zone the constant is written in) or a
                        # fresh one; such queries are mostly rendered with the other spelling of their instants
                        c["p"]["at"] = valvar.get(("T", pe[2])) or g.alias(pool, 0.2)
                        force_alt = True
                pos = g.rng.randint(1, len(cls))
                cls.insert(pos, c)
        elif r < 0.1:
            aj = alias_join(g)
            cls, content = aj["clauses"], aj["content"]
        elif r < 0.2:
            # a clause written with three constants whose AS alias repeats a binding of another clause: the join is on a
            # value that cannot be handed to the driver lookup. The constant comes from a near-miss group that is
            # entirely in the data (floats agreeing in six decimals, int64 beyond 2^53, one anchor in two spellings).
            grp = g.rng.choice(NEAR_GROUPS)
            content = sorted(set(g.content(4, 9)) | set(grp))
            t = bqlu.TRIPLES[g.rng.choice(grp) - 1]
            pos = g.rng.choice(["o", "o", "o", "p", "s"])
            first = bqlgen.clause(bqlgen.S(b="?a") if pos != "s" else bqlgen.S(b="?v"),
                                  (bqlgen.P(c=t[1]) if g.rng.random() < 0.6 else bqlgen.P(b="?p")) if pos != "p" else bqlgen.P(b="?v"),
                                  bqlgen.O(b="?v") if pos == "o" else bqlgen.O(b="?o"))
            spec = bqlgen.clause(bqlgen.S(c=t[0]), bqlgen.P(c=t[1]), bqlgen.O(cell=t[2]))
            spec[pos]["as"] = "?v"
            cls = [first, spec] if g.rng.random() < 0.7 else [spec, first]
        elif r < 0.27 and not optional:
            # bounds written with bindings: an earlier clause binds a time (anchor binding or AT alias, also of a
            # predicate-valued object of an IMMUTABLE triple, which no global bound touches), a later clause uses it
            # as lower and / or upper bound; global bounds on top
            content = sorted(set(g.content(4, 8)) | {1, 2, 3, 20, 13, 14, 15, 16, 17, 26, 27, 28, 29, 30, 39})
            src = g.rng.choice(["p.ab", "p.at", "o.ab", "o.at"])
            if src == "p.ab":
                first = bqlgen.clause(bqlgen.S(b="?a"), bqlgen.P(pid=g.rng.choice(bqlgen.PIDS), ab="?t"), bqlgen.O(b="?x"))
            elif src == "p.at":
                first = bqlgen.clause(bqlgen.S(b="?a"), bqlgen.P(b="?q", at="?t"), bqlgen.O(b="?x"))
            elif src == "o.ab":
                first = bqlgen.clause(bqlgen.S(b="?a"), bqlgen.P(b="?q"), bqlgen.O(pid=bqlu.sid("p"), ab="?t"))
            else:
                first = bqlgen.clause(bqlgen.S(b="?a"), bqlgen.P(b="?q"), bqlgen.O(b="?x", at="?t"))
            side = g.rng.choice(["lo", "hi", "both", "lo+const", "hi+const"])
            p2 = bqlgen.P(pid=g.rng.choice(bqlgen.PIDS), bd=True)
            if side in ("lo", "both", "lo+const"):
                p2["lb"] = "?t"
            if side in ("hi", "both", "hi+const"):
                p2["ub"] = "?t"
            if side == "lo+const":
                p2["hi"] = g.rng.randint(1, len(bqlu.INSTANTS))
            if side == "hi+const":
                p2["lo"] = g.rng.randint(1, len(bqlu.INSTANTS))
            second = bqlgen.clause(bqlgen.S(b=g.rng.choice(["?a", "?b"])), p2, bqlgen.O(b=g.rng.choice(["?y", "?x"])))
            if g.rng.random() < 0.35:
                # the bounded predicate in the OBJECT position (reification: the object is a temporal predicate)
                o2 = bqlgen.O(pid=bqlu.sid("p"), bd=True, lo=p2["lo"], hi=p2["hi"], lb=p2["lb"], ub=p2["ub"])
                if g.rng.random() < 0.5:
                    o2["as"] = "?y"
                second = bqlgen.clause(bqlgen.S(b=g.rng.choice(["?a", "?b"])), bqlgen.P(b="?r"), o2)
            cls = [first, second]
        elif r < 0.31 and not optional:
            # (i) a later clause whose component carries a binding AND an AS alias that earlier clauses bound separately:
            #     only rows in which the two agree are solutions (the lookup can be specialised with one of them only);
            # (ii) a later clause that adds no binding and matches several triples per row (a predicate written with open
            #     bounds): the same assignment several times - with outer aliases that exchange names on top
            content = sorted(set(g.content(4, 8)) | {1, 2, 3, 4, 5, 19, 20, 22, 13, 14})
            first = bqlgen.clause(bqlgen.S(b="?a"), bqlgen.P(c=g.rng.choice([1, 1, 4])) if g.rng.random() < 0.7 else bqlgen.P(b="?p"), bqlgen.O(b="?b"))
            if g.rng.random() < 0.5:
                pos = g.rng.choice(["s", "s", "o"])
                if pos == "s":
                    second = bqlgen.clause(bqlgen.S(b="?a", as_="?b"), bqlgen.P(b="?q"), bqlgen.O(b="?c"))
                else:
                    second = bqlgen.clause(bqlgen.S(b="?c"), bqlgen.P(b="?q"), bqlgen.O(b="?a", as_="?b"))
            else:
                second = bqlgen.clause(bqlgen.S(b="?a"), bqlgen.P(pid=g.rng.choice([bqlu.sid("p"), bqlu.sid("q")]), bd=True), bqlgen.O(b="?b"))
            cls = [first, second]
        elif r < 0.4:
            cls = [mk(p_alias=0.3)]
        elif r < 0.8:
            cls = [mk(), mk()]
        else:
            k = g.rng.randint(3, 4)
            cls = [mk(p_alias=0.08) for _ in range(k)]
        proj = g.proj(cls)
        if not proj:
            continue
        ngraphs = g.rng.choice([1, 1, 2, 3])
        graphs = g.split(content, ngraphs, overlap=g.rng.random() < 0.2)
        glo, ghi = g.bounds()
        qs.append({"clauses": cls, "proj": proj, "graphs": graphs, "glo": glo, "ghi": ghi,
                   "alt": g.rng.random() < (0.7 if force_alt else 0.2)})
    return qs


def enum_c03(g, fraction):
    """Exhaustive small-scope enumeration (DESIGN 5/C03 E): all one-clause shapes over a small
    vocabulary with every subset of <= 2 aliases, and all two-clause shapes over a reduced vocabulary
    with at most one alias, each over fixed graph contents.  fraction < 1: seeded sample."""
    import itertools
    S, P, O, clause = bqlgen.S, bqlgen.P, bqlgen.O, bqlgen.clause
    sid = bqlu.sid
    contents = [[1, 2, 3, 4, 5, 6, 11, 15, 16, 19, 20, 23, 24], [2, 3, 13, 14, 17, 26, 27, 28, 29, 30, 9, 18]]

    def alias_slots(c):
        slots = [("s", "as"), ("s", "ty"), ("s", "id"), ("p", "as"), ("p", "id")]
        if not c["p"]["bd"]:
            slots.append(("p", "at"))
        o = c["o"]
        if o["ck"] in ("I", "F", "X", "B"):
            slots += [("o", "as")]
        elif o["ck"] == "N":
            slots += [("o", "as"), ("o", "ty"), ("o", "id")]
        elif o["ck"] == "P" or o["pid"]:
            slots += [("o", "as"), ("o", "id")] + ([] if o["bd"] else [("o", "at")])
        else:
            slots += [("o", "as"), ("o", "ty"), ("o", "id"), ("o", "at")]
        return slots

    def with_aliases(c, chosen, tag):
        c = bqlgen.clone(c)
        for i, (part, k) in enumerate(chosen):
            c[part][k] = "?%s%s%s" % (tag, part, k)
        return c

    subj1 = [S(c=1), S(c=3), S(b="?a")]
    pred1 = [P(c=1), P(c=2), P(b="?b"), P(pid=sid("p"), ab="?t"), P(pid=sid("p"), bd=True), P(pid=sid("p"), bd=True, lo=2, hi=4),
             P(pid=sid("q"), bd=True, lo=0, hi=2)]
    obj1 = [O(cell=bqlu.N(2)), O(cell=bqlu.I(-5)), O(cell=bqlu.P(2)), O(b="?c"), O(b="?a"), O(pid=sid("p"), ab="?u"),
            O(pid=sid("p"), bd=True, lo=1, hi=4)]
    out = []
    for s_, p_, o_ in itertools.product(subj1, pred1, obj1):
        base = clause(bqlgen.clone(s_), bqlgen.clone(p_), bqlgen.clone(o_))
        slots = alias_slots(base)
        for k in (0, 1, 2):
            for chosen in itertools.combinations(slots, k):
                c = with_aliases(base, chosen, "x")
                if not bqlgen.names_of(c):
                    continue
                for content in contents:
                    if g.rng.random() >= fraction:
                        continue
                    glo, ghi = g.rng.choice([(0, 0), (0, 0), (2, 4), (0, 2), (3, 0)])
                    graphs = [content] if g.rng.random() < 0.7 else g.split(content, 2)
                    out.append({"clauses": [c], "proj": bqlgen.pattern_names([c]), "graphs": graphs, "glo": glo, "ghi": ghi, "alt": False})
    subj2 = [S(c=1), S(b="?a"), S(b="?b")]
    pred2 = [P(c=1), P(b="?p"), P(pid=sid("p"), ab="?t")]
    obj2 = [O(cell=bqlu.N(2)), O(b="?b"), O(b="?c"), O(b="?a")]
    shapes = [clause(bqlgen.clone(a), bqlgen.clone(b), bqlgen.clone(c)) for a, b, c in itertools.product(subj2, pred2, obj2)]
    for c1, c2 in itertools.product(shapes, shapes):
        variants = [(c1, c2)]
        for which, c in ((0, c1), (1, c2)):
            for slot in alias_slots(c):
                pair = [c1, c2]
                pair[which] = with_aliases(c, [slot], "y%d" % which)
                variants.append(tuple(pair))
        for a, b in variants:
            if not bqlgen.names_of(a) or not bqlgen.names_of(b):
                continue
            if g.rng.random() >= fraction:
                continue
            content = contents[0] if g.rng.random() < 0.6 else contents[1]
            cls = [bqlgen.clone(a), bqlgen.clone(b)]
            out.append({"clauses": cls, "proj": bqlgen.pattern_names(cls), "graphs": [content], "glo": 0, "ghi": 0, "alt": False})
    return out


def outer_aliases(g, q, p_query=0.3):
    """SELECT ?a AS ?x: some projected bindings get an outer alias - a fresh name or the name of ANOTHER binding of
    the pattern (so that output names shadow or swap pattern bindings); sets q['select'] / q['outnames']."""
    r = g.rng
    if r.random() >= p_query:
        return
    names = bqlgen.pattern_names(q["clauses"])
    sel, out = [], []
    for i, b in enumerate(q["proj"]):
        al = b
        x = r.random()
        if x < 0.3:
            al = "?o%d" % i
        elif x < 0.6 and len(names) > 1:
            al = r.choice([n for n in names if n != b])
        if al in out or (al != b and al in q["proj"][i + 1:] and r.random() < 0.5):
            al = b if b not in out else "?o%d" % i
        if al in out:
            return
        out.append(al)
        sel.append(b if al == b else "%s AS %s" % (b, al))
    if len(set(out)) != len(out):
        return
    q["select"], q["outnames"] = sel, out


def q_text(q):
    return bqlgen.render_select({"select": q.get("select") or q["proj"], "ngraphs": len(q["graphs"]), "clauses": q["clauses"],
                                 "glo": q["glo"], "ghi": q["ghi"], "alt": q.get("alt", False),
                                 "filters": q.get("filters")})


def q_features(q):
    """mechanical features of a query used to name the class of a rejected case"""
    f = set()
    cls = q["clauses"]
    if len(cls) > 1:
        f.add("multi")
    seen = set()
    for i, c in enumerate(cls):
        ns = set(bqlgen.names_of(c))
        if i > 0 and ns & seen:
            f.add("shared")
        if i > 0 and not (ns & seen):
            f.add("disjoint")
        if bqlgen.specific(c):
            f.add("specific" if i > 0 else "specific-first")
        if c["opt"]:
            f.add("optional")
        seen |= ns
    if q["glo"] or q["ghi"]:
        f.add("global-bounds")
    if len(q["graphs"]) > 1:
        f.add("multi-graph")
    return f


def gen_filter_queries(g, budget):
    """SELECTs with FILTER clauses (C09 reached through BQL): (a) one-clause patterns built to make every filter
    function selective (several anchors per predicate identifier, ties, predicate-valued objects, data split over
    several graphs: the filter is applied per lookup, i.e. per graph); (b) patterns of the C03 generator with a
    filter on one or two of their predicate/object bindings.  What the documentation leaves open is sorted out by
    BQLSemantics.FilterOpen, not here."""
    S, P, O, clause = bqlgen.S, bqlgen.P, bqlgen.O, bqlgen.clause
    r = g.rng
    ops = ["latest", "isTemporal", "isImmutable"]
    tmp_rich = [1, 2, 3, 20, 13, 14, 6, 26, 27, 28, 29, 30, 39, 24, 23]      # p, q, s, a: immutable + several instants
    reif = [15, 16, 17, 1, 2, 3, 4, 20]                                        # predicate-valued objects
    qs = []
    for i in range(budget):
        x = r.random()
        if x < 0.55:
            obj_field = r.random() < 0.35
            base = list(reif) if obj_field else list(tmp_rich)
            extra = [t for t in range(1, len(bqlu.TRIPLES) + 1) if t not in base]
            content = sorted(set(r.sample(base, r.randint(max(2, len(base) - 4), len(base))) + r.sample(extra, r.randint(0, 5))))
            s = S(c=r.choice([1, 2, 3])) if r.random() < 0.4 else S(b="?s")
            pk = r.random()
            if obj_field:
                p = P(c=r.choice([7, 8])) if pk < 0.3 else P(b="?p")
                o = O(b="?o")
                if r.random() < 0.3:
                    o["as"] = "?oa"
                if r.random() < 0.2:
                    o["at"] = "?ot"
                if r.random() < 0.2:
                    o["id"] = "?oi"
                fb = "?oa" if o["as"] and r.random() < 0.5 else "?o"
            else:
                if pk < 0.6:
                    p = P(b="?p")
                elif pk < 0.8:
                    p = P(c=r.choice([1, 2, 3, 4, 5, 12, 13]), as_="?p")
                else:
                    p = P(pid=r.choice(bqlgen.PIDS), ab="?t", as_="?p")
                if p["b"] and r.random() < 0.3:
                    p["as"] = "?pa"
                if r.random() < 0.2:
                    p["at"] = "?pt"
                if r.random() < 0.2:
                    p["id"] = "?pi"
                ok = r.random()
                o = O(b="?o") if ok < 0.7 else O(cell=r.choice(bqlgen.OBJ_CONSTS))
                if o["b"] and r.random() < 0.15:
                    o["ty"] = "?oty"
                fb = "?pa" if p["as"] == "?pa" and r.random() < 0.5 else "?p"
            cls = [clause(s, p, o)]
            if r.random() < 0.25:   # a second clause joined on the subject or disjoint
                c2 = g.seeded_clause(content, {}, ["?s", "?z", "?w"], p_alias=0.1)
                cls.append(c2)
            filters = [{"op": r.choice(ops), "b": fb}]
        else:
            content = g.content()
            pool = bqlgen.VARS[:4]
            valvar = {}
            k = r.choice([1, 2, 2, 3])
            cls = [g.seeded_clause(content, valvar, pool, p_alias=0.15) if r.random() < 0.8 else g.clause(pool[:3], p_alias=0.15)
                   for _ in range(k)]
            cand = []
            for c in cls:
                cand += [n for n in (c["p"]["b"], c["p"]["as"], c["o"]["b"], c["o"]["as"]) if n]
            if not cand:
                continue
            nf = 1 if r.random() < 0.85 else 2
            filters = []
            for b in r.sample(sorted(set(cand)), min(nf, len(set(cand)))):
                filters.append({"op": r.choice(ops if k == 1 else ["isTemporal", "isImmutable", "isTemporal", "isImmutable", "latest"]), "b": b})
        proj = g.proj(cls)
        if not proj:
            continue
        if any(not bqlgen.names_of(c) and not bqlgen.specific(c) for c in cls):
            continue   # binding-free clauses run into the recorded C03 finding rows-without-bindings-dropped
        ngraphs = r.choice([1, 1, 2, 3])
        graphs = g.split(content, ngraphs, overlap=r.random() < 0.15)
        glo, ghi = g.bounds() if r.random() < 0.4 else (0, 0)
        qs.append({"clauses": cls, "proj": proj, "graphs": graphs, "glo": glo, "ghi": ghi, "alt": r.random() < 0.2,
                   "filters": filters})
    return qs


def gen_c10_large(g, n):
    """OPTIONAL clauses met by a table of several hundred rows (two unrelated clauses over 23-34 triples: 529-1156 rows;
    above 1200 rows a result is not judged), sharing a name whose column holds values of several kinds (nodes, numbers,
    text, predicates) - whatever is done differently for large tables (another join strategy, blocks, pools) shows here."""
    qs = []
    for _ in range(n):
        k = g.rng.randint(23, 34)
        content = sorted(g.rng.sample(range(1, len(bqlu.TRIPLES) + 1), k))
        cls = [bqlgen.clause(bqlgen.S(b="?a"), bqlgen.P(b="?p"), bqlgen.O(b="?b")),
               bqlgen.clause(bqlgen.S(b="?c"), bqlgen.P(b="?q"), bqlgen.O(b="?d"))]
        x = g.rng.random()
        if x < 0.45:
            cls.append(bqlgen.clause(bqlgen.S(b="?b"), bqlgen.P(c=g.rng.choice([1, 4])), bqlgen.O(b="?x"), opt=True))   # mixed kinds as subject
        elif x < 0.8:
            cls.append(bqlgen.clause(bqlgen.S(b="?e"), bqlgen.P(c=g.rng.choice([1, 4])), bqlgen.O(b="?b"), opt=True))   # mixed kinds as object
        else:
            cls.append(bqlgen.clause(bqlgen.S(b="?a"), bqlgen.P(b="?q"), bqlgen.O(b="?x"), opt=True))
        names = bqlgen.pattern_names(cls)
        proj = [nm for nm in names if nm not in ("?p",)] if g.rng.random() < 0.5 else names
        qs.append({"clauses": cls, "proj": proj, "graphs": g.split(content, g.rng.choice([1, 1, 2])), "glo": 0, "ghi": 0, "alt": False})
    return qs


def check_bqlfilter(v, tier, d):
    """C09, second part: the filter functions reached through BQL FILTER clauses (bql/planner/filter, planner)."""
    g = Gen(vlib.seed() * 7919 + 909)
    qs = gen_filter_queries(g, 2500 if tier == "quick" else 60000)
    check_q("C09", v, tier, d, qs=qs, covkey="bql_filter")


def check_q(prop, v, tier, d, qs=None, covkey=None):
    n_enum = 0
    if qs is None:
        g = Gen(vlib.seed() * 7919 + (3 if prop == "C03" else 10))
        budget = {"C03": (6000, 150000), "C10": (4000, 80000)}[prop][0 if tier == "quick" else 1]
        qs = gen_c03(g, budget, optional=(prop == "C10"))
        if prop == "C10":
            qs = gen_c10_large(g, 3 if tier == "quick" else 12) + qs
        if prop == "C03":
            eq = enum_c03(g, 0.06 if tier == "quick" else 1.0)
            n_enum = len(eq)
            qs = eq + qs
    cases = []
    ga = Gen(vlib.seed() * 104729 + 17)
    for i, q in enumerate(qs):
        q["id"] = i
        outer_aliases(ga, q)
        cases.append({"id": i, "graphs": q["graphs"], "text": q_text(q)})
    res = run_cases(cases, d, prop)
    events, evq = [], []
    stats = {"cases": len(cases), "parser_rejected": 0, "dump_mismatch": 0, "exec_errors": 0, "nonempty": 0}
    distinct = set()
    mismatches = []
    for q, c in zip(qs, cases):
        r = res[q["id"]]
        hf = hard_failure(r)
        if hf:
            v.reject(hf, {"text": c["text"], "graphs": q["graphs"], "panic": r["panic"][:300]}, {"case": c})
            continue
        if r["perr"]:
            stats["parser_rejected"] += 1
            continue
        if r["clauses"] != q["clauses"]:
            # the pattern the real parser extracted is not the AST the text was rendered from: the result is still judged
            # against the AST (what the text means); the first cases are kept in the evidence
            stats["dump_mismatch"] += 1
            if len(mismatches) < 3:
                mismatches.append({"text": c["text"], "ast": q["clauses"], "parsed": r["clauses"]})
        rows = rows_in_order(r, q.get("outnames") or q["proj"]) if not is_err(r) else []
        if rows is None:
            v.reject("result-columns", {"text": c["text"], "cols": r["cols"]}, {"case": c})
            continue
        if is_err(r):
            stats["exec_errors"] += 1
        if rows:
            stats["nonempty"] += 1
        if len(rows) > 1200:
            # TLC judges a result in time quadratic in the number of solutions: results of this size (products of
            # unrelated clauses over a large content) are left to the smaller cases of the same shape
            stats["too_large_for_the_model"] = stats.get("too_large_for_the_model", 0) + 1
            continue
        distinct.add(c["text"])
        events.append({"ev": "Q", "prop": prop, "id": q["id"], "graphs": q["graphs"], "clauses": q["clauses"], "proj": q["proj"],
                       "glo": q["glo"], "ghi": q["ghi"], "err": is_err(r), "rows": rows, "filters": q.get("filters") or []})
        evq.append((q, c, r))
    rejects, opens, states = validate(events, d, prop, per_chunk=700)
    elsewhere = 0
    for idx, p, cls in rejects:
        q, c, r = evq[idx]
        name = classify_q(prop, cls, q, r)
        if covkey and v.findings.known("C03", name):
            # exactly the answer a recorded C03 deviation predicts (FILTER semantics included): reported by C03
            elsewhere += 1
            continue
        v.reject(name, {"text": c["text"], "graphs": q["graphs"], "class": cls, "err": r["err"][:200], "rows": r["rows"][:6]},
                 {"case": c, "event": events[idx]})
    cov = v.cov if covkey is None else v.cov.setdefault(covkey, {})
    if covkey:
        cov["filter_functions"] = {op: sum(1 for q, _, _ in evq for f in q.get("filters") or [] if f["op"] == op)
                                   for op in ("latest", "isTemporal", "isImmutable")}
        cov["rejected_but_exactly_a_recorded_C03_deviation"] = elsewhere
    cov.update({"states": states, "transitions": len(events), "traces_validated_against_impl": len(events),
                  "queries_generated": len(cases), "enumerated_small_scope_shapes": n_enum, "exhaustive": prop == "C03" and tier == "thorough",
                  "queries_judged": len(events) - opens, "open_not_judged": opens,
                  "distinct_queries": len(distinct), "nonempty_results": stats["nonempty"],
                  "parser_rejected_not_judged": stats["parser_rejected"], "exec_errors": stats["exec_errors"],
                  "chained_optional_queries_judged_for_kept_rows": CHAIN_JUDGED.get(prop, 0),
                  "parse_dump_mismatch": stats["dump_mismatch"], "parse_dump_mismatch_samples": mismatches, "rejected_events": len(rejects),
                  "results_too_large_for_the_model_not_judged": stats.get("too_large_for_the_model", 0),
                  "samples": [{"text": c["text"], "graphs": q["graphs"], "rows": r["rows"][:4]} for q, c, r in evq[:3]]})
    if covkey:
        v.assumptions += ["BQL FILTER: judged per BQLSemantics.FilteredData (per graph lookup: candidates = constants of the clause, window, filter); "
                          "cases the documentation leaves open (FilterOpen) are counted, not judged"]
        return {"events": len(events), "open": opens, "rejects": len(rejects)}
    v.assumptions += ["query texts are rendered from the AST by lib/bqlgen.py; the parsed pattern dumped by the driver agreed with the AST in all but parse_dump_mismatch cases",
                      "multiplicity is left open only when distinct triples give the same assignment or one triple is in several FROM graphs",
                      "statements the parser/semantic layer rejects are not judged here (C18)"]
    if stats["parser_rejected"] * 3 > len(cases):
        raise Infra("more than a third of the generated queries were rejected by the parser: generator or grammar drift")
    return {"events": len(events), "open": opens, "rejects": len(rejects)}


def classify_q(prop, cls, q, r):
    """Names the Layer B deviation that explains a rejected query (mechanical, on query features and
    the kind of wrong answer); 'unexplained' otherwise."""
    f = q_features(q)
    if cls == "error-instead-of-rows":
        if "equally binded" in r["err"] and "specific" in f:
            return "fully-specified-clause-after-bound-one"
        return "error-instead-of-rows"
    return cls


# ------------------------------------------------------------------------------------------ clean base queries
CONTENTS = [
    list(range(1, 13)),
    [1, 2, 3, 13, 14, 20, 26, 27, 28, 29, 30],
    [6, 7, 8, 21, 25, 9, 10, 31],
    [1, 4, 5, 19, 22, 6, 7, 8, 9, 10, 11, 12, 18],
    [15, 16, 17, 2, 3, 26, 27, 28, 29],
    [],
]


def clean_base(g, max_clauses=2, p_alias=0.15):
    """A query of the fragment where C03 holds today (no OPTIONAL, every clause has a binding, aliases
    are fresh names): returns dict(clauses, names, graphs, glo, ghi, alt)."""
    if max_clauses >= 2 and g.rng.random() < 0.12:
        return alias_join(g)
    for _ in range(50):
        content = g.rng.choice(CONTENTS + [g.content(6, 12), g.content(8, 14), g.content(10, 16)])
        k = 1 if (max_clauses < 2 or g.rng.random() < 0.7) else g.rng.randint(2, max_clauses)
        valvar = {}
        cls = []
        for _i in range(k):
            if content and g.rng.random() < 0.85:
                c = g.seeded_clause(content, valvar, bqlgen.VARS[:4], p_alias=p_alias)
            else:
                c = g.clause(bqlgen.VARS[:3], p_alias=p_alias)
            cls.append(c)
        ok = True
        for c in cls:
            ns = bqlgen.names_of(c)
            if not ns or len(ns) != len(set(ns)) and c["o"]["id"] in [n for n in ns if ns.count(n) > 1]:
                ok = False
        if not ok:
            continue
        ngraphs = g.rng.choice([1, 1, 1, 2])
        return {"clauses": cls, "names": bqlgen.pattern_names(cls), "graphs": g.split(content, ngraphs),
                "glo": 0, "ghi": 0, "alt": False, "content": content}
    raise Infra("could not generate a clean base query")


NEAR_GROUPS = [[32, 33, 34], [35, 36, 37, 38], [26, 27, 39], [40, 41], [9, 10, 30, 31], [6, 7, 8, 21], [28, 29, 14],
               [42, 26, 27, 28], [43, 2, 3, 20], [11, 12, 44, 45]]    # anchors in 2525 (UnixNano wraps) among anchors of the usual range


def broad_base(g):
    """one broad clause over a large content: columns with many values of one kind (numbers incl.
    negatives and fractions, anchors in several zones / precisions, predicates, ids) to sort and filter.
    The content always holds two or three whole near-miss groups (floats that agree in 6 decimals, int64
    beyond 2^53, one predicate stored in two zones with a third whose text sorts in between, ...)."""
    must = [t for grp in g.rng.sample(NEAR_GROUPS, g.rng.choice([2, 3])) for t in grp]
    content = sorted(set(g.content(10, 20)) | set(must))
    r = g.rng.random()
    oal = lambda: {k: ("?o" + k if g.rng.random() < 0.2 else "") for k in ("ty", "id", "at")}
    if r < 0.3:
        cls = [bqlgen.clause(bqlgen.S(b="?s"), bqlgen.P(pid=g.rng.choice([bqlu.sid("s"), bqlu.sid("q"), bqlu.sid("p")]), ab="?t"), bqlgen.O(b="?o"))]
    elif r < 0.55:
        a = oal()
        cls = [bqlgen.clause(bqlgen.S(b="?s", id="?sid" if g.rng.random() < 0.5 else ""), bqlgen.P(b="?p", at="?t", id="?pid" if g.rng.random() < 0.4 else ""),
                             bqlgen.O(b="?o", ty=a["ty"], id=a["id"]))]
    elif r < 0.8:
        cls = [bqlgen.clause(bqlgen.S(b="?s"), bqlgen.P(c=g.rng.choice([4, 4, 4, 1])), bqlgen.O(b="?o"))]     # "q"@[]: ints, floats, text, bool
    else:
        a = oal()
        cls = [bqlgen.clause(bqlgen.S(b="?s", ty="?sty" if g.rng.random() < 0.4 else ""), bqlgen.P(b="?p"),
                             bqlgen.O(b="?o", at=a["at"], ty=a["ty"], id=a["id"]))]
    return {"clauses": cls, "names": bqlgen.pattern_names(cls), "graphs": g.split(content, g.rng.choice([1, 1, 2])),
            "glo": 0, "ghi": 0, "alt": False, "content": content}


def kind_base(g, prefer=None, distinct=False):
    """one clause `?s <constant predicate> ?o` over a content in which every object of that predicate is of ONE kind
    (all float64, all int64, all text, all nodes): the ?o column can then be judged by ORDER BY / HAVING, and it holds
    the whole near-miss group of that kind (floats agreeing in 6 decimals, int64 beyond 2^53)."""
    pc = g.rng.choice([4, 4, 4, 1])
    mine = [i + 1 for i, t in enumerate(bqlu.TRIPLES) if t[1] == pc]
    kinds = sorted({bqlu.TRIPLES[i - 1][2]["k"] for i in mine})
    k = prefer if prefer in kinds else g.rng.choice(kinds)
    same = [i for i in mine if bqlu.TRIPLES[i - 1][2]["k"] == k]
    if distinct:
        # no two rows with the same object: ORDER BY ?o alone is then a total order
        seen, keep = set(), []
        for i in g.rng.sample(same, len(same)):
            key = json.dumps(bqlu.TRIPLES[i - 1][2], sort_keys=True)
            if key not in seen:
                seen.add(key)
                keep.append(i)
        same = sorted(keep)
    others = [i + 1 for i, t in enumerate(bqlu.TRIPLES) if t[1] != pc]
    content = sorted(set(same) | set(g.rng.sample(others, g.rng.randint(3, 8))))
    if len(same) > 4 and g.rng.random() < 0.3:
        content = sorted(set(content) - {g.rng.choice(same)})
    s_ = bqlgen.S(b="?s", id="?sid" if g.rng.random() < 0.3 else "")
    cls = [bqlgen.clause(s_, bqlgen.P(c=pc), bqlgen.O(b="?o"))]
    return {"clauses": cls, "names": bqlgen.pattern_names(cls), "graphs": g.split(content, g.rng.choice([1, 1, 2])),
            "glo": 0, "ghi": 0, "alt": False, "content": content}


def alias_join(g):
    """2-3 clauses that are joined through a value EXTRACTED from a component (AT / anchor binding: the instant,
    ID: the id string, TYPE: the type string) rather than through a component itself; the subject variable is shared,
    chained (object of one = subject of the next) or independent. Such a join cannot be pushed into the lookup of the
    later clause: it has to be enforced on the rows."""
    kind = g.rng.choice(["T", "T", "I", "Y"])
    k = 2 if g.rng.random() < 0.8 else 3
    link = g.rng.choice(["same-subject", "same-subject", "chain", "none"])
    cls = []
    for i in range(k):
        sv = "?s" if link == "same-subject" else ("?n%d" % i if link == "chain" else "?s%d" % i)
        ov = "?n%d" % (i + 1) if link == "chain" else "?o%d" % i
        s_, p_, o_ = bqlgen.S(b=sv), bqlgen.P(b="?p%d" % i), bqlgen.O(b=ov)
        if kind == "T":
            pos = g.rng.choice(["p.at", "p.ab", "p.ab", "o.at", "o.ab"])
            if pos == "p.at":
                p_["at"] = "?j"
            elif pos == "p.ab":
                p_ = bqlgen.P(pid=g.rng.choice(bqlgen.PIDS), ab="?j")
            elif pos == "o.at":
                o_["at"] = "?j"
            else:
                o_ = bqlgen.O(pid=g.rng.choice(bqlgen.PIDS), ab="?j")
        elif kind == "I" and i > 0 and g.rng.random() < 0.3:
            # the id string meets a plain OBJECT binding: a text literal that spells the id is another value (no join)
            o_ = bqlgen.O(b="?j")
        elif kind == "I":
            pos = g.rng.choice(["s.id", "p.id", "o.id"])
            {"s.id": s_, "p.id": p_, "o.id": o_}[pos]["id"] = "?j"
        else:
            pos = g.rng.choice(["s.ty", "o.ty"])
            {"s.ty": s_, "o.ty": o_}[pos]["ty"] = "?j"
        if g.rng.random() < 0.15:
            s_ = bqlgen.S(c=g.rng.choice(bqlgen.NODE_CONSTS), id=s_["id"], ty=s_["ty"])
        cls.append(bqlgen.clause(s_, p_, o_))
    must = [t for grp in g.rng.sample(NEAR_GROUPS, 2) for t in grp]
    content = sorted(set(g.content(8, 16)) | set(must) | set(g.rng.sample([15, 16, 17, 2, 3, 13, 14, 20, 23, 24], 4))
                     | ({11, 12, 24, 25} if kind == "I" else set()))     # text literals "a", "b", "ab" next to nodes with those ids
    # the known finding oid-alias-unchecked needs a node-object ID alias repeated INSIDE one clause: not produced here
    return {"clauses": cls, "names": bqlgen.pattern_names(cls), "graphs": g.split(content, g.rng.choice([1, 1, 2])),
            "glo": 0, "ghi": 0, "alt": False, "content": content}


def sel_text(b, select, **kw):
    q = {"select": select, "ngraphs": len(b["graphs"]), "clauses": b["clauses"], "glo": b["glo"], "ghi": b["ghi"], "alt": b["alt"]}
    q.update(kw)
    return bqlgen.render_select(q)


def alias_some(g, sel, outnames, group, p=0.2):
    """rename some plainly projected bindings with an outer AS alias (ORDER BY / GROUP BY / HAVING then
    refer to the alias); returns (sel, outnames, group)"""
    sel, outnames = list(sel), list(outnames)
    group = list(group) if group else group
    for i, item in enumerate(sel):
        if " " in item or g.rng.random() >= p:
            continue
        al = "?o%d" % i
        sel[i] = "%s AS %s" % (item, al)
        if group:
            group = [al if x == outnames[i] else x for x in group]
        outnames[i] = al
    return sel, outnames, group


def shadow_select(g, names):
    """project a subset of the pattern bindings and give some of them, as outer alias, the NAME of a binding that is
    not projected: `SELECT ?o AS ?s, ?p` - the output column ?s then holds the value of ?o, and ORDER BY / HAVING
    on ?s mean the output column, not the pattern binding.  Returns (sel, outnames)."""
    k = g.rng.randint(1, len(names) - 1)
    proj = g.rng.sample(names, k)
    rest = [n for n in names if n not in proj]
    sel, outnames = [], []
    for b_ in proj:
        if rest and g.rng.random() < 0.6:
            al = rest.pop(g.rng.randrange(len(rest)))
            sel.append("%s AS %s" % (b_, al))
            outnames.append(al)
        else:
            sel.append(b_)
            outnames.append(b_)
    return sel, outnames


class Batch:
    """collects driver cases; after run() results are looked up by handle"""

    def __init__(self):
        self.cases = []

    def add(self, graphs, text, **cfg):
        c = {"id": len(self.cases), "graphs": graphs, "text": text}
        c.update(cfg)
        self.cases.append(c)
        return c["id"]

    def run(self, d, tag):
        self.res = run_cases(self.cases, d, tag)

    def rows(self, h, outnames):
        """(err, rows) for handle h with columns ordered as outnames; hard failures -> ('panic'/'timeout', [])"""
        r = self.res[h]
        hf = hard_failure(r)
        if hf:
            return hf, []
        if r["perr"]:
            return "perr", []
        if r["err"]:
            return "err", []
        rows = rows_in_order(r, outnames)
        if rows is None:
            return "cols", []
        return "", rows


def finish_events(prop, v, events, meta, d, b):
    """validate events with TLC and report rejects; meta[i] = dict with 'texts' (handles) for event i"""
    rejects, opens, states = validate(events, d, prop)
    for idx, p, cls in rejects:
        m = meta[idx]
        w = {"class": cls}
        w.update({k: m[k] for k in m if k != "handles"})
        w["results"] = [{"text": b.cases[h]["text"], "err": b.res[h]["err"][:200], "rows": b.res[h]["rows"][:8]} for h in m["handles"]]
        v.reject(cls, w, {"cases": [b.cases[h] for h in m["handles"]], "event": events[idx]})
    return rejects, opens, states


def note_hard(v, b, hs, stats):
    """report panics / timeouts / dead driver for the handles; returns True if any"""
    bad = False
    for h in hs:
        hf = hard_failure(b.res[h])
        if hf:
            v.reject(hf, {"text": b.cases[h]["text"], "graphs": b.cases[h]["graphs"], "panic": b.res[h]["panic"][:300],
                          "stack": b.res[h].get("stack", [])}, {"case": b.cases[h]})
            stats["hard"] = stats.get("hard", 0) + 1
            bad = True
    return bad


# ------------------------------------------------------------------------------------------ C11 GROUP BY
def check_group(v, tier, d):
    g = Gen(vlib.seed() * 7919 + 11)
    n = 3000 if tier == "quick" else 60000
    b = Batch()
    plans = []
    for _ in range(n):
        base = clean_base(g, max_clauses=2, p_alias=0.1)
        x = g.rng.random()
        if x < 0.3:
            base = broad_base(g)
        elif x < 0.4:
            base = kind_base(g)
        names = base["names"]
        if len(names) < 2:
            continue
        nk = 1 if g.rng.random() < 0.65 else 2
        keys = g.rng.sample(names, min(nk, len(names) - 1))
        rest = [x for x in names if x not in keys]
        aggs = []
        # (one time in seven: GROUP BY without any aggregate - one row per distinct combination of the keys)
        for _a in range(0 if g.rng.random() < 0.15 else g.rng.randint(1, 3)):
            op = g.rng.choice(["count", "count", "countd", "sum"])
            aggs.append((op, g.rng.choice(rest)))
        # base query projects keys + aggregated inputs (deduplicated), grouped query in output order
        inputs = keys + [x for x in dict.fromkeys(a[1] for a in aggs)]
        sel, outnames, spec = [], [], []
        gnames = []
        noself = set()
        for ki, k in enumerate(keys):
            if g.rng.random() < 0.25:   # grouping by an alias of the projection
                al = "?k%d" % ki
                clash = [a[1] for a in aggs if a[1] not in keys and a[1] not in gnames and a[1] not in outnames]
                if clash and g.rng.random() < 0.5:
                    # ... an alias that is the NAME of a binding aggregated in the same query (`?parent AS ?person,
                    # COUNT(?person) AS ?n ... GROUP BY ?person`): the key is the output column, the aggregate reads the binding
                    al = g.rng.choice(clash)
                    noself.add(al)
                sel.append("%s AS %s" % (k, al))
                outnames.append(al)
                gnames.append(al)
            else:
                sel.append(k)
                outnames.append(k)
                gnames.append(k)
            spec.append({"op": "key", "i": inputs.index(k) + 1})
        for j, (op, x) in enumerate(aggs):
            al = "?g%d" % j
            if sum(1 for a in aggs if a[1] == x) == 1 and x not in noself and g.rng.random() < 0.2:
                al = x    # the aggregate is named like the binding it aggregates (`SUM(?v) AS ?v`)
            fn = {"count": "COUNT(%s)", "countd": "COUNT(DISTINCT %s)", "sum": "SUM(%s)"}[op] % x
            sel.append("%s AS %s" % (fn, al))
            outnames.append(al)
            spec.append({"op": op, "i": inputs.index(x) + 1})
        if g.rng.random() < 0.3:  # grouping keys listed in another order / projection order shuffled
            perm = list(range(len(sel)))
            g.rng.shuffle(perm)
            sel, outnames, spec = [sel[i] for i in perm], [outnames[i] for i in perm], [spec[i] for i in perm]
        hb = b.add(base["graphs"], sel_text(base, inputs))
        hg = b.add(base["graphs"], sel_text(base, sel, group=gnames))
        plans.append((base, inputs, keys, outnames, spec, hb, hg))
    b.run(d, "C11")
    events, meta, stats = [], [], {"skipped_perr": 0}
    distinct = set()
    for base, inputs, keys, outnames, spec, hb, hg in plans:
        if note_hard(v, b, [hb, hg], stats):
            continue
        eb, rb = b.rows(hb, inputs)
        eg, rg = b.rows(hg, outnames)
        if eb == "perr" or eg == "perr":
            stats["skipped_perr"] += 1
            continue
        if eg == "cols":
            v.reject("result-columns", {"text": b.cases[hg]["text"], "cols": b.res[hg]["cols"]}, {"case": b.cases[hg]})
            continue
        distinct.add(b.cases[hg]["text"])
        events.append({"ev": "G", "prop": "C11", "keys": [inputs.index(k) + 1 for k in keys], "spec": spec, "base": rb,
                       "baseerr": eb != "", "rows": rg, "err": eg != ""})
        meta.append({"handles": [hb, hg], "err": b.res[hg]["err"][:200]})
    rejects, opens, states = finish_events("C11", v, events, meta, d, b)
    multi = sum(1 for e in events if len(e["base"]) > len(e["rows"]) > 0)
    v.cov.update({"states": states, "transitions": len(events), "traces_validated_against_impl": len(events),
                  "grouped_queries": len(events), "judged": len(events) - opens, "open_not_judged": opens,
                  "distinct_queries": len(distinct), "with_real_grouping": multi, "empty_base": sum(1 for e in events if not e["base"]),
                  "parser_rejected_not_judged": stats["skipped_perr"], "rejected_events": len(rejects),
                  "samples": [{"base": b.cases[m["handles"][0]]["text"], "grouped": b.cases[m["handles"][1]]["text"],
                               "rows": b.res[m["handles"][1]]["rows"][:3]} for m in meta[:3]]})
    v.assumptions += ["the grouped result is judged against Group() of the RECORDED ungrouped result of the same pattern (C03 defects do not leak in)",
                      "sums are judged only when all summed cells of the column are of one numeric kind (float64 cells are exact multiples of 2^-24)"]


# ------------------------------------------------------------------------------------------ C12 ORDER BY / LIMIT
def check_order(v, tier, d):
    g = Gen(vlib.seed() * 7919 + 12)
    n = 3000 if tier == "quick" else 40000
    b = Batch()
    plans = []
    for _ in range(n):
        base = clean_base(g, max_clauses=2, p_alias=0.2)
        x = g.rng.random()
        if x < 0.35:
            base = broad_base(g)
        elif x < 0.6:
            base = kind_base(g)
        names = base["names"]
        sel = list(names)
        group = None
        outnames = list(names)
        if len(names) >= 2 and g.rng.random() < 0.2:  # order by aggregate outputs
            k = g.rng.choice(names)
            x = g.rng.choice([y for y in names if y != k])
            sel = [k, "COUNT(%s) AS ?n" % x]
            outnames = [k, "?n"]
            group = [k]
        elif len(names) >= 3 and g.rng.random() < 0.22:
            # two grouping keys, listed in SELECT in another order than in GROUP BY (the reduce step sorts by one of
            # the two lists, ORDER BY must sort by its own)
            k1, k2, x = g.rng.sample(names, 3)
            cols = [(k1, k1), (k2, k2), ("COUNT(%s) AS ?n" % x, "?n")]
            g.rng.shuffle(cols)
            sel, outnames = [c[0] for c in cols], [c[1] for c in cols]
            group = [k1, k2]
        elif len(names) >= 2 and g.rng.random() < 0.12:
            sel, outnames = shadow_select(g, names)
        grouped2 = bool(group) and len(group) == 2
        sel, outnames, group = alias_some(g, sel, outnames, group)
        nkeys = g.rng.choice([0, 1, 1, 1, 2, 2, 3])
        order = []
        for _k in range(nkeys):
            order.append((g.rng.choice(outnames), g.rng.random() < 0.4))
        if grouped2 and g.rng.random() < 0.75:
            # ORDER BY a prefix of the GROUP BY list, or of the grouping keys in the order SELECT shows them (the two lists
            # differ half of the time), mostly ascending
            keyseq = group if g.rng.random() < 0.5 else [x for x in outnames if x in group]
            order = [(x, g.rng.random() < 0.15) for x in keyseq[:g.rng.choice([1, 2, 2])]]
        # consistent directions for repeated keys (the parser rejects contradictions)
        seen = {}
        order = [(x, seen.setdefault(x, dsc)) for x, dsc in order]
        limit = g.rng.choice([None, None, 0, 1, 2, 3, 5, 50])
        if not order and limit is None:
            limit = g.rng.choice([0, 1, 2, 3])
        kw = {"group": group} if group else {}
        if g.rng.random() < 0.2:
            # in combination with HAVING (same clause in the base and in every variant; its meaning is C13's matter)
            nodes = []
            _, htxt = gen_expr(g, outnames, g.rng.choice([0, 0, 1]), nodes, [set() for _ in outnames])
            kw["having"] = htxt
        hb = b.add(base["graphs"], sel_text(base, sel, **kw))
        ho = b.add(base["graphs"], sel_text(base, sel, order=order, **kw)) if order else hb
        hr = b.add(base["graphs"], sel_text(base, sel, order=order, **kw)) if order else hb
        hl = b.add(base["graphs"], sel_text(base, sel, order=order, limit='"%d"^^type:int64' % limit, **kw)) if limit is not None else None
        plans.append((base, outnames, order, limit, hb, ho, hr, hl))
    # statements whose LIMIT is not a non-negative int64 must be rejected
    bad_limits = ['"-1"^^type:int64', '"-7"^^type:int64', '"1.5"^^type:float64', '"x"^^type:text', '"true"^^type:bool', '"2"^^type:float64']
    errplans = []
    for bl in bad_limits:
        for _i in range(3 if tier == "quick" else 30):
            base = clean_base(g, max_clauses=1)
            errplans.append((bl, b.add(base["graphs"], sel_text(base, base["names"], limit=bl))))
    b.run(d, "C12")
    events, meta, stats = [], [], {"skipped_perr": 0}
    distinct = set()
    for base, outnames, order, limit, hb, ho, hr, hl in plans:
        hs = [h for h in (hb, ho, hr, hl) if h is not None]
        if note_hard(v, b, hs, stats):
            continue
        eb, rb = b.rows(hb, outnames)
        if eb == "perr":
            stats["skipped_perr"] += 1
            continue
        okeys = []
        for x, dsc in order:
            if x not in [o[0] for o in okeys]:
                okeys.append((x, dsc))
        ospec = [{"i": outnames.index(x) + 1, "desc": dsc} for x, dsc in okeys]
        if order:
            eo, ro = b.rows(ho, outnames)
            er, rr = b.rows(hr, outnames)
            if eo == "perr":
                stats["skipped_perr"] += 1
                continue
            distinct.add(b.cases[ho]["text"])
            events.append({"ev": "O", "prop": "C12", "order": ospec, "limit": -1, "base": rb, "baseerr": eb != "",
                           "rows": ro, "rep": rr, "err": eo != "" or er != ""})
            meta.append({"handles": [hb, ho], "err": b.res[ho]["err"][:200]})
        if hl is not None:
            el, rl = b.rows(hl, outnames)
            if el == "perr":
                stats["skipped_perr"] += 1
                continue
            distinct.add(b.cases[hl]["text"])
            events.append({"ev": "O", "prop": "C12", "order": ospec, "limit": limit, "base": rb, "baseerr": eb != "",
                           "rows": rl, "rep": [], "err": el != ""})
            meta.append({"handles": [hb, hl], "err": b.res[hl]["err"][:200]})
    for bl, h in errplans:
        if note_hard(v, b, [h], stats):
            continue
        r = b.res[h]
        events.append({"ev": "E", "prop": "C12", "err": bool(r["perr"] or r["err"])})
        meta.append({"handles": [h], "limit": bl})
    rejects, opens, states = finish_events("C12", v, events, meta, d, b)
    v.cov.update({"states": states, "transitions": len(events), "traces_validated_against_impl": len(events),
                  "judged": len(events) - opens, "open_not_judged": opens, "distinct_queries": len(distinct),
                  "with_limit": sum(1 for e in events if e["ev"] == "O" and e["limit"] >= 0),
                  "nontrivial_sorts": sum(1 for e in events if e["ev"] == "O" and e["order"] and len(e["base"]) > 1),
                  "invalid_limit_statements": len(errplans), "hard_failures": stats.get("hard", 0),
                  "parser_rejected_not_judged": stats["skipped_perr"], "rejected_events": len(rejects),
                  "samples": [{"base": b.cases[m["handles"][0]]["text"], "variant": b.cases[m["handles"][-1]]["text"],
                               "rows": b.res[m["handles"][-1]]["rows"][:3]} for m in meta[:3]]})
    v.assumptions += ["ordered / limited results are judged against the RECORDED plain result of the same query",
                      "key columns holding values of several kinds are not judged (open); ranks of printed forms and instants come from lib/bqlu.py"]


# ------------------------------------------------------------------------------------------ C13 HAVING
CONST_POOL = [bqlu.I(bqlu.BIG), bqlu.I(bqlu.BIG + 1), bqlu.I(-(bqlu.BIG + 1)), bqlu.FE(bqlu.FSCALE + 1), bqlu.FE(bqlu.FSCALE + 2), bqlu.FE(3), bqlu.FE(5),
              bqlu.I(-5), bqlu.I(-3), bqlu.I(-4), bqlu.I(0), bqlu.I(2), bqlu.I(1), bqlu.F(5), bqlu.F(-2), bqlu.F(-6), bqlu.F(0),
              bqlu.X("a"), bqlu.X("b"), bqlu.X("ab"), bqlu.X("a b"), bqlu.X("a!"), bqlu.B(1), bqlu.N(1), bqlu.N(2), bqlu.P(1), bqlu.P(2), bqlu.P(12),
              {"k": "T", "v": 2}, {"k": "T", "v": 3}, {"k": "T", "v": 4}, {"k": "T", "v": 5}, {"k": "T", "v": 6}]


def gen_expr(g, cols, depth, nodes, colkinds, colvals=None):
    """appends nodes of a random expression over output columns; returns (index, text). Shape follows
    the grammar: E := atom | NOT E | ( E ) | ( E ) AND E | ( E ) OR E"""
    r = g.rng.random()
    idx = len(nodes) + 1
    blank = {"op": "cmp", "l": 0, "r": 0, "cop": "=", "lc": 0, "lk": "0", "lv": 0, "rc": 0, "rk": "0", "rv": 0}
    if depth == 0 or r < 0.4:
        node = dict(blank)
        nodes.append(node)
        lc = g.rng.randrange(len(cols))
        node["lc"] = lc + 1
        node["cop"] = g.rng.choice(["=", "<", ">"])
        if g.rng.random() < 0.2 and len(cols) > 1:
            rc = g.rng.randrange(len(cols))
            node["rc"] = rc + 1
            return idx, "%s %s %s" % (cols[lc], node["cop"], cols[rc])
        # prefer a constant of a kind that occurs in the column
        kinds = colkinds[lc]
        pool = [c for c in CONST_POOL if c["k"] in kinds or (c["k"] == "X" and "S" in kinds)] if kinds and g.rng.random() < 0.8 else CONST_POOL
        c = g.rng.choice(pool or CONST_POOL)
        # half of the time a value that occurs in the column itself (sharp boundaries for = < >)
        own = [x for x in (colvals[lc] if colvals else []) if x["k"] in ("I", "F", "X", "B", "N", "P", "T")]
        if own and g.rng.random() < 0.5:
            c = g.rng.choice(own)
        node["rk"], node["rv"] = c["k"], c["v"]
        return idx, "%s %s %s" % (cols[lc], node["cop"], bqlu.cell_text(c, alt=g.rng.random() < 0.3))
    if r < 0.55:
        node = dict(blank, op="not")
        nodes.append(node)
        node["l"], t = gen_expr(g, cols, depth - 1, nodes, colkinds, colvals)
        return idx, "NOT " + t
    if r < 0.65:
        return (lambda it: (it[0], "( %s )" % it[1]))(gen_expr(g, cols, depth - 1, nodes, colkinds, colvals))
    node = dict(blank, op=g.rng.choice(["and", "or"]))
    nodes.append(node)
    node["l"], tl = gen_expr(g, cols, depth - 1, nodes, colkinds, colvals)
    node["r"], tr = gen_expr(g, cols, depth - 1, nodes, colkinds, colvals)
    return idx, "( %s ) %s %s" % (tl, node["op"].upper(), tr)


def check_having(v, tier, d):
    g = Gen(vlib.seed() * 7919 + 13)
    n = 3000 if tier == "quick" else 50000
    # pass 1: base queries (without HAVING) to learn the kinds of their columns
    b1 = Batch()
    bases = []
    nbig = 5 if tier == "quick" else 30
    for _i in range(n):
        base = clean_base(g, max_clauses=2, p_alias=0.3)
        x = g.rng.random()
        if _i < nbig:
            # a LARGE table reaches HAVING (two unrelated clauses over the whole universe: more than a thousand rows):
            # whatever is done block-wise, in parallel or from a size on shows only there
            content = sorted(g.rng.sample(range(1, len(bqlu.TRIPLES) + 1), g.rng.randint(36, len(bqlu.TRIPLES))))
            cls = [bqlgen.clause(bqlgen.S(b="?a", id="?aid"), bqlgen.P(b="?b"), bqlgen.O(b="?c")),
                   bqlgen.clause(bqlgen.S(b="?d", id="?did"), bqlgen.P(b="?e", id="?eid"), bqlgen.O(b="?f"))]
            base = {"clauses": cls, "names": bqlgen.pattern_names(cls), "graphs": [content], "glo": 0, "ghi": 0, "alt": False, "content": content}
            x = 1.0
        if x < 0.2:
            base = broad_base(g)
        elif x < 0.4:
            base = kind_base(g)
        elif _i >= nbig and g.rng.random() < 0.5:
            # broad one-clause patterns over a large content: many rows of several kinds to filter
            content = g.content(12, 22)
            o = bqlgen.O(b="?o")
            for k in ("ty", "id", "at"):
                if g.rng.random() < 0.25:
                    o[k] = "?o" + k
            pr = bqlgen.P(b="?p", id="?pid" if g.rng.random() < 0.4 else "", at="?pat" if g.rng.random() < 0.3 else "")
            if g.rng.random() < 0.3:
                pr = bqlgen.P(pid=g.rng.choice(bqlgen.PIDS), ab="?t")
            sb = bqlgen.S(b="?s", id="?sid" if g.rng.random() < 0.4 else "", ty="?sty" if g.rng.random() < 0.3 else "")
            cls = [bqlgen.clause(sb, pr, o)]
            base = {"clauses": cls, "names": bqlgen.pattern_names(cls), "graphs": g.split(content, g.rng.choice([1, 1, 2])),
                    "glo": 0, "ghi": 0, "alt": False, "content": content}
        names = base["names"]
        sel, outnames, group = list(names), list(names), None
        if _i >= nbig and len(names) >= 2 and g.rng.random() < 0.25:  # HAVING over aggregate outputs
            k = g.rng.choice(names)
            x = g.rng.choice([y for y in names if y != k])
            an = x if g.rng.random() < 0.35 else "?n"   # the aggregate may be named like the binding it aggregates
            sel, outnames, group = [k, "COUNT(%s) AS %s" % (x, an)], [k, an], [k]
            zs = [y for y in names if y != k and y != an]
            if zs and g.rng.random() < 0.4:
                # the grouping column is shown under the NAME of another binding of the pattern (`?o AS ?s ... GROUP BY ?s
                # HAVING ?s = ...`): GROUP BY and HAVING mean the output column, not the pattern binding of that name
                z = g.rng.choice(zs)
                sel, outnames, group = ["%s AS %s" % (k, z), "COUNT(%s) AS %s" % (x, an)], [z, an], [z]
        elif _i >= nbig and len(names) >= 2 and g.rng.random() < 0.2:
            sel, outnames = shadow_select(g, names)
        sel, outnames, group = alias_some(g, sel, outnames, group)
        kw = {"group": group} if group else {}
        bases.append((base, sel, outnames, kw, b1.add(base["graphs"], sel_text(base, sel, **kw))))
    b1.run(d, "C13a")
    b = Batch()
    plans = []
    stats = {"skipped_perr": 0}
    for base, sel, outnames, kw, h1 in bases:
        if note_hard(v, b1, [h1], stats):
            continue
        eb, rb = b1.rows(h1, outnames)
        if eb:
            continue
        colkinds = [set(r[i]["k"] for r in rb) for i in range(len(outnames))]
        colvals = [[r[i] for r in rb] for i in range(len(outnames))]
        nodes = []
        _, text = gen_expr(g, outnames, g.rng.choice([0, 1, 2, 3]), nodes, colkinds, colvals)
        hb = b.add(base["graphs"], sel_text(base, sel, **kw))
        hh = b.add(base["graphs"], sel_text(base, sel, having=text, **kw))
        plans.append((outnames, nodes, text, hb, hh))
    b.run(d, "C13")
    events, meta = [], []
    distinct = set()
    for outnames, nodes, text, hb, hh in plans:
        if note_hard(v, b, [hb, hh], stats):
            continue
        eb, rb = b.rows(hb, outnames)
        eh, rh = b.rows(hh, outnames)
        if eb == "perr" or eh == "perr":
            stats["skipped_perr"] += 1
            continue
        distinct.add(b.cases[hh]["text"])
        events.append({"ev": "H", "prop": "C13", "e": nodes, "base": rb, "baseerr": eb != "", "rows": rh, "err": eh != ""})
        meta.append({"handles": [hb, hh], "having": text, "err": b.res[hh]["err"][:200]})
    rejects, opens, states = finish_events("C13", v, events, meta, d, b)
    v.cov.update({"states": states, "transitions": len(events), "traces_validated_against_impl": len(events),
                  "judged": len(events) - opens, "open_not_judged": opens, "distinct_queries": len(distinct),
                  "filtering_cases": sum(1 for e in events if 0 < len(e["rows"]) < len(e["base"])),
                  "expressions_with_connectives": sum(1 for e in events if len(e["e"]) > 1),
                  "rejected_by_parser_or_builder_not_judged": stats["skipped_perr"], "rejected_events": len(rejects),
                  "samples": [{"query": b.cases[m["handles"][1]]["text"], "rows": b.res[m["handles"][1]]["rows"][:3]} for m in meta[:3]]})
    v.assumptions += ["rows with HAVING are judged against Filter(Eval) of the RECORDED rows without it; expression trees follow the grammar's own (right-nested) parse",
                      "statements the parser / expression builder rejects are not judged; < and > on nodes, predicates and bools are not judged"]


# ------------------------------------------------------------------------------------------ C14 metamorphic
def rename(q, mapping):
    import copy
    q2 = copy.deepcopy(q)
    for c in q2["clauses"]:
        for part in ("s", "p", "o"):
            for k, val in c[part].items():
                if isinstance(val, str) and val in mapping:
                    c[part][k] = mapping[val]
    q2["names"] = [mapping.get(x, x) for x in q["names"]]
    return q2


def check_meta(v, tier, d):
    import itertools
    g = Gen(vlib.seed() * 7919 + 14)
    n = 800 if tier == "quick" else 10000
    b = Batch()
    plans = []
    # a third of the base queries come from the pattern families of C03 (joins through extracted values, constant
    # clauses whose alias repeats a binding, binding + alias both bound, re-matching clauses, ...), as far as every
    # clause has a binding or is fully specified and no bound is written with a binding (those are order dependent
    # by definition)
    def usable(q):
        for c in q["clauses"]:
            ns = bqlgen.names_of(c)
            if not ns and not bqlgen.specific(c):
                return False
            if len(ns) != len(set(ns)) and c["o"]["id"] in [x for x in ns if ns.count(x) > 1]:
                return False
        return len(q["clauses"]) <= 3

    def order_dependent(base):
        # a bound written with a binding needs an earlier clause to bind it: such patterns are not permuted
        return any(c["p"].get("lb") or c["p"].get("ub") or c["o"].get("lb") or c["o"].get("ub") for c in base["clauses"])
    rich = [q for q in gen_c03(Gen(vlib.seed() * 7919 + 141), n) if usable(q)]
    for _ in range(n):
        rematch = False
        base = clean_base(g, max_clauses=3, p_alias=0.15)
        if g.rng.random() < 0.15:
            base = broad_base(g)
        elif g.rng.random() < 0.15:
            base = kind_base(g, prefer=g.rng.choice(["I", "I", "F", None]), distinct=g.rng.random() < 0.6)      # one column of ONE kind holding a whole near-miss group (int64 beyond 2^53, floats, ...)
        elif g.rng.random() < 0.06:
            # a later clause that binds nothing new and matches several triples per row (open bounds): the same assignment
            # arrives several times; with the name-exchanging SELECT list below, whatever is done once per ARRIVAL shows
            content = sorted(set(g.content(4, 8)) | {1, 2, 3, 4, 5, 19, 20, 22, 13, 14})
            cls = [bqlgen.clause(bqlgen.S(b="?a"), bqlgen.P(c=g.rng.choice([1, 4])) if g.rng.random() < 0.6 else bqlgen.P(b="?p"), bqlgen.O(b="?b")),
                   bqlgen.clause(bqlgen.S(b="?a"), bqlgen.P(pid=g.rng.choice([bqlu.sid("p"), bqlu.sid("q")]), bd=True), bqlgen.O(b="?b"))]
            base = {"clauses": cls, "names": bqlgen.pattern_names(cls), "graphs": [content], "glo": 0, "ghi": 0, "alt": False, "content": content}
            rematch = True
        elif rich and g.rng.random() < 0.35:
            q = rich.pop()
            content = sorted({t for gr in q["graphs"] for t in gr})
            base = {"clauses": q["clauses"], "names": bqlgen.pattern_names(q["clauses"]), "graphs": [content], "glo": q["glo"],
                    "ghi": q["ghi"], "alt": q.get("alt", False), "content": content}
        if g.rng.random() < 0.3:
            # add a fully specified clause (a stored triple, sometimes a missing one), with or without
            # an alias, at a random position: it holds or not whatever its position
            content = base["content"]
            if content and g.rng.random() < 0.8:
                t = bqlu.TRIPLES[g.rng.choice(content) - 1]
            else:
                t = bqlu.TRIPLES[g.rng.randrange(len(bqlu.TRIPLES))]
            fc = bqlgen.clause(bqlgen.S(c=t[0]), bqlgen.P(c=t[1]), bqlgen.O(cell=t[2]))
            if g.rng.random() < 0.3:
                fc["s"]["id"] = "?fs"
            cls = list(base["clauses"])
            cls.insert(g.rng.randint(0, len(cls)), fc)
            base = dict(base, clauses=cls, names=bqlgen.pattern_names(cls))
        names = base["names"]
        content = base["content"]
        one = [content]
        # one time in four the SELECT list gives every binding the NAME of another one (`?a AS ?b, ?b AS ?a`): column i
        # still holds the value of names[i]; the result must not depend on it in any variant
        outn = list(names)
        if len(names) > 1 and (g.rng.random() < 0.25 or rematch):
            g.rng.shuffle(outn)
        sel0 = [n if n == o else "%s AS %s" % (n, o) for n, o in zip(names, outn)]
        hb = b.add(one, sel_text(dict(base, graphs=one), sel0))
        variants = []
        # repetition and configuration (channel size, bulk size, processors)
        for cfg in ({"chan": 0}, {"chan": 1, "procs": 1}, {"chan": 16, "procs": 2, "bulk": 1}, {"procs": 16}):
            variants.append(("eq", outn, b.add(one, sel_text(dict(base, graphs=one), sel0), **cfg), "config %s" % cfg))
        # consistent renaming of the bindings
        mp = {x: "?r%d" % i for i, x in enumerate(names)}
        q2 = rename(dict(base, graphs=one), mp)
        variants.append(("eq", q2["names"], b.add(one, sel_text(q2, q2["names"])), "renaming"))
        # clause permutations (no OPTIONAL in the clean fragment)
        perms = list(itertools.permutations(range(len(base["clauses"]))))[1:]
        g.rng.shuffle(perms)
        for pm in ([] if order_dependent(base) else perms[:3]):
            q3 = dict(base, graphs=one, clauses=[base["clauses"][i] for i in pm])
            variants.append(("eq", outn, b.add(one, sel_text(q3, sel0)), "clause order %s" % (pm,)))
        # the data partitioned over 2-3 graphs
        for k in (2, 3):
            parts = g.split(content, k)
            variants.append(("eq", outn, b.add(parts, sel_text(dict(base, graphs=parts), sel0)), "partition over %d graphs" % k))
        # supersets of the data: adding triples never removes rows
        for _s in range(2):
            extra = [t for t in range(1, len(bqlu.TRIPLES) + 1) if t not in content]
            if extra:
                sup = sorted(content + g.rng.sample(extra, min(len(extra), g.rng.randint(1, 3))))
                variants.append(("sub", names, b.add([sup], sel_text(dict(base, graphs=[sup]), names)), "superset"))
        # an ORDER BY over all columns determines a total order: same sequence every time
        order = [(x, g.rng.random() < 0.3) for x in names]
        g.rng.shuffle(order)    # any column may be the first key (ties of the first key are decided by the later ones)
        ho = b.add(one, sel_text(dict(base, graphs=one), names, order=order))
        variants.append(("seq-of", names, b.add(one, sel_text(dict(base, graphs=one), names, order=order), procs=1, chan=1), "total order repeat", ho))
        variants.append(("seq-of", names, b.add(one, sel_text(dict(base, graphs=one), names, order=order), procs=16, chan=0), "total order repeat (16 procs)", ho))
        parts = g.split(content, 2)
        variants.append(("seq-of", names, b.add(parts, sel_text(dict(base, graphs=parts), names, order=order)), "total order over a partition of the data", ho))
        if len(base["clauses"]) > 1 and not order_dependent(base):
            q4 = dict(base, graphs=one, clauses=list(reversed(base["clauses"])))
            variants.append(("seq-of", names, b.add(one, sel_text(q4, names, order=order)), "total order with the clauses reversed", ho))
        # ORDER BY ONE column: a total order whenever the values of that column are all different (decided on the recorded
        # result, see below) - the rows then come in one sequence however they arrive (partition, clause order, processors)
        for x in names[:3]:
            o1 = [(x, g.rng.random() < 0.4)]
            h1 = b.add(one, sel_text(dict(base, graphs=one), names, order=o1))
            p2 = g.split(content, 2)
            variants.append(("seq-if-distinct", names, b.add(p2, sel_text(dict(base, graphs=p2), names, order=o1)), "single key %s over a partition" % x, h1, names.index(x)))
            variants.append(("seq-if-distinct", names, b.add(one, sel_text(dict(base, graphs=one), names, order=o1), procs=1, chan=0), "single key %s, one processor" % x, h1, names.index(x)))
            if len(base["clauses"]) > 1 and not order_dependent(base):
                q5 = dict(base, graphs=one, clauses=list(reversed(base["clauses"])))
                variants.append(("seq-if-distinct", names, b.add(one, sel_text(q5, names, order=o1)), "single key %s, clauses reversed" % x, h1, names.index(x)))
        plans.append((base, outn, hb, variants))
    b.run(d, "C14")
    events, meta, stats = [], [], {"skipped_perr": 0}
    for base, names, hb, variants in plans:
        if note_hard(v, b, [hb], stats):
            continue
        eb, rb = b.rows(hb, names)
        if eb == "perr":
            stats["skipped_perr"] += 1
            continue
        for var in variants:
            rel, vnames, hv, what = var[:4]
            if note_hard(v, b, [hv], stats):
                continue
            ev_, rv = b.rows(hv, vnames)
            if ev_ == "perr":
                stats["skipped_perr"] += 1
                continue
            if rel == "seq-if-distinct":
                ho, col = var[4], var[5]
                eo, ro = b.rows(ho, vnames)
                if eo or not ro:
                    continue
                vals = [json.dumps(r[col], sort_keys=True) for r in ro]
                if len(set(r[col]["k"] for r in ro)) > 1 or len(set(vals)) != len(vals) or ro[0][col]["k"] in ("0", "P", "N", "B"):
                    continue  # not one kind, or two rows share the key value (no total order), or a kind whose order is not stated
                events.append({"ev": "M", "prop": "C14", "rel": "seq", "base": ro, "baseerr": False, "rows": rv, "err": ev_ != ""})
                meta.append({"handles": [ho, hv], "variant": what})
                continue
            if rel == "seq-of":
                ho = var[4]
                eo, ro = b.rows(ho, vnames)
                kinds_ok = all(len(set(r[i]["k"] for r in ro)) <= 1 for i in range(len(vnames)))
                if not kinds_ok:
                    continue  # a key column of several kinds: order not determined by the property
                events.append({"ev": "M", "prop": "C14", "rel": "seq", "base": ro, "baseerr": eo != "", "rows": rv, "err": ev_ != ""})
                meta.append({"handles": [ho, hv], "variant": what})
                continue
            events.append({"ev": "M", "prop": "C14", "rel": rel, "base": rb, "baseerr": eb != "", "rows": rv, "err": ev_ != ""})
            meta.append({"handles": [hb, hv], "variant": what})
    rejects, opens, states = finish_events("C14", v, events, meta, d, b)
    kinds = {}
    for m in meta:
        k = m["variant"].split(" ")[0]
        kinds[k] = kinds.get(k, 0) + 1
    v.cov.update({"states": states, "transitions": len(events), "traces_validated_against_impl": len(events),
                  "base_queries": len(plans), "variant_pairs": len(events), "variants_by_kind": kinds,
                  "nonempty_base": sum(1 for e in events if e["base"]), "parser_rejected_not_judged": stats["skipped_perr"],
                  "rejected_events": len(rejects),
                  "samples": [{"base": b.cases[m["handles"][0]]["text"], "variant": b.cases[m["handles"][1]]["text"], "kind": m["variant"]} for m in meta[:4]]})
    v.assumptions += ["relations are asserted between REAL results of variants of one query (bag equality, inclusion, identical sequence); no reference to the solutions oracle",
                      "base queries are drawn from the fragment without OPTIONAL, FILTER, LIMIT and aggregates"]


# ------------------------------------------------------------------------------------------ entry
def check(prop):
    tier = vlib.tier()
    v = Verdict(prop, tier, "model_checking")
    vlib.build_harness(["bqldrv"])
    d = vlib.scratch("bql-")
    if prop in ("C03", "C10"):
        check_q(prop, v, tier, d)
    elif prop == "C11":
        check_group(v, tier, d)
    elif prop == "C12":
        check_order(v, tier, d)
    elif prop == "C13":
        check_having(v, tier, d)
    elif prop == "C14":
        check_meta(v, tier, d)
    else:
        raise Infra("property %s not implemented in fam_bql" % prop)
    if prop in ("C10", "C11", "C12", "C13"):
        # the table operations these clauses are built from, executed directly on bql/table (spec/TableAlg.tla)
        import fam_table
        fam_table.run(v, tier, vlib.scratch("table-"), prop)
    return v.finish()


def replay(prop, rec):
    """Re-execute the driver cases of a recorded violation on the current tree and re-validate the
    recorded event with the fresh results (rows of the variant replaced); prints both outcomes."""
    ro = rec.get("replay") or {}
    cases = ro.get("cases") or ([ro["case"]] if ro.get("case") else [])
    if not cases:
        raise Infra("replay record has no driver cases")
    vlib.build_harness(["bqldrv"])
    d = vlib.scratch("bqlreplay-")
    for i, c in enumerate(cases):
        c["id"] = i
    res = run_cases(cases, d, "replay")
    bad = False
    for c in cases:
        r = res[c["id"]]
        print("case:", c["text"])
        print("  perr=%r err=%r panic=%r timeout=%r" % (r["perr"][:200], r["err"][:200], r["panic"][:200], r["timeout"]))
        print("  cols=%s rows=%s" % (r["cols"], json.dumps(r["rows"])[:1500]))
        bad = bad or bool(r["panic"] or r["timeout"])
    ev = ro.get("event")
    if ev and ev.get("ev") in ("Q",):
        # re-judge a SELECT against the solutions oracle with the fresh rows
        r = res[cases[-1]["id"]]
        rows = rows_in_order(r, ev["proj"]) if not r["err"] else []
        ev2 = dict(ev, rows=rows if rows is not None else [], err=bool(r["err"]))
        rejects, opens, _ = validate([ev2], d, "replay")
        for _, p, cls in rejects:
            print("VIOLATION property=%s replay=%s" % (prop, os.environ.get("VERIF_REPLAY", "")))
            print("  class=%s (re-validated on the current tree)" % cls)
            bad = True
    return 1 if bad else 0
