"""Value family helpers: tokens, the universe of near-miss values, the byte strings of Identity.tla.

Nothing here calls the code under test: encodings follow the Go standard library definitions
(encoding/binary.PutVarint = zig-zag + base-128 little endian groups; IEEE-754 bits little endian).
"""
import json
import os
import struct

from vlib import VERIF, tla_val

UNI = os.path.join(VERIF, "universe", "values.json")


# ---- tokens (must mirror harness/cmd/valuedrv/vals.go: tok/untok) ---------------------------------
def tok(b):
    """bytes or str -> token: 's:<text>' when valid UTF-8, else 'x:<hex>'."""
    if isinstance(b, str):
        b = b.encode("utf-8")
    try:
        return "s:" + b.decode("utf-8")
    except UnicodeDecodeError:
        return "x:" + b.hex()


def untok(t):
    if t.startswith("x:"):
        return bytes.fromhex(t[2:])
    if t.startswith("s:"):
        return t[2:].encode("utf-8", "surrogatepass")
    raise ValueError("bad token %r" % t)


# ---- encodings of the Go standard library ---------------------------------------------------------
def zigzag(n):
    return (n << 1) ^ (n >> 63) if n >= 0 else ((-n) << 1) - 1


def uvarint(u):
    out = []
    while u >= 0x80:
        out.append((u & 0x7F) | 0x80)
        u >>= 7
    out.append(u)
    return out


def varint(n):
    return uvarint(zigzag(n))


def wrap64(n):
    n &= (1 << 64) - 1
    return n - (1 << 64) if n >= (1 << 63) else n


def unixnano(sec, ns):
    """time.Time.UnixNano(): sec*1e9+ns in int64 arithmetic (wraps outside 1678..2262)."""
    return wrap64(sec * 1000000000 + ns)


# ---- value specifications (same JSON as the Go driver's VSpec) ----------------------------------------
def node(t, i):
    return {"k": "node", "t": tok(t), "i": tok(i)}


def imm(i):
    return {"k": "pred", "i": tok(i), "imm": True}


def tmp(i, sec, ns=0, off=0):
    d = {"k": "pred", "i": tok(i), "sec": str(sec)}
    if ns:
        d["ns"] = ns
    if off:
        d["off"] = off
    return d


def lit(t, v):
    """v: bool | int | float bits as 16 hex digits (str) | bytes (text/blob)."""
    if t == "bool":
        return {"k": "lit", "t": t, "v": "true" if v else "false"}
    if t == "int64":
        return {"k": "lit", "t": t, "v": str(v)}
    if t == "float64":
        return {"k": "lit", "t": t, "v": v}
    if t == "text":
        return {"k": "lit", "t": t, "v": tok(v)}
    if t == "blob":
        return {"k": "lit", "t": t, "v": v.hex()}
    raise ValueError(t)


def fbits(f):
    return "%016x" % struct.unpack("<Q", struct.pack("<d", f))[0]


def obj(o):
    return {"k": "obj", "o": o}


def triple(s, p, o):
    return {"k": "triple", "s": s, "p": p, "o": o}


# ---- Layer B: the byte string a value feeds to SHA1 (Identity.tla, re-stated for classification) ----
class Undefined(Exception):
    pass


def lit_payload(v):
    t = v["t"]
    if t == "bool":
        return list(v["v"].encode())
    if t == "int64":
        e = varint(int(v["v"]))
        if len(e) > 8:
            raise Undefined("10-byte varint into an 8-byte buffer")
        return e + [0] * (8 - len(e))
    if t == "float64":
        return list(bytes.fromhex(v["v"])[::-1])
    if t == "text":
        return list(untok(v["v"]))
    if t == "blob":
        return list(bytes.fromhex(v["v"]))
    raise ValueError(t)


def identity_bytes(v):
    k = v["k"]
    if k == "node":
        return list(untok(v["t"]) + untok(v["i"]))
    if k == "pred":
        if v.get("imm"):
            return list(untok(v["i"]) + b"immutable")
        exact = int(v["sec"]) * 1000000000 + v.get("ns", 0)
        if -2 ** 63 <= exact <= 2 ** 63 - 1:
            e = varint(exact)
            return list(untok(v["i"])) + e + [0] * (16 - len(e))
        # outside the range of UnixNano (repaired code): seconds, nanoseconds, last byte 1
        e = varint(int(v["sec"])) + varint(v.get("ns", 0))
        return list(untok(v["i"])) + e + [0] * (15 - len(e)) + [1]
    if k == "lit":
        return list(v["t"].encode() + b":") + lit_payload(v)
    if k == "obj":
        return identity_bytes(v["o"])
    if k == "triple":
        return [identity_bytes(v["s"]), identity_bytes(v["p"]), identity_bytes(v["o"])]
    raise ValueError(k)


def instant(v):
    return "%s.%09d" % (v["sec"], v.get("ns", 0))


def same_value(a, b):
    """Layer A value equality on specifications (zone-free)."""
    if a["k"] != b["k"]:
        return False
    k = a["k"]
    if k == "node":
        return untok(a["t"]) == untok(b["t"]) and untok(a["i"]) == untok(b["i"])
    if k == "pred":
        if untok(a["i"]) != untok(b["i"]) or bool(a.get("imm")) != bool(b.get("imm")):
            return False
        return bool(a.get("imm")) or instant(a) == instant(b)
    if k == "lit":
        if a["t"] != b["t"]:
            return False
        if a["t"] == "text":
            return untok(a["v"]) == untok(b["v"])
        return a["v"] == b["v"]
    if k == "obj":
        return same_value(a["o"], b["o"])
    if k == "triple":
        return same_value(a["s"], b["s"]) and same_value(a["p"], b["p"]) and same_value(a["o"], b["o"])
    raise ValueError(k)


# ---- universe ----------------------------------------------------------------------------------------
def load():
    with open(UNI) as fh:
        return json.load(fh)


def _index(values, v):
    for i, w in enumerate(values):
        if w == v:
            return i + 1
    raise KeyError(v)


def identityu_tla(u, repaired=True):
    """IdentityU.tla: the universe as uniform records for spec/Identity.tla.

    k    kind; a, b  byte sequences (node: type, id; pred: id, <<>>; lit: type name, raw payload of
    bool/text/blob); imm; num  opaque token of the number/instant ("" when none); enc  the varint /
    IEEE bytes of num computed here from the Go standard library definitions; small/hasSmall  the
    number itself when it fits TLC integers (cross-checked against the TLA+ definition of Varint);
    ref  indexes of the boxed value (obj) or of subject, predicate, object (triple).
    """
    vals = u["values"]
    recs = []
    for v in vals:
        r = {"k": v["k"], "a": [], "b": [], "imm": False, "num": "", "enc": [], "dec": [], "small": 0, "hasSmall": False, "ref": []}
        k = v["k"]
        if k == "node":
            r["a"], r["b"] = list(untok(v["t"])), list(untok(v["i"]))
        elif k == "pred":
            r["a"] = list(untok(v["i"]))
            r["imm"] = bool(v.get("imm"))
            if not r["imm"]:
                r["num"] = instant(v)
                n = unixnano(int(v["sec"]), v.get("ns", 0))
                r["enc"] = varint(n)
                exact = int(v["sec"]) * 1000000000 + v.get("ns", 0)
                if repaired and not (-2 ** 63 <= exact <= 2 ** 63 - 1):
                    # outside the range of UnixNano: seconds and nanoseconds one after the other, last byte 1
                    e = varint(int(v["sec"])) + varint(v.get("ns", 0))
                    r["enc"] = e + [0] * (15 - len(e)) + [1]
                r["dec"] = list(str(n).encode())     # the decimal text of UnixNano (a variant encoding, see Identity.tla)
                if abs(n) < 2 ** 29:
                    r["small"], r["hasSmall"] = n, True
        elif k == "lit":
            r["a"] = list(v["t"].encode())
            t = v["t"]
            if t == "int64":
                n = int(v["v"])
                r["num"], r["enc"] = v["v"], varint(n)
                if abs(n) < 2 ** 29:
                    r["small"], r["hasSmall"] = n, True
            elif t == "float64":
                r["num"], r["enc"] = v["v"], list(bytes.fromhex(v["v"])[::-1])
            elif t == "bool":
                r["b"] = list(v["v"].encode())
            elif t == "text":
                r["b"] = list(untok(v["v"]))
            else:
                r["b"] = list(bytes.fromhex(v["v"]))
        elif k == "obj":
            r["ref"] = [_index(vals, v["o"])]
        elif k == "triple":
            r["ref"] = [_index(vals, v["s"]), _index(vals, v["p"]), _index(vals, v["o"])]
        recs.append(r)
    return "\n".join([
        "---- MODULE IdentityU ----",
        "\\* GENERATED from universe/values.json - do not edit",
        "EXTENDS Integers",
        "Repaired == %s" % ("TRUE" if repaired else "FALSE"),
        "U == %s" % tla_val(recs),
        "====", ""])
