"""'Kitchen sink' BQL statements for C08: semantically plausible statements that combine every feature of the
language (joins, OPTIONAL, extractions, time-bound predicates written with bindings, FILTER, GROUP BY with
aggregates over any binding, HAVING, ORDER BY, LIMIT, global bounds, CONSTRUCT / DECONSTRUCT templates, data
statements) over the vocabulary of the stores of harness/cmd/rundrv (graphs ?a ?b ?c; kinds empty, populated,
large).  Only the OUTCOME of a run is judged (spec/RunTrace.tla): table or error, no panic, no hang, nothing
left running - so the generator is free to produce statements the engine rejects, statements whose later clause
fails for every row, aggregates over columns an OPTIONAL clause left unbound, and empty results."""
import random

NODES = ["/u<a>", "/u<b>", "/u<n3>", "/u<n17>", "/u<a>", "/u<n4>", "/v/w<a>", "/_<x>", "/u<nobody>"]
TIMES = ["2019-03-01T00:00:00Z", "2020-01-01T00:00:00Z", "2020-01-01T00:00:03Z", "2021-11-11T11:11:11.000000011Z",
         "2020-01-01T02:00:00+02:00"]
LITS = ['"1"^^type:int64', '"-3"^^type:int64', '"1.5"^^type:float64', '"x"^^type:text', '"x2"^^type:text',
        '"true"^^type:bool', '"9223372036854775807"^^type:int64']


class Sink:
    def __init__(self, seed):
        self.r = random.Random(seed)
        self.n = 0

    def fresh(self, stem):
        self.n += 1
        return "?%s%d" % (stem, self.n)

    def subj(self, names, svar):
        r = self.r
        x = r.random()
        out = r.choice(NODES) if x < 0.15 and not getattr(self, "big", False) else svar
        al = []
        if r.random() < 0.15:
            al.append("AS " + self.pick_alias(names, "sa"))
        if r.random() < 0.15:
            al.append("TYPE " + self.pick_alias(names, "sty"))
        if r.random() < 0.15:
            al.append("ID " + self.pick_alias(names, "sid"))
        if out.startswith("?"):
            names.append(out)
        return " ".join([out] + al)

    def pick_alias(self, names, stem):
        # mostly a fresh name, sometimes an existing one (repeated binding)
        if names and self.r.random() < 0.12:
            return self.r.choice(names)
        a = self.fresh(stem)
        names.append(a)
        return a

    def pred(self, names, times, first=False):
        r = self.r
        x = r.random()
        al = []
        if x < 0.3:
            v = self.r.choice(["?p", "?p2"])
            names.append(v)
            out = v
        elif x < 0.5:
            out = r.choice(['"p"@[]', '"p"@[]', '"w"@[]', '"q"@[%s]' % r.choice(TIMES), '"nope"@[]'])
        elif x < 0.65:
            t = self.fresh("t")
            names.append(t)
            times.append(t)
            out = '"%s"@[%s]' % (r.choice(["q", "q", "p"]), t)
        elif x < 0.75:
            lo = r.choice(["", r.choice(TIMES)])
            hi = r.choice(["", r.choice(TIMES)])
            out = '"q"@[%s,%s]' % (lo, hi)
        elif x < 0.87 or first:
            out = r.choice(['"p"@[]', '"w"@[]', '"q"@[,]'])
        else:
            # bounds written with bindings: bound by an earlier clause (a time), bound to something that is no
            # time, or never bound at all
            def b():
                y = r.random()
                if times and y < 0.5:
                    return r.choice(times)
                if names and y < 0.7:
                    return r.choice(names)
                n = self.fresh("lo")
                if r.random() < 0.5:
                    names.append(n)     # a bound binding nothing binds, used like any other binding of the pattern
                return n
            out = '"q"@[%s,%s]' % (b(), b())
        if r.random() < 0.12:
            al.append("AS " + self.pick_alias(names, "pa"))
        if r.random() < 0.12:
            al.append("ID " + self.pick_alias(names, "pid"))
        if r.random() < 0.12 and "," not in out:
            a = self.pick_alias(names, "pt")
            times.append(a)
            al.append("AT " + a)
        return " ".join([out] + al)

    def obj(self, names, times, ovar):
        r = self.r
        x = r.random()
        al = []
        if x < 0.62:
            out = ovar
            names.append(ovar)
        elif x < 0.72:
            out = r.choice(NODES)
        elif x < 0.8:
            out = r.choice(LITS)
        elif x < 0.9:
            t = self.fresh("ot")
            names.append(t)
            times.append(t)
            out = '"q"@[%s]' % t
        else:
            out = '"q"@[%s]' % r.choice(TIMES)
        # the grammar allows TYPE only after a node or a binding, ID / AT not after a literal
        form = "b" if out.startswith("?") else ("n" if out.startswith("/") else ("p" if "@[" in out else "l"))
        if r.random() < 0.12:
            al.append("AS " + self.pick_alias(names, "oa"))
        if r.random() < 0.12 and form in "bn":
            al.append("TYPE " + self.pick_alias(names, "oty"))
        if r.random() < 0.12 and form in "bnp":
            al.append("ID " + self.pick_alias(names, "oid"))
        if r.random() < 0.1 and form in "bp":
            a = self.pick_alias(names, "oat")
            times.append(a)
            al.append("AT " + a)
        return " ".join([out] + al)

    def where(self):
        """returns (text, names (mandatory), optional-only names, time names)"""
        r = self.r
        names, times = [], []
        k = r.choice([1, 1, 2, 2, 3])
        parts = []
        svars = ["?s", "?o", "?s2"]
        natural = [("?s \"w\"@[] ?w", ["?s", "?w"], []), ("?s \"q\"@[?tq] ?x", ["?s", "?tq", "?x"], ["?tq"]),
                   ("?o \"p\"@[] ?o2", ["?o", "?o2"], []), ("?s \"p\"@[] ?o", ["?s", "?o"], []),
                   ("?s ?p ?o", ["?s", "?p", "?o"], []), ("?o \"w\"@[] ?w2", ["?o", "?w2"], []),
                   ("?s \"q\"@[?lo9,?hi9] ?x", ["?s", "?x", "?lo9"], []), ("?s \"q\"@[?tq,] ?x2", ["?s", "?x2"], []),
                   ("?s \"q\"@[?lo8,] ?x", ["?s", "?x", "?lo8"], []),
                   ("?o \"q\"@[?w,?w] ?x3", ["?o", "?x3"], [])]
        big = getattr(self, "big", False)

        def bound_subject():
            # on the large store every clause after the first starts from a value that is already bound: no
            # products of whole graphs (a statement that needs minutes is not a hang)
            c = [n for n in ("?s", "?o") if n in names]
            return r.choice(c) if c else None

        for i in range(k):
            if r.random() < (0.35 if i == 0 else 0.55):
                pool = (natural[:6] + natural[-1:]) if i == 0 else natural
                if big and i > 0:
                    pool = [x for x in pool if x[0].split()[0] in names]
                if pool:
                    t, ns, ts = r.choice(pool)
                    parts.append(t)
                    names += ns
                    times += ts
                    continue
            sv = "?s" if i == 0 or r.random() < 0.5 else r.choice(svars)
            if big and i > 0:
                sv = bound_subject() or r.choice(NODES)
            ov = "?o" if i == 0 else r.choice(["?o", "?o2", "?s"])
            parts.append("%s %s %s" % (self.subj(names, sv), self.pred(names, times, first=(i == 0)), self.obj(names, times, ov)))
        mand = list(dict.fromkeys(names))
        onames = []
        for _ in range(r.choice([0, 0, 1, 1, 2])):
            on = []
            sv = r.choice(["?s", "?o", "?s3"])
            if big:
                sv = bound_subject() or r.choice(NODES)
            c = "%s %s %s" % (self.subj(on, sv), self.pred(on, times), self.obj(on, times, r.choice(["?w", "?o", "?w2"])))
            parts.insert(r.randint(1, len(parts)), "OPTIONAL { %s }" % c)
            onames += [n for n in on if n not in mand]
        onames = list(dict.fromkeys(onames))
        if r.random() < 0.15:
            cand = [n for n in mand + onames if n.startswith("?p") or n.startswith("?o")]
            if cand:
                parts.append("FILTER %s(%s)" % (r.choice(["latest", "isTemporal", "isImmutable"]), r.choice(cand)))
        return " . ".join(parts), mand, onames, times

    def having(self, outs):
        r = self.r
        def atom():
            b = r.choice(outs)
            op = r.choice(["=", "<", ">"])
            rhs = r.choice(LITS + NODES[:2] + TIMES[:2] + outs + ['"q"@[]', '"1"^^type:INT64'])
            return "%s %s %s" % (b, op, rhs)
        x = r.random()
        if x < 0.5:
            return atom()
        if x < 0.7:
            return "NOT %s" % atom()
        return "(%s) %s (%s)" % (atom(), r.choice(["AND", "OR"]), atom())

    def loose_first(self):
        """the FIRST clause has a bound written with a binding that nothing binds: the clause is fetched as a whole,
        and the binding, which the semantic layer accepts like any other, has no cell in any row"""
        r = self.r
        lo, hi = r.choice([("?lo8", ""), ("", "?hi8"), ("?lo8", "?hi8")])
        pos = r.choice(["p", "p", "o"])
        if pos == "p":
            c1 = "?s \"q\"@[%s,%s] ?x" % (lo, hi)
        else:
            c1 = "?s ?p \"q\"@[%s,%s] AS ?x" % (lo, hi)
        parts = [c1] + (["?s \"p\"@[] ?o"] if r.random() < 0.4 else [])
        b = lo or hi
        sel = r.choice(["?s, ?x, %s" % b, "%s, ?x" % b, "?s, %s AS ?z" % b, "?s, COUNT(%s) AS ?n" % b, "%s, COUNT(?x) AS ?n" % b])
        txt = "SELECT %s FROM %s WHERE { %s }" % (sel, r.choice(["?a", "?a, ?b", "?c"]), " . ".join(parts))
        if "COUNT(%s)" % b in sel:
            txt += " GROUP BY ?s"
        elif "COUNT(?x)" in sel:
            txt += " GROUP BY " + b
        out = "?z" if " AS ?z" in sel else (b if "COUNT(%s)" % b not in sel else "?n")
        x = r.random()
        if x < 0.4:
            txt += " ORDER BY %s%s" % (out, r.choice(["", " DESC", ", ?s"]) if "?s" in sel else "")
        elif x < 0.75:
            txt += " HAVING %s %s %s" % (out, r.choice(["=", "<", ">"]), r.choice([out, TIMES[1], LITS[0]]))
        if r.random() < 0.2:
            txt += " LIMIT \"2\"^^type:int64"
        return txt + ";"

    def select(self):
        r = self.r
        if r.random() < 0.04:
            return self.loose_first()
        w, mand, onames, times = self.where()
        allnames = mand + onames
        if not allnames:
            allnames = ["?s"]
        graphs = r.choice(["?a"] * 8 + ["?a, ?b"] * 4 + ["?b"] * 3 + ["?c", "?a, ?c", "?missing"])
        group = []
        if r.random() < 0.4:
            keys = r.sample(allnames, min(len(allnames), r.choice([1, 1, 2])))
            rest = [n for n in allnames if n not in keys] or keys
            sel, outs = list(keys), list(keys)
            for _ in range(r.choice([1, 1, 2, 3])):
                x = r.choice(onames) if onames and r.random() < 0.5 else r.choice(rest)
                fn = r.choice(["COUNT(%s)", "COUNT(DISTINCT %s)", "SUM(%s)", "SUM(%s)"]) % x
                al = x if r.random() < 0.15 else self.fresh("g")
                sel.append("%s AS %s" % (fn, al))
                outs.append(al)
            group = keys if r.random() < 0.9 else keys[:1]
        else:
            k = r.randint(1, len(allnames))
            proj = r.sample(allnames, k)
            sel, outs = [], []
            for b in proj:
                if r.random() < 0.15:
                    al = r.choice(allnames) if r.random() < 0.4 else self.fresh("c")
                    if al in outs:
                        al = self.fresh("c")
                    sel.append("%s AS %s" % (b, al))
                    outs.append(al)
                elif b not in outs:
                    sel.append(b)
                    outs.append(b)
        # a bound binding that nothing binds ("q"@[?lo8,]) is, for the semantic layer, a binding like any other: sort by it
        # or compare it, so that a row without a cell for it reaches the sorter / the evaluator
        loose = [n for n in outs if n.startswith("?lo")]
        if not group and not loose and r.random() < 0.5:
            cand = [n for n in allnames if n.startswith("?lo") and n not in outs]
            if cand:
                sel.append(cand[0])
                outs.append(cand[0])
                loose = [cand[0]]
        txt = "SELECT %s FROM %s WHERE { %s }" % (", ".join(sel), graphs, w)
        if group:
            txt += " GROUP BY " + ", ".join(group)
        if loose and r.random() < 0.5:
            txt += " ORDER BY " + ", ".join([loose[0]] + ([r.choice(outs)] if r.random() < 0.3 else []))
        elif r.random() < 0.35:
            ks = [r.choice(outs + allnames[:1]) for _ in range(r.choice([1, 1, 2]))]
            txt += " ORDER BY " + ", ".join("%s %s" % (k, r.choice(["ASC", "DESC", ""])) for k in ks)
        if loose and r.random() < 0.4:
            txt += " HAVING %s %s %s" % (loose[0], r.choice(["=", "<", ">"]), r.choice([loose[0]] + TIMES[:2]))
        elif r.random() < 0.3:
            txt += " HAVING " + self.having(outs)
        x = r.random()
        if x < 0.1:
            txt += " BEFORE " + r.choice(TIMES)
        elif x < 0.2:
            txt += " AFTER " + r.choice(TIMES)
        elif x < 0.3:
            txt += " BETWEEN %s, %s" % (r.choice(TIMES), r.choice(TIMES))
        if r.random() < 0.25:
            txt += " LIMIT " + r.choice(['"0"^^type:int64', '"1"^^type:int64', '"5"^^type:int64', '"1000"^^type:int64'])
        return txt + ";"

    def construct(self):
        r = self.r
        w, mand, onames, times = self.where()
        names = mand + onames or ["?s"]
        def comp(kind):
            x = r.random()
            if kind == "s":
                return r.choice(names) if x < 0.7 else r.choice(NODES + ["_:v"])
            if kind == "p":
                if x < 0.4:
                    return r.choice(['"r"@[]', '"r"@[%s]' % r.choice(TIMES)])
                if x < 0.6 and times:
                    return '"r"@[%s]' % r.choice(times)
                return r.choice(names)
            return r.choice(names) if x < 0.6 else r.choice(NODES + LITS + ["_:v"])
        tpls = []
        for _ in range(r.choice([1, 1, 2])):
            t = "%s %s %s" % (comp("s"), comp("p"), comp("o"))
            if r.random() < 0.25:
                t += " ; %s %s" % (comp("p"), comp("o"))
            tpls.append(t)
        verb = r.choice(["CONSTRUCT", "CONSTRUCT", "DECONSTRUCT"])
        prep = "INTO" if verb == "CONSTRUCT" else "IN"
        if verb == "DECONSTRUCT":
            tpls = [t.split(" ; ")[0] for t in tpls]
        return "%s { %s } %s %s FROM %s WHERE { %s };" % (verb, " . ".join(tpls), prep, r.choice(["?c"] * 6 + ["?a", "?b, ?c", "?missing"]),
                                                           r.choice(["?a", "?a", "?a, ?b", "?b", "?c"]), w)

    def data(self):
        r = self.r
        ts = []
        for _ in range(r.choice([1, 2, 3])):
            ts.append("%s %s %s" % (r.choice(NODES), r.choice(['"p"@[]', '"q"@[%s]' % r.choice(TIMES)]), r.choice(NODES + LITS + ['"q"@[%s]' % TIMES[0]])))
        verb, prep = r.choice([("INSERT DATA", "INTO"), ("DELETE DATA", "FROM")])
        return "%s %s %s { %s };" % (verb, prep, r.choice(["?a", "?c", "?b, ?c", "?missing"]), " . ".join(ts))

    def statement(self):
        x = self.r.random()
        if x < 0.72:
            return self.select()
        if x < 0.92:
            return self.construct()
        if x < 0.97:
            return self.data()
        return self.r.choice(["SHOW GRAPHS;", "CREATE GRAPH ?a;", "CREATE GRAPH ?z;", "DROP GRAPH ?c;", "DROP GRAPH ?missing;"])


def cases(seed, n):
    s = Sink(seed)
    out = []
    for i in range(n):
        x = s.r.random()
        store = "large" if x < 0.6 else ("populated" if x < 0.85 else "empty")
        s.big = store == "large"
        out.append({"src": "sink", "store": store, "text": s.statement()})
    return out


if __name__ == "__main__":
    for c in cases(1, 25):
        print(c["store"], c["text"])
