"""Value family: C05 (printed values parse back), C06 (UUID = value identity), C15 (parsers total).

Pipeline of one check (DESIGN 5, C05/C06/C15):
  1. TLC on the Layer B design models (Identity.tla: byte strings fed to SHA1; ValueText.tla: printed
     forms and the parsers' first-delimiter rules) -> candidates (colliding pairs, values whose printed
     form the rules cannot read back, strings on which a parser's slicing goes out of range).
  2. harness/cmd/valuedrv runs the candidates plus its own exhaustive / boundary / seeded-random input
     spaces on the REAL packages and records every case as one ndjson event.
  3. TLC validates the trace against the Layer A monitor ValueTrace.tla; only events it rejects can
     become verdicts.  Python maps each rejected event to a mechanical class.
"""
import concurrent.futures as cf
import json
import os
import re

import vlib
import valuesu
from valuesu import untok
from vlib import VERIF, Verdict, Infra, log

CHUNK = 25000


# ------------------------------------------------------------------------------------------------
# TLC: Layer B candidate generation


def tlc_identity(u, repaired=True):
    r = vlib.run_tlc("Identity", "Identity.cfg", gen={"IdentityU.tla": valuesu.identityu_tla(u, repaired)}, workers=4, timeout=600)
    if r.violation:
        raise Infra("Identity.tla: unexpected TLC violation: %s\n%s" % (r.violation, r.out[-2000:]))
    cands = []
    for v in vlib.parse_printed(r.printed, "COLLIDE"):
        cands.append({"m": "pair", "i": v[1], "j": v[2]})
    for v in vlib.parse_printed(r.printed, "SPLIT"):
        cands.append({"m": "pair", "i": v[1], "j": v[2]})
    for v in vlib.parse_printed(r.printed, "UNDEF"):
        cands.append({"m": "undef", "i": v[1]})
    if repaired:
        # sensitivity of the universe: every plausible other encoding must be told apart by some pair
        tells = {}
        for v in vlib.parse_printed(r.printed, "TELLS"):
            tells.setdefault(v[1], []).append((v[2], v[3]))
        r.tells = {k: len(x) for k, x in tells.items()}
        blind = [x for x in VARIANTS if x not in tells]
        if blind:
            raise Infra("the value universe cannot tell the current UUID encoding from the variant(s) %s (Identity.tla Tells)" % blind)
    return r, cands


VARIANTS = ["pred-varint-unpadded", "pred-decimal-nanos", "literal-without-type", "object-untagged-predicate",
            "int64-varint-cut-to-8", "node-with-separator"]


# symbols of ValueText.tla -> concrete text
SYM = {"D": "^^type:", "T": "2006-01-02T15:04:05Z", "text": "text", "blob": "blob", "int64": "int64", "foo": "foo",
       "N": "7", "W": "\t"}


def sym_text(seq):
    return "".join(SYM.get(c, c) for c in seq)


def _seqs(line):
    """All <<"a", "b", ...>> sequences of one-character/symbol strings in a printed TLC tuple."""
    out = []
    for m in re.finditer(r'<<((?:"(?:[^"\\]|\\.)*"(?:, )?)*)>>', line):
        out.append([s.replace('\\"', '"').replace("\\\\", "\\") for s in re.findall(r'"((?:[^"\\]|\\.)*)"', m.group(1))])
    return out


def tlc_valuetext(tier, cfgs, repaired=True):
    """Runs the given ValueText.tla configurations; returns (results, candidates for the driver)."""
    n = 3 if tier == "quick" else 4
    gen = {"ValueTextC.tla": "---- MODULE ValueTextC ----\nMaxLen == %d\nRepaired == %s\n====\n" % (n, "TRUE" if repaired else "FALSE")}
    results, cands = [], []
    for cfg in cfgs:
        r = vlib.run_tlc("ValueText", cfg, gen=gen, workers=8, timeout=1200, heap="6g")
        if r.violation:
            raise Infra("ValueText.tla/%s: unexpected TLC violation: %s\n%s" % (cfg, r.violation, r.out[-2000:]))
        results.append(r)
        for ln in r.printed:
            if ln.startswith('<<"RTC"') or ln.startswith('<<"AMB"'):
                m = re.match(r'<<"(RTC|AMB)", "(\w+)", (?:"(\w+)", )?', ln)
                kind, level = m.group(2), m.group(3) or "own"
                for s in _seqs(ln[len(m.group(0)) - 1:]):
                    txt = sym_text(s)
                    if kind == "nodeid":
                        v = valuesu.node("/t", txt)
                    elif kind == "nodetype":
                        v = valuesu.node("/" + txt, "i")
                    elif kind == "predid":
                        v = valuesu.imm(txt)
                    elif kind == "predidT":
                        v = valuesu.tmp(txt, 1136239445, 5)
                    elif kind == "text":
                        v = valuesu.lit("text", txt.encode())
                    else:
                        continue
                    s_, p_, o_ = valuesu.node("/t", "s"), valuesu.imm("p"), valuesu.node("/t", "o")
                    if level == "own":
                        cands.append({"m": "rt", "v": v})
                    elif level == "obj":                       # ParseObject, alone and as the object of a triple
                        cands.append({"m": "rt", "v": valuesu.obj(v)})
                        cands.append({"m": "rt", "v": valuesu.triple(s_, p_, v)})
                    elif v["k"] == "node":                     # the position ValueText.tla puts it in
                        cands.append({"m": "rt", "v": valuesu.triple(v, p_, o_)})
                    elif v["k"] == "pred":
                        cands.append({"m": "rt", "v": valuesu.triple(s_, v, o_)})
                    else:
                        cands.append({"m": "rt", "v": valuesu.triple(s_, p_, v)})
            elif ln.startswith('<<"PANIC"') or ln.startswith('<<"NIL"'):
                m = re.match(r'<<"(PANIC|NIL)", "(\w+)", ', ln)
                for s in _seqs(ln[len(m.group(0)) - 1:]):
                    cands.append({"m": "parse", "kind": m.group(2), "in": valuesu.tok(sym_text(s))})
    return results, cands


# ------------------------------------------------------------------------------------------------
# driver and trace validation


def run_driver(mode, d, cands):
    drv = os.path.join(vlib.BUILD_DIR, "valuedrv")
    out, stats, cf_ = os.path.join(d, mode + ".ndjson"), os.path.join(d, mode + ".stats"), os.path.join(d, mode + ".cands")
    with open(cf_, "w") as fh:
        for c in cands:
            fh.write(json.dumps(c) + "\n")
    p = vlib.run([drv, mode, "-tier", vlib.tier(), "-seed", str(vlib.seed()), "-universe", valuesu.UNI, "-cands", cf_,
                  "-out", out, "-stats", stats], timeout=3000, check=False)
    if p.returncode != 0:
        raise Infra("valuedrv %s failed rc=%d: %s" % (mode, p.returncode, p.stderr[-3000:]))
    with open(stats) as fh:
        st = json.load(fh)
    return out, st["stats"], st["samples"] or []


def split_lines(path, outdir, n=CHUNK):
    chunks, base = [], []
    cur, cnt, idx, lineno = None, 0, 0, 0
    with open(path) as fh:
        for ln in fh:
            if cur is None or cnt >= n:
                if cur:
                    cur.close()
                p = os.path.join(outdir, "chunk%04d.ndjson" % idx)
                idx += 1
                cur = open(p, "w")
                chunks.append(p)
                base.append(lineno)
                cnt = 0
            cur.write(ln)
            cnt += 1
            lineno += 1
    if cur:
        cur.close()
    return chunks, base


def validate(trace_path, workers=14):
    """ValueTrace.tla over the trace (events are independent: split anywhere, validate in parallel).

    Returns (rejects [(line, prop, cls, event)], opens [(line, prop, event)], states, nevents)."""
    d = vlib.scratch("vchunks-")
    chunks, base = split_lines(trace_path, d)

    def one(i):
        r = vlib.run_tlc("ValueTrace", "ValueTrace.cfg", env={"TRACE_FILE": chunks[i]}, workers=1, timeout=1800, heap="3g")
        if r.violation:
            raise Infra("trace not consumed (chunk %d of %s): %s\n%s" % (i, trace_path, r.violation, r.out[-3000:]))
        return i, r

    with cf.ThreadPoolExecutor(max_workers=workers) as ex:
        results = list(ex.map(one, range(len(chunks))))
    rejects, opens, states, nevents = [], [], 0, 0
    for i, r in results:
        states += r.distinct
        with open(chunks[i]) as fh:
            lines = fh.read().splitlines()
        nevents += len(lines)
        if r.distinct != len(lines) + 1:
            raise Infra("chunk %d: %d states for %d events" % (i, r.distinct, len(lines)))
        for v in vlib.parse_printed(r.printed, "REJECT"):
            rejects.append((base[i] + v[1], v[2], v[3], json.loads(lines[v[1] - 1])))
        for v in vlib.parse_printed(r.printed, "OPEN"):
            opens.append((base[i] + v[1], v[2], json.loads(lines[v[1] - 1])))
    return rejects, opens, states, nevents


# ------------------------------------------------------------------------------------------------
# mechanical classes (DESIGN 8): a class names the deviation that predicts exactly the observed
# wrong answer; everything else is "unexplained:<monitor class>" and therefore a VIOLATION.

INT55 = 2 ** 55
LIT_PARSE = "triple/literal.(*unboundBuilder).Parse"


def rec_text(tok_):
    try:
        return untok(tok_)
    except ValueError:
        return b""


def spec_of_recs(recs):
    """Logged component records -> value specification (for the Layer B byte strings)."""
    def one(r):
        if r["k"] == "node":
            return {"k": "node", "t": r["a"], "i": r["b"]}
        if r["k"] == "pred":
            if r["b"] == "imm":
                return {"k": "pred", "i": r["a"], "imm": True}
            sec, ns = r["c"].split(".")
            return {"k": "pred", "i": r["a"], "sec": sec, "ns": int(ns)}
        if r["k"] == "lit":
            return {"k": "lit", "t": r["a"], "v": r["b"]}
        raise ValueError(r["k"])
    if len(recs) == 1:
        return one(recs[0])
    return {"k": "triple", "s": one(recs[0]), "p": one(recs[1]), "o": one(recs[2])}


def int_overflow(recs):
    return any(r["k"] == "lit" and r["a"] == "int64" and not (-INT55 <= int(r["b"]) < INT55) for r in recs)


def component_collision_class(a, b):
    """Class of a pair of unequal component values with equal Layer B byte strings, else None."""
    try:
        if valuesu.identity_bytes(a) != valuesu.identity_bytes(b):
            return None
    except valuesu.Undefined:
        return None
    if valuesu.same_value(a, b):
        return None
    if a["k"] == "node" and b["k"] == "node":
        return "node-type-id-boundary"            # type1 ++ id1 = type2 ++ id2
    if a["k"] == "pred" and b["k"] == "pred" and not a.get("imm") and not b.get("imm"):
        na = valuesu.unixnano(int(a["sec"]), a.get("ns", 0))
        nb = valuesu.unixnano(int(b["sec"]), b.get("ns", 0))
        full = lambda v: int(v["sec"]) * 10 ** 9 + v.get("ns", 0)
        if na == nb and (full(a) - full(b)) % 2 ** 64 == 0 and untok(a["i"]) == untok(b["i"]):
            return "anchor-unixnano-wraps"        # instants 2^64 ns apart
        return None
    if a["k"] != b["k"] and "pred" in (a["k"], b["k"]):
        return "object-without-kind-tag"          # predicate-valued object vs node / literal object
    return None


def classify_c06(cls, ev):
    if ev["ev"] == "US":
        if cls == "uuid-panic" and int_overflow(ev["v"]) and "Literal).UUID" in ev["site"] and "index out of range [8]" in ev["msg"]:
            return ["int64-uuid-varint-overflow"]
        return []
    if cls == "uuid-panic":
        if (int_overflow(ev["v1"]) or int_overflow(ev["v2"])) and "Literal).UUID" in ev["site"] and "index out of range [8]" in ev["msg"]:
            return ["int64-uuid-varint-overflow"]
        return []
    if cls in ("uuid-collision", "triple-equal-disagrees", "graph-exist-disagrees"):
        # Layer B must predict the collision: equal byte strings for unequal values
        if not ev["ueq"] or ev["same"]:
            return []
        a, b = spec_of_recs(ev["v1"]), spec_of_recs(ev["v2"])
        if a["k"] == "triple":
            classes = set()
            for c in ("s", "p", "o"):
                if valuesu.same_value(a[c], b[c]):
                    continue
                k = component_collision_class(a[c], b[c])
                if k is None:
                    return []          # a differing component that Layer B does not predict to collide
                classes.add(k)
            return sorted(classes)
        k = component_collision_class(a, b)
        return [k] if k else []
    return []


GO_SPACE = "\t\n\v\f\r \u0085\u00a0\u1680\u2000\u2001\u2002\u2003\u2004\u2005\u2006\u2007\u2008\u2009\u200a\u2028\u2029\u202f\u205f\u3000"


def go_trim(b):
    """strings.TrimSpace on bytes (Unicode White_Space; invalid UTF-8 is not space)."""
    return b.decode("utf-8", "surrogateescape").strip(GO_SPACE).encode("utf-8", "surrogateescape")


P_SPLIT = re.compile(rb'>[\t\n\f\r ]+"')            # Go regexp \s is ASCII [\t\n\f\r ]
O_SPLIT = re.compile(rb'\][\t\n\f\r ]+[/"]')


def predict_panic(kind, site, b):
    """Layer B prediction (ValueText.tla: the partial slice expressions of the parsers) of the panic
    the parser `site` raises on input b: (class, message fragment) or None when none is predicted."""
    raw = go_trim(b)
    if kind == "triple":
        mp, mo = P_SPLIT.search(raw), O_SPLIT.search(raw)
        if not mp or not mo:
            return None
        lo, hi = mp.end() - 1, mo.start() + 1
        if site == "triple.Parse":
            if lo > hi:
                return ("triple-parse-object-split-before-predicate-split", "slice bounds out of range [%d:%d]" % (lo, hi))
            return None
        if site == "triple/node.Parse":
            # the subject always ends in '>' so it is never empty; ParseObject may hand the object to node.Parse
            return predict_panic("node", site, raw[:mp.start() + 1]) or predict_panic("node", site, raw[mo.end() - 1:])
        if site == "triple/predicate.Parse":
            return predict_panic("pred", site, raw[lo:hi]) or predict_panic("pred", site, raw[mo.end() - 1:])
        return predict_panic("lit", site, raw[mo.end() - 1:])
    if site == "triple/node.Parse":
        if raw == b"":
            return ("node-parse-empty-input", "index out of range [0] with length 0")
        if raw == b"_":
            return ("node-parse-lone-underscore", "slice bounds out of range [2:1]")
        return None
    if site == "triple/predicate.Parse":
        if not raw.startswith(b'"'):
            return None
        if raw.find(b'"@[') < 0:
            return None
        # (stated for the first and for the last occurrence of "@[ so that the class does not depend on
        # which of the two the parser uses)
        if raw.endswith(b'"@['):
            return ("predicate-parse-nothing-after-bracket", "slice bounds out of range [%d:%d]" % (len(raw), len(raw) - 1))
        for idx in (raw.find(b'"@['), raw.rfind(b'"@[')):
            if raw[idx + 3:len(raw) - 1] == b'"':
                return ("predicate-parse-anchor-lone-quote", "index out of range [-1]")
        return None
    if site == LIT_PARSE:
        if not raw.startswith(b'"'):
            return None
        idx = raw.find(b'"^^type:')
        if idx < 0:
            return None
        if idx == 0:
            return ("literal-parse-delimiter-at-start", "slice bounds out of range [1:0]")
        if raw[idx + 8:] == b"blob" and idx - 1 < 2:
            return ("literal-parse-blob-shorter-than-brackets",
                    "slice bounds out of range [:-1]" if idx == 1 else "slice bounds out of range [1:0]")
    return None


def panic_class(kind, b, site, msg):
    p = predict_panic(kind, site, b)
    if p and p[1] in msg:
        return [p[0]]
    return []


def pred_id_forms_delimiter(recs):
    return any(r["k"] == "pred" and (b'"@[' in rec_text(r["a"]) or rec_text(r["a"]).startswith(b"@[")) for r in recs)


def classify_c15(cls, ev):
    if ev["ev"] == "P":
        if cls == "panic":
            return panic_class(ev["kind"], rec_text(ev["in"]), ev["site"], ev["msg"])
        if cls == "reprint-not-accepted":
            if ev["re"] == "error" and pred_id_forms_delimiter(ev["pv"]):
                return ["predicate-id-forms-quote-at-bracket"]      # accepted from an escaped spelling, e.g. \x22@[
            if ev["re"] == "panic":
                return panic_class(ev["kind"], rec_text(ev["reprint"]), ev["resite"], ev["remsg"])
        return []
    if ev["ev"] == "RD":
        if cls == "panic":
            if "Literal).UUID" in ev["site"] and "index out of range [8]" in ev["msg"] and any(int_overflow(t) for t in ev["ltrip"] if t):
                return ["int64-uuid-varint-overflow"]
            bad = [i for i, o in enumerate(ev["lout"]) if o not in ("value", "blank")]
            if bad and ev["lout"][bad[0]] == "panic" and not ev["lines"][bad[0]].startswith("long:"):
                return panic_class("triple", rec_text(ev["lines"][bad[0]]), ev["site"], ev["msg"])
            return []
        if cls in ("loaded-set", "count", "error-flag") and ev["long"] and not ev["err"]:
            return ["reader-stops-silently-at-long-line"]
        return []
    return []


def text_features(recs, obj=False):
    """Mechanical features of the components of one value that the first-delimiter rules of the
    parsers cannot read back (Layer B, ValueText.tla): the printed predicate `"id"@[..]` contains `"@[`
    before its own delimiter; the printed text literal contains `"^^type:` before its own."""
    f = set()
    for n, r in enumerate(recs):
        if r["k"] == "pred":
            i = rec_text(r["a"])
            if b'"@[' in i or i.startswith(b"@["):
                f.add("predicate-id-forms-quote-at-bracket")
            if i.startswith(b"^^type:") and (obj or n == 2):
                f.add("predicate-object-id-starting-with-type-delimiter")   # ParseObject tries the literal parser first
        if r["k"] == "lit" and r["a"] == "text":
            t = rec_text(r["b"])
            if b'"^^type:' in t:
                f.add("text-containing-literal-type-delimiter")
            if t.startswith(b"^^type:"):
                f.add("text-starting-with-type-delimiter")
            if b"\n" in t:
                f.add("text-containing-line-break")
    return f


def classify_c05(cls, ev):
    """-> list of classes (each is reported); [] = unexplained."""
    if ev["ev"] == "RT":
        recs = ev["v"]
        if ev["kind"] == "triple":               # only the components that fail their own round trip
            recs = [r if (i + 1) in ev["cbad"] else {"k": "none"} for i, r in enumerate(recs)]
        f = text_features(recs, ev["kind"] == "obj")
        if cls == "printed-form-rejected":
            # (a text starting with ^^type: makes the parser panic today and is rejected with an error
            # once the parser checks its slice bounds; both are the same first-delimiter defect)
            return sorted(f & {"predicate-id-forms-quote-at-bracket", "text-containing-literal-type-delimiter",
                               "text-starting-with-type-delimiter"})
        if cls == "panic" and panic_class(ev["kind"], rec_text(ev["printed"]), ev["site"], ev["msg"]) == ["literal-parse-delimiter-at-start"]:
            return sorted(f & {"text-starting-with-type-delimiter", "predicate-object-id-starting-with-type-delimiter"})
        return []
    if ev["ev"] == "GRT":
        if cls == "add-panic":
            if "Literal).UUID" in ev["site"] and "index out of range [8]" in ev["msg"]:
                return ["int64-uuid-varint-overflow"]
            return []
        f = set()
        for b in ev["bad"]:                      # only the triples / components whose own round trip fails
            f |= text_features([r if (i + 1) in b[1:] else {"k": "none"} for i, r in enumerate(ev["g"][b[0] - 1])])
        feat = set(ev["feat"])
        if cls == "read-error":
            f &= {"predicate-id-forms-quote-at-bracket", "text-containing-literal-type-delimiter", "text-starting-with-type-delimiter"}
            if "newline-inside-value" in feat and any("text-containing-line-break" in text_features(t) for t in ev["g"]):
                f.add("text-containing-line-break")
            return sorted(f)
        if cls == "read-panic" and "newline-inside-value" in feat:
            # a text with a line feed is written as several lines; a parser may panic on one of the pieces
            for t in ev["g"]:
                for r in t:
                    if r["k"] == "lit" and r["a"] == "text" and b"\n" in rec_text(r["b"]):
                        frags = rec_text(r["b"]).split(b"\n")
                        frags[-1] += b'"^^type:text'
                        # the first piece ends the line that starts the triple: its object is `"` ++ piece
                        if panic_class("obj", b'"' + frags[0], ev["site"], ev["msg"]) or \
                                any(panic_class("triple", fr, ev["site"], ev["msg"]) for fr in frags[1:]):
                            return ["text-containing-line-break"]
        if cls == "read-panic" and ev["site"] == LIT_PARSE and "[1:0]" in ev["msg"]:
            return sorted(f & {"text-starting-with-type-delimiter", "predicate-object-id-starting-with-type-delimiter"})
        if cls in ("graph-differs", "read-count") and "line-over-64k" in feat and not ev["rerr"]:
            return ["reader-stops-silently-at-long-line"]
        return []
    return []


CLASSIFY = {"C05": classify_c05, "C06": classify_c06, "C15": classify_c15}
MODE = {"C05": "rt", "C06": "uuid", "C15": "parse"}


def short(ev):
    e = {}
    for k, v in ev.items():
        s = json.dumps(v)
        e[k] = v if len(s) <= 400 else s[:400] + "..."
    return e


# ------------------------------------------------------------------------------------------------


def check(prop):
    tier = vlib.tier()
    level = "model_checking"
    v = Verdict(prop, tier, level)
    u = valuesu.load()
    vlib.build_harness(["valuedrv"])
    d = vlib.scratch("values-")
    cov = v.cov
    cands, tlc_runs = [], []
    if prop == "C06":
        r, cands = tlc_identity(u)
        tlc_runs.append(r)
        # control: the design as first read (8-byte varint buffer, untagged objects) must yield MORE candidates
        _, cands0 = tlc_identity(u, repaired=False)
        if len(cands0) <= len(cands):
            raise Infra("Identity.tla with Repaired = FALSE yields no more candidates (%d) than the current design (%d)" % (len(cands0), len(cands)))
        cov["layer_b_original_design_counterexamples"] = len(cands0)
    else:
        cfgs = ["ValueTextRT.cfg"] if prop == "C05" else ["ValueTextParse.cfg"]
        rs, cands = tlc_valuetext(tier, cfgs)
        tlc_runs += rs
        # control: the same module with the parsers as first read (FIRST delimiter, unchecked slices) must still
        # produce the counterexamples that were confirmed on the real code and repaired there (fixed: entries)
        rs0, cands0 = tlc_valuetext("quick", cfgs, repaired=False)
        if not cands0:
            raise Infra("ValueText.tla with Repaired = FALSE no longer yields any counterexample: the model lost the behaviour it was built to show")
        cov["layer_b_original_design_counterexamples"] = len(cands0)
    trace, st, samples = run_driver(MODE[prop], d, cands)
    rejects, opens, states, nev = validate(trace)
    if st.get("events") != nev:
        raise Infra("driver reports %s events, %d validated" % (st.get("events"), nev))
    mine = [r for r in rejects if r[1] == prop]
    other = [r for r in rejects if r[1] != prop]
    if other:
        raise Infra("events of another property in the %s trace: %s" % (prop, other[:2]))
    confirmed = 0
    for (ln, p, cls, ev) in mine:
        if cls.startswith("harness"):
            raise Infra("harness inconsistency at trace line %d: %s %s" % (ln, cls, json.dumps(ev)[:600]))
        if cls == "timeout" and not retimeout(ev):
            v.notes.append("a watchdog timeout at line %d did not reproduce; not counted" % ln)
            continue
        if ev.get("src", "").startswith("tlc"):
            confirmed += 1
        classes = CLASSIFY[prop](cls, ev)
        for k in classes or ["unexplained:" + cls]:
            v.reject(k, short(ev), {"trace_line": ln, "monitor_class": cls, "event": ev})
    if st.get("timeout"):
        v.notes.append("the driver stopped at a watchdog timeout: the remaining cases of this run were not explored")
    open_tlc = sum(1 for (_, _, ev) in opens if ev.get("src", "").startswith("tlc"))
    model_states = sum(r.distinct for r in tlc_runs)
    model_trans = sum(r.generated for r in tlc_runs)
    cov.update({
        "evaluations": nev,
        "distinct_nontrivial": st.get("distinct_nontrivial", 0),
        "events_validated": nev, "trace_states": states,
        "rejected_events": len(mine), "open_cases_not_judged": len(opens),
        "open_by_feature": count_open(opens),
        "layer_b_model_states": model_states, "layer_b_candidates": len(cands),
        "layer_b_candidate_cases_executed": st.get("tlc-cases", 0),
        "layer_b_candidate_cases_confirmed_on_real_code": confirmed,
        "layer_b_candidate_cases_open": open_tlc,
        "layer_b_model_drift": max(0, st.get("tlc-cases", 0) - confirmed - open_tlc),
        "driver_stats": {k: n for k, n in sorted(st.items())},
        "samples": samples[:24],
        # TLC: states/transitions of the Layer B model evaluation plus the states of the trace validation; every
        # recorded event is one execution of the real code (a one-step trace) validated against ValueTrace.tla
        "states": model_states + states, "transitions": model_trans + nev, "traces_validated_against_impl": nev,
    })
    if prop == "C06":
        cov.update({
            "universe_pairs_that_tell_a_variant_encoding_from_the_current_one": getattr(r, "tells", {}),
            "exhaustive": True,
            "model": "Identity.tla: Injective/Functional/Total evaluated by TLC for all %d same-kind pairs of the %d-value near-miss "
                     "universe; the %d candidates and all pairs were then executed on the real code" % (
                         model_states, len(u["values"]), len(cands)),
            "rule": "UP = one pair of values (UUID equality, Triple.Equal, Graph.Exist vs component equality), US = one value "
                    "(UUID twice, 4 goroutines, child process). distinct = distinct component tuples; non-trivial = the two "
                    "values of a pair differ in at least one component (pairs) / every stability case. Universe pairs are "
                    "exhaustive; boundary sets are fixed; near-miss pairs are seeded random.",
        })
        v.assumptions += [
            "SHA1 is treated as injective (Identity.tla represents UUID(v) by the byte string it hashes)",
            "sameValue is computed from accessors (Type, ID, TimeAnchor+time.Equal, Interface) by the driver and recomputed by TLC from the logged components",
            "+0/-0 float64 pairs are left open (counted)",
            "int64/float64/instant ranges beyond the boundary sets are sampled (seeded), not exhausted"]
    elif prop == "C05":
        cov.update({
            "rule": "RT = print->parse->print of one value with its own parser (node, predicate, literal, ParseObject, triple.Parse); "
                    "GRT = WriteGraph->ReadIntoGraph of one graph. distinct = distinct (kind, printed text); non-trivial = the value has a "
                    "component that is not a plain [A-Za-z0-9_] identifier / immutable predicate (i.e. a delimiter, escape, white space, "
                    "non-ASCII, number, bool, blob or time anchor), or a non-empty graph. Exhaustive part (driver): all strings up to length %d over the %d-character delimiter alphabet as "
                    "node id / node type / predicate id (immutable and temporal) / text, alone and as object, up to length %d inside "
                    "triples; numbers, anchors, blobs, composite values and graphs (<= 30 triples) are boundary sets plus seeded random." % (
                        3 if tier == "quick" else 4, 18, 2 if tier == "quick" else 3),
            "exhaustive": False,
            "layer_b_model": "ValueText.tla (design level) evaluated exhaustively by TLC: RoundTrip (own parser / ParseObject / inside a "
                             "triple) for all ids and texts up to length %d over its 10-symbol alphabet, Unambiguous up to length %d; every "
                             "counterexample was executed on the real code" % (3 if tier == "quick" else 4, 2 if tier == "quick" else 3),
        })
        v.assumptions += [
            "documented domain per docs/temporal_graph_modeling.md; cases with node ids containing white space, node types containing "
            "'<' '>', predicate ids with white space, non-UTF-8 ids, zone offsets that are not whole minutes are left open (counted)",
            "formatting of numbers and instants is not modelled in TLA+: TLC compares opaque canonical tokens",
            "components are read back with accessors only"]
    else:
        cov.update({
            "rule": "P = one parser call on one string (+ reprint and second parse when accepted); RD = one ReadIntoGraph call on a "
                    "file. distinct = distinct (parser, input); non-trivial = the parser did not simply return an error, or the input is "
                    "a mutation / alternate spelling of a valid text or a Layer B candidate. Exhaustive part: all strings up to length %d over the "
                    "18-character delimiter alphabet for each of the 5 parsers, up to length %d over 7-character per-parser alphabets, "
                    "token sequences up to %d tokens (one less for the literal and object parsers); mutations (truncate/delete/duplicate/inject) of printed values, random strings "
                    "and files are seeded." % ((3, 4, 4) if tier == "quick" else (4, 6, 5)),
            "exhaustive": False,
            "layer_b_model": "ValueText.tla (design level) evaluated exhaustively by TLC: ParsersTotal (partial slice expressions of "
                             "node/predicate/literal/object/triple parsers) for all symbol strings up to length %s; every predicted panic "
                             "was executed on the real code" % ("5/5/4/4/6" if tier == "quick" else "6/6/5/5/7"),
        })
        v.assumptions += [
            "a line is malformed when the real triple.Parse does not turn it into a triple",
            "a parsed value whose components the exported constructors refuse (a predicate with an empty id) is left open (counted), not judged ill-formed",
            "termination is observed with a %d s watchdog per call" % 15]
    cov["samples"] = cov["samples"] or [short(json.loads(open(trace).readline()))]
    return v.finish()


def count_open(opens):
    c = {}
    for (_, _, ev) in opens:
        if ev["ev"] in ("RT", "GRT"):
            fs = ev.get("dom") or ["?"]
        elif ev["ev"] == "UP":
            fs = ["float64-zero-sign"]
        else:
            fs = ["parsed-value-the-constructors-refuse"]
        for f in fs:
            c[f] = c.get(f, 0) + 1
    return c


def cand_of_event(ev):
    """Recorded event -> candidate that makes the driver execute the same case again."""
    def spec(kind, recs):
        sp = spec_of_recs(recs)
        for r, part in zip(recs, [sp] if len(recs) == 1 else [sp["s"], sp["p"], sp["o"]]):
            if r["k"] == "pred" and r["b"] == "tmp" and r.get("z") not in ("", "0", None):
                part["off"] = int(r["z"])
        return {"k": "obj", "o": sp} if kind == "obj" else sp
    k = ev["ev"]
    if k == "RT":
        return {"m": "rt", "v": spec(ev["kind"], ev["v"])}
    if k == "P":
        return {"m": "parse", "kind": ev["kind"], "in": ev["in"]}
    if k == "UP":
        return {"m": "pairv", "v": spec(ev["kind"], ev["v1"]), "w": spec(ev["kind"], ev["v2"])}
    if k == "US":
        return {"m": "stable", "v": spec(ev["kind"], ev["v"])}
    if k == "GRT":
        if any(len(t) != 3 for t in ev["t"]):
            raise Infra("the recorded graph has an abbreviated long literal and cannot be replayed from the event")
        return {"m": "graph", "vs": [spec("triple", t) for t in ev["t"]]}
    if k == "RD":
        if any(l.startswith("long:") for l in ev["lines"]):
            raise Infra("the recorded file has an abbreviated long line and cannot be replayed from the event")
        return {"m": "file", "lines": ev["lines"], "sep": ev["sep"], "trailing": False}
    raise Infra("unknown event %r" % k)


def replay(prop, rp):
    """./check <ID> --replay <file written by a VIOLATION>: run that one case again on the real code
    (called by the dispatcher with the loaded record) and judge it with ValueTrace.tla."""
    path = os.environ.get("VERIF_REPLAY", "?")
    ev = rp["replay"]["event"]
    vlib.build_harness(["valuedrv"])
    d = vlib.scratch("values-replay-")
    drv = os.path.join(vlib.BUILD_DIR, "valuedrv")
    cf_, out, stats = os.path.join(d, "c.ndjson"), os.path.join(d, "t.ndjson"), os.path.join(d, "s.json")
    with open(cf_, "w") as fh:
        fh.write(json.dumps(cand_of_event(ev)) + "\n")
    p = vlib.run([drv, MODE[prop], "-only-cands", "-tier", "quick", "-seed", str(vlib.seed()), "-universe", valuesu.UNI,
                  "-cands", cf_, "-out", out, "-stats", stats], timeout=300, check=False)
    if p.returncode != 0:
        raise Infra("valuedrv replay failed: %s" % p.stderr[-2000:])
    rejects, opens, _, nev = validate(out, workers=1)
    v = Verdict(prop, vlib.tier(), "model_checking")
    for (ln, pr, cls, e) in rejects:
        print("replayed event rejected by ValueTrace.tla: %s %s" % (cls, json.dumps(short(e))[:800]))
        classes = CLASSIFY[prop](cls, e)
        for k in classes or ["unexplained:" + cls]:
            v.reject(k, short(e), {"trace_line": ln, "monitor_class": cls, "event": e})
    if not rejects:
        print("replayed %d event(s): accepted by ValueTrace.tla (the case no longer fails)" % nev)
    for cls, (n, w) in sorted(v.known.items()):
        print("KNOWN-FINDING: property=%s %s (replay)" % (prop, cls))
    for (cls, w, ro) in v.violations:
        print("VIOLATION property=%s replay=%s" % (prop, path))
    return 1 if v.violations else 0


def retimeout(ev):
    """Re-run a case on which the watchdog fired once more (DESIGN 2.3); True when it hangs again."""
    if ev.get("ev") != "P":
        return True
    drv = os.path.join(vlib.BUILD_DIR, "valuedrv")
    try:
        import subprocess
        subprocess.run([drv, "single", "-kind", ev["kind"], "-in", ev["in"]], timeout=60, capture_output=True)
        return False
    except Exception:
        return True


# ------------------------------------------------------------------------------------------------
# negative control of the monitor (DESIGN 2.4): corrupt one logged field per event type and require
# ValueTrace.tla to reject exactly that line.   python3 lib/fam_values.py --selftest


def selftest():
    vlib.build_harness(["valuedrv"])
    d = vlib.scratch("values-selftest-")
    flips = {
        "RT": lambda e: e.update(reprinted=e["reprinted"] + "x"),
        "GRT": lambda e: e.update(rcount=e["rcount"] + 1),
        "UP": lambda e: e.update(ueq=not e["ueq"]),
        "US": lambda e: e.update(child="00" + e["child"][2:] if not e["child"].startswith("00") else "11" + e["child"][2:]),
        "P": lambda e: e.update(out="nil"),
        "RD": lambda e: e.update(count=e["count"] + 1),
    }
    ok = True
    for mode in ("rt", "uuid", "parse"):
        trace, _, _ = run_driver(mode, d, [])
        base_rej, _, _, _ = validate(trace)
        base = set(r[0] for r in base_rej)
        lines = open(trace).read().splitlines()
        want = {}
        for i, ln in enumerate(lines):
            e = json.loads(ln)
            if e["ev"] in flips and e["ev"] not in want and (i + 1) not in base and e.get("out", "ok") in ("ok", "value", "error") \
                    and not e.get("dom") and not e.get("panic") and i > 50:
                flips[e["ev"]](e)
                lines[i] = json.dumps(e)
                want[e["ev"]] = i + 1
        mut = os.path.join(d, mode + "-corrupt.ndjson")
        with open(mut, "w") as fh:
            fh.write("\n".join(lines) + "\n")
        rej, _, _, _ = validate(mut)
        got = set(r[0] for r in rej) - base
        print("selftest %s: corrupted lines %s -> newly rejected lines %s" % (mode, sorted(want.values()), sorted(got)))
        ok = ok and got == set(want.values())
    print("selftest", "PASSED" if ok else "FAILED")
    return 0 if ok else 1


if __name__ == "__main__":
    import sys
    if "--selftest" in sys.argv:
        vlib.main_wrap(selftest)
