#!/usr/bin/env python3
"""Writes /verif/MANIFEST.json from the table below (single source of truth for what is claimed)."""
import json, os

VERIF = os.path.dirname(os.path.dirname(os.path.abspath(__file__)))
ALL = ["C%02d" % i for i in range(1, 21)]

CLAIMED = {
    "C01": dict(
        cat="model_checking", ref="DESIGN 5/C01",
        technique="TLA+ Store.tla exhaustively model-checked by TLC; its complete state graph replayed edge by edge on the real store (transition tour) and the recorded trace validated against the spec by TLC (StoreTrace.tla)",
        text="Every transition of the complete state graph of the Layer A store model (2 graphs x 4/6 near-miss triples, batches with duplicates and empty) is executed on one live memory store; after every step GraphNames, Graph(n), Exist(t) for all universe triples and the full listing are recorded and TLC checks them against the model, plus seeded random histories over 3 graphs x 16 triples. Exhaustive for the bounded model, sampled beyond.",
        note="Trusted: TLC, the abstraction function harness/uni (constructors/accessors only), universe/store.json. Single goroutine."),
    "C02": dict(
        cat="model_checking", ref="DESIGN 5/C02",
        technique="TLA+ Lookups.tla comprehensions as oracle; all ten lookups x all argument combinations issued at every newly visited state of the TLC-generated tour and validated by TLC trace checking",
        text="At every state of the tour (each reached through many histories) and at sampled revisits all ten indexed lookups and Triples are called with every combination of subject/predicate/object from the universe (stored or not, other kind, other instant, other zone) and TLC compares each result bag with the set comprehension over the model content.",
        note="Trusted: TLC, harness/uni, universe/store.json. Results outside the universe are mapped to id 0 and rejected."),
    "C09": dict(
        cat="model_checking", ref="DESIGN 5/C09",
        technique="TLA+ Lookups.tla (Window, Filter, Page) as oracle; seeded/full product of methods x arguments x windows x filters x paging recorded from the real store and validated by TLC; Page lemmas model-checked",
        text="For several graph contents a seeded sample (quick) or large product (thorough) of method x arguments x time window (incl. equal/inverted/one-sided) x filter operation/field x LatestAnchor x (MaxElements, Offset) is executed; unpaged results are judged as bags against Window/Filter of the model, pages against the recorded unpaged sequence of the same call; determinism by issuing each unpaged call twice.",
        note="LatestAnchor combined with a window and requests the driver may reject are left open (counted). Trusted: TLC, harness/uni."),
}

PENDING_REASON = "not claimed yet: the TLA+ module and conformance driver for this property are designed (DESIGN 5) but not built/validated in this commit"


def main():
    checks = []
    for pid in ALL:
        if pid not in CLAIMED:
            continue
        c = CLAIMED[pid]
        checks.append({
            "property_id": pid,
            "quick_cmd": "./check %s --tier quick" % pid,
            "thorough_cmd": "./check %s --tier thorough" % pid,
            "evidence_file": "/verif/evidence/%s.json" % pid,
            "replay_cmd_template": "./check %s --replay {path}" % pid,
            "engine": "tlc",
            "level_claimed": {"category": c["cat"], "text": c["text"], "design_ref": c["ref"]},
            "level_note": c["note"],
            "technique": c["technique"],
        })
    m = {
        "version": 1,
        "setup_cmd": "./setup.sh",
        "hooks": {
            "guard": "verif",
            "enable": "go build -tags verif (harness module /verif/harness with replace github.com/google/badwolf => /repo)",
            "baseline_off_cmd": "cd /repo && GOFLAGS=-mod=mod GOPROXY=off go test -json -vet=off -count=1 -timeout 25m ./...",
            "source_commits": HOOK_COMMITS,
            "add_only": True,
        },
        "engines": [
            {"name": "tlc", "path": "/opt/veriftools/tla/tla2tools.jar", "serves_properties": sorted(CLAIMED),
             "kind_free_text": "TLC 1.8 model checker: exhaustive checking of the Layer A/B TLA+ modules in /verif/spec, generation of state graphs / cases replayed on the real code, and validation of ndjson traces recorded from the real code"},
            {"name": "harness", "path": "/verif/harness", "serves_properties": sorted(CLAIMED),
             "kind_free_text": "Go drivers (module with replace => /repo) executing TLC-generated cases on the real packages and recording traces"},
        ],
        "checks": checks,
        "not_applicable": [{"property_id": p, "reason": NA.get(p, PENDING_REASON)} for p in ALL if p not in CLAIMED],
        "notes": "All verdicts come from real-code behaviour contradicting the Layer A TLA+ specification (DESIGN 2.3). exit 2 = INFRA (machinery failure), never a violation.",
    }
    with open(os.path.join(VERIF, "MANIFEST.json"), "w") as fh:
        json.dump(m, fh, indent=1)
    print("MANIFEST: %d claimed, %d not claimed" % (len(checks), len(m["not_applicable"])))


HOOK_COMMITS = []
NA = {}

if __name__ == "__main__":
    main()
