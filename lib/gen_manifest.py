#!/usr/bin/env python3
"""Writes /verif/MANIFEST.json from the table below (single source of truth for what is claimed)."""
import json, os

VERIF = os.path.dirname(os.path.dirname(os.path.abspath(__file__)))
ALL = ["C%02d" % i for i in range(1, 21)]

CLAIMED = {
    "C01": dict(
        cat="model_checking", ref="DESIGN 5/C01",
        technique="TLA+ Store.tla exhaustively model-checked by TLC; its complete state graph replayed edge by edge on the real store (transition tour) and the recorded trace validated against the spec by TLC (StoreTrace.tla); histories in which the store is observed after one operation in five (unobserved operations only move the model on)",
        text="Every transition of the complete state graph of the Layer A store model (2 graphs x 4/6 near-miss triples, batches with duplicates and empty) is executed on one live memory store; after every step GraphNames, Graph(n), Exist(t) for all universe triples and the full listing are recorded and TLC checks them against the model, plus seeded random histories over 3 graphs x 16 triples. Exhaustive for the bounded model, sampled beyond.",
        note="Trusted: TLC, the abstraction function harness/uni (constructors/accessors only), universe/store.json. Single goroutine."),
    "C02": dict(
        cat="model_checking", ref="DESIGN 5/C02",
        technique="TLA+ Lookups.tla comprehensions as oracle; all ten lookups x all argument combinations issued at every newly visited state of the TLC-generated tour and validated by TLC trace checking; looked-up-only predicates anchored 2^64 ns after a stored one and at the zero time; the store driver is built without the index hook when storage/memory/verif_dump.go does not compile against the tree (lookups vs scans only); a predicate whose identifier spells a node",
        text="At every state of the tour (each reached through many histories) and at sampled revisits all ten indexed lookups and Triples are called with every combination of subject/predicate/object from the universe (stored or not, other kind, other instant, other zone) and TLC compares each result bag with the set comprehension over the model content.",
        note="Trusted: TLC, harness/uni, universe/store.json. Results outside the universe are mapped to id 0 and rejected."),
    "C09": dict(
        cat="model_checking", ref="DESIGN 5/C09",
        technique="TLA+ Lookups.tla (Window, Filter, Page) as oracle; seeded/full product of methods x arguments x windows x filters x paging recorded from the real store and validated by TLC; Page lemmas model-checked; second part: SELECTs with FILTER clauses (latest / isTemporal / isImmutable on predicate and object bindings and aliases) executed through the real engine and judged by TLC against BQLSemantics.tla FilteredData (the filter functions reached through bql/planner/filter and the planner)",
        text="For several graph contents a seeded sample (quick) or large product (thorough) of method x arguments x time window (incl. equal/inverted/one-sided) x filter operation/field x LatestAnchor x (MaxElements, Offset) is executed; unpaged results are judged as bags against Window/Filter of the model, pages against the recorded unpaged sequence of the same call; determinism by issuing each unpaged call twice. Second part: 2.5*10^3 (quick) / 6*10^4 (thorough) SELECTs with one or two FILTER clauses over 1-3 graphs (filters apply per graph lookup), with global time bounds; cases the documentation leaves open (FilterOpen) are counted, not judged.",
        note="LatestAnchor combined with a window and requests the driver may reject are left open (counted). Trusted: TLC, harness/uni."),
    "C03": dict(
        cat="model_checking", ref="DESIGN 5/C03, Appendix A",
        technique="TLA+ BQLSemantics.tla (Match/Solutions set comprehension) as executable oracle: generated SELECT statements executed through the real lexer/parser/planner, every result validated row by row by TLC (QueryTrace.tla); outer SELECT aliases that shadow or swap pattern bindings; constant clauses whose AS alias repeats a binding (joins that cannot be pushed into the lookup); bounds written with bindings (BQLSemantics PredFor / ObjFor); clauses carrying a binding and an AS alias bound separately; re-matching clauses without new bindings",
        text="Thousands (quick) to 150k (thorough) generated SELECTs of the conjunctive fragment - constants/bindings in every position, repeated bindings, anchor bindings, bounds, AS/ID/TYPE/AT aliases, 1-4 clauses, 1-3 FROM graphs (disjoint and overlapping), global time bounds, other-zone spellings - are run on the real engine over contents drawn from a 31-triple near-miss universe; TLC recomputes the solution bag and compares cell by cell (multiplicity open only where the property leaves it open). Rejected cases are re-evaluated under named Layer B deviations to attribute them to known findings.",
        note="Trusted: TLC, lib/bqlgen.py rendering (cross-checked against the parsed pattern dumped by the driver), harness/bqlu projection by accessors. Random generation seeded by VERIF_SEED, not exhaustive."),
    "C10": dict(
        cat="model_checking", ref="DESIGN 5/C10",
        technique="same oracle (BQLSemantics.tla Step with OPTIONAL as left outer join) on generated patterns with 1-2 OPTIONAL clauses in any position after the first; TLC trace validation; plus table level: LeftOptionalJoin / DotProduct / AppendTable / ProjectBindings performed on real bql/table tables by tabledrv and validated by TLC against TableAlg.tla (TableTrace.tla); lemma JoinKeepsLeft model-checked (TableAlgMC); chained OPTIONAL clauses (join value NULL) judged for kept rows by BQLSemantics!LeftKeptDev; OPTIONAL clauses meeting tables of 500-1200 rows with a shared column of mixed kinds",
        text="Generated patterns mandatory;OPTIONAL[;OPTIONAL] with the optional clause sharing 0..n bindings, fully specified with/without alias, matching nothing/some/all rows, extractions that cannot apply; TLC checks that every preceding solution appears once per compatible match or once NULL-extended.",
        note="Patterns where an OPTIONAL clause shares a binding only introduced by an earlier OPTIONAL clause: the rows are open (NULL-vs-value compatibility is not defined); that no row of the pattern before them is removed is judged."),
    "C11": dict(
        cat="model_checking", ref="DESIGN 5/C11",
        technique="TLA+ Group/AggRow operators (BQLSemantics.tla) applied by TLC to the RECORDED ungrouped rows of the same pattern and compared with the recorded grouped rows; plus table level: Table.Reduce with count / count distinct / sum accumulators on real tables validated by TLC against TableAlg.tla IsReduce; GROUP BY without aggregates; sums of int64 beyond 2^53 through additive stand-ins; grouping columns shown under the name of a binding the same query aggregates",
        text="For generated patterns and every choice of 1-2 grouping bindings and 1-3 aggregates (count, count distinct, sum) the grouped query and its ungrouped base are both executed; TLC requires exactly one row per distinct key combination (mixed kinds in key columns included) with the right count / distinct count / sum, and an empty result for an empty base.",
        note="Sums are judged only for columns of one numeric kind (quarters, |v|<2^30: TLC has 32-bit integers and no floats)."),
    "C12": dict(
        cat="model_checking", ref="DESIGN 5/C12",
        technique="TLA+ Sorted/Permutation/TopN operators evaluated by TLC on recorded plain, ordered and limited results of the same query; rank tables of printed forms and instants computed independently in lib/bqlu.py; plus table level: Table.Sort and Table.Limit on real tables validated by TLC against TableAlg.tla (IsSort, Limit); LimitLemmas / SortKeyLemma model-checked; ORDER BY a prefix of the grouping keys in GROUP BY order and in SELECT order",
        text="Generated queries (incl. GROUP BY outputs) are run plain, with ORDER BY (1-3 keys, ASC/DESC, repeated keys) twice, and with LIMIT 0..50; TLC checks permutation, sortedness by kind (numeric, chronological incl. other zones and sub-second precision, printed form), first-min(n,N)-rows, determinism for total orders; statements with a negative / non-int64 LIMIT must be rejected.",
        note="Key columns holding several kinds are not judged. Literal type names in upper case are left to C08/C16."),
    "C13": dict(
        cat="model_checking", ref="DESIGN 5/C13",
        technique="TLA+ Eval over the grammar's own expression tree (BQLSemantics.tla) applied by TLC to the recorded rows without HAVING and compared with the recorded rows with it; plus table level: Table.Filter on real tables validated by TLC against TableAlg.tla; FilterLemmas model-checked; HAVING on tables of more than a thousand rows; output names that shadow pattern bindings; grouped HAVING on a grouping column shown under the name of another pattern binding",
        text="Random expression trees (NOT / AND / OR / parentheses, depth <= 3) over comparisons of bindings with int64, float64, text, bool, node, predicate, time constants (other zones) and other bindings, also over aggregate outputs; TLC requires exactly the rows for which the expression is true, unchanged.",
        note="< and > on nodes/predicates/bools, and binding-vs-binding of different kinds, are not judged; statements rejected by the parser/expression builder are not judged."),
    "C14": dict(
        cat="model_checking", ref="DESIGN 5/C14",
        technique="metamorphic relations asserted by TLC (bag equality / inclusion / identical sequence) between REAL results of variants of one query: renaming, clause permutation, data partition over 1-3 graphs, supersets of the data, chanSize/bulkSize/GOMAXPROCS, repetition; a third of the base queries from the pattern families of C03; renaming through the SELECT list; ORDER BY one column judged as a total order when the recorded values of the column are all different (int64 beyond 2^53 included)",
        text="For each generated base query ~10 variants are executed and TLC checks the relation the property states; no reference to the solutions oracle, so C03 findings cannot leak in unless they are order- or configuration-dependent.",
        note="Base queries come from the fragment without OPTIONAL/FILTER/LIMIT/aggregates."),
    "C04": dict(
        cat="model_checking", ref="DESIGN 5/C04",
        technique="TLA+ Statements.tla (effect of INSERT/DELETE/CREATE/DROP/CONSTRUCT/DECONSTRUCT incl. reification with fresh blank nodes) ; sequences of statements executed as text on one live store; full listing of every graph after each statement validated by TLC (StatementTrace.tla); long data lists that repeat every triple, written into several graphs",
        text="60 (quick) / 1500 (thorough) seeded sequences of 10-12 statements over 3 graphs + an unknown name; after every statement the complete listing of all graphs is recorded structurally and TLC checks it equals the previous listing transformed by the statement: targets exactly +/- the listed or instantiated triples (templates x solution rows via the Solutions oracle), fresh blank node per reified row modulo renaming, non-targets untouched, rejected statements change nothing.",
        note="Reification templates write only into ?g3, which is never a FROM graph. A statement failing during execution may leave targets either way."),
    "C17": dict(cat="model_checking", ref="DESIGN 5/C17",
        technique="GrammarData.tla generated per run from grammar.BQL()/SemanticBQL(); LL1.tla table facts evaluated completely by TLC; witness sentences generated by the TLC derivation machine (LL1Derive), parsed by the real parser with ProcessStart probes and validated by TLC (ParserTrace.tla) against the predictive machine LL1!Run",
        text="All table facts (first elements are tokens and pairwise distinct per rule, empty alternative last, referenced rules exist, reachable, productive by least fixpoint, plain = semantic table) are checked for the whole table of the current tree (73 rules / 178 alternatives). For every expansion step of the derivation machine (stack <= 20/26, both alternative orders) a sentence is concretised, lexed and parsed by the real parser; TLC requires accept = Accepts(kinds) and the probed (rule, alternative) sequence = the alternatives LL1!Run takes; every alternative (also the empty ones) must be taken by an accepted run. Complete for the table; witnesses bounded by the stack bound.",
        note="Trusted: TLC, grammardump (exported accessors; element is a token iff Symbol()==''), harness/gram concretiser (only proposes texts; judged on kinds as lexed; a token kind it cannot write raises INFRA, not a verdict)."),
    "C18": dict(cat="model_checking", ref="DESIGN 5/C18",
        technique="LL1.tla predictive recogniser (Accepts) on the generated table as oracle; TLC-generated sentences, systematic (expected token x offered kind) substitutions, mutations, trailing tokens and all kind sequences <= 3 parsed by the real plain and semantic parsers; histories (every cut position x probes, random) on one parser vs a fresh one; all events validated by TLC (ParserTrace.tla); deviations attributed by rebuilding hook closures on the real code; long histories (tens of thousands of mostly rejected statements on ONE parser, probes in between); statements a semantic hook rejects in the middle of its work (unknown key appended to ORDER BY) followed by the same statement with the direction of its first key turned round; histories whose Statements are dropped, collected, and the next one placed in the freed memory",
        text="plain accept = Accepts(kinds as lexed) and semantic accept => Accepts for sentences, 10^4 substitutions/mutations, statements followed by more tokens and all token-kind sequences up to length 3 (quick: length 2 + 2% sample); the outcome and extracted meaning (type, graphs, data, clauses, filters, projections, group/order, HAVING tokens, bounds, limit, construct clauses) of a probe statement after every history (40/160 statements cut at every token, whole, random histories <= 6) equals its meaning on a fresh parser.",
        note="Deviations are classified mechanically: AcceptsPrefix evaluated by TLC; closure family found by delta debugging on the real hooks. Probes whose fresh meaning is not deterministic are open. Trusted: TLC, harness/gram, meaning projection in parsedrv."),
    "C16": dict(cat="model_checking", ref="DESIGN 5/C16",
        technique="LexerStream.tla stream monitor (ordered non-overlapping substrings, one terminal token last, closed) model-checked on its own and used by TLC to validate token streams recorded from lexer.New (LexerTrace.tla), plus relational events SameKinds (case / white space variants) and OneToken (printed values); white space beyond ASCII (runes of two and three bytes) between tokens",
        text="Every string of length <= 4/5 over a 12-symbol alphabet (22 621 / 271 453 inputs) with channel capacities 0,1,2,8, seeded random and mutated statements, grammar-generated statements with letter-case, white-space and compact-spacing variants, and ~490 printed nodes/predicates/bounds/literals/bindings/blank nodes built with the real constructors and printers; watchdog turns non-termination into an event. Exact tokenisation is deliberately not specified.",
        note="Known findings: text ending in backslash, id starting with @[ or ^^type:, node type containing '>'. White space between a filter function and '(' is treated as part of the notation (the repository's tests require 'latest (' to be rejected). Values with embedded quotes are open."),
    "C08": dict(cat="model_checking", ref="DESIGN 5/C08",
        technique="RunTrace.tla outcome/goroutine monitor validating, by TLC, runs of the real pipeline (lexer -> semantic parser -> planner -> executor, as run.BQL) recorded in-process (recover, settled goroutine stacks filtered to badwolf/) and per child process (panics in other goroutines, log.Fatalf); inputs from the TLC derivation machine + hostile concretisations + all token-kind sequences <= 3 + random bytes; LexPipe.tla (lexer || channel || parser) model-checked for the leak predicate; plus 'sink' statements (lib/bqlsink.py): semantically plausible statements combining every feature (joins, OPTIONAL, bound predicates written with bindings, FILTER, GROUP BY with aggregates over any binding, HAVING, ORDER BY, LIMIT, CONSTRUCT/DECONSTRUCT, data statements) on an empty, a small and a large store (more rows than twice the processors); every third batch of runs on ONE processor (GOMAXPROCS=1); the check stops after five confirmed hangs",
        text="Every run must end in exactly one of table / error, never panic, time out (10 s watchdog, re-run alone) or kill the process, and leave no goroutine with engine frames. 1.5*10^4 (quick) / 3.3*10^5 (thorough) texts: grammar-generated statements with plain and hostile literals/nodes/predicates/bounds/times (one hostile token at a time and random), prefixes, prefix + one token, token mutations, statement + statement, all kind sequences up to length 3 (quick: 2% sample), random bytes and byte mutations, against a populated and an empty memory store.",
        note="Level model_checking for the pipeline model and trace validation, exploration for raw bytes (evidence carries both key sets). The two panics first found here (blob literal shorter than 2 chars, anchor of one double quote) were repaired in the value parsers (fixed: entries). Driver failures are C20."),
    "C19": dict(cat="model_checking", ref="DESIGN 5/C19",
        technique="TLA+ Memo.tla (per-graph cache, key incl. offset, CheckCache ; Replay | Forward ; Fill, Clear ; ForwardWrite) model-checked by TLC for Transparent and used to enumerate ALL schedules of 1 writer + 1-2 readers; every schedule forced on the real memoizer through verifYield gates (build tag verif) and the recorded invoke/return history validated by TLC (MemoTrace.tla) against the wrapped store's own answers; plus lock-step sequential histories and a cache-key sweep; the key sweep includes windows whose bounds differ from an anchor by less than a second; one options value whose fields are re-pointed between lookups; LatestAnchor combined with every upper bound in the cache-key grid",
        text="(i) sequential lock-step histories (memoized store vs plain twin) over all lookup methods, option shapes incl. window/filter/LatestAnchor/MaxElements/Offset, Exist, Triples, two handles of one graph, failing forwarded reads; (ii) every schedule TLC enumerates at the grain CheckCache/Forward/Fill/Clear/ForwardWrite/Return for 1 writer and 1-2 readers (same/different key, same/second handle) is forced on the real code; (iii) key sweep: pairs of requests differing in exactly one argument or option must not share a cached answer. TLC requires every answer to equal the wrapped graph's answer at an instant inside the call and never one older than the last returned write. Exhaustive over the schedules of the bounded model, sampled for sequential histories.",
        note="Needs the verifYield hook (storage/memoization/verif_on.go). Each named deviation of Memo.tla (offset not in key, per-handle cache, fill after clear, memoized failed read) is model-checked to violate Transparent as a non-vacuity control. Trusted: TLC, harness/uni, the gate scheduler of memodrv."),
    "C07": dict(cat="model_checking", ref="DESIGN 5/C07",
        technique="TLA+ ConcStore.tla (Go RW-mutex with writer preference, batch-atomic add, per-triple remove, streaming lookups under the read lock, store-level lock) model-checked by TLC for refinement to the sequential store, dead-lock freedom and close-exactly-once; invoke/return histories recorded from the real store built with -race are validated by TLC (ConcTrace.tla places the silent linearisation steps; a history is rejected iff no placement explains the results); race-detector reports, panics, watchdog, channel-close counters and options observers are events the spec has no action for; a driver process killed by a goroutine of the engine, and a statement the parser rejects only when parsed concurrently, are observations; stress runs through handles of a graph that is dropped and created again meanwhile",
        text="All interleavings of 2 processes x <=2 operations and 3 processes x 1 operation over 3 triples / 2 graph names in the model; on the real code: many small random histories (<=4 goroutines x <=4 ops: add/remove batches, Exist, all lookups with options, create/get/drop graphs) checked for linearisability by TLC, targeted schedules derived from model counterexamples (lookup parked on an undrained channel while another call runs; batch atomicity), long hammer/stress runs under the race detector with close-exactly-once and options-untouched observers and a dead-lock watchdog.",
        note="Data-race freedom is the Go race detector's judgement on the executions run, not TLC's. Clients drain result channels. Real-time order from a global atomic counter read before each call and after its return."),
    "C20": dict(cat="model_checking", ref="DESIGN 5/C20",
        technique="TLA+ ExecPipeline.tla (goroutines/channels of simpleFetch, errgroup fan-out, update(), CONSTRUCT bulk writer, SHOW) model-checked by TLC for FailureSurfaces and eventual termination of every goroutine under each fault; the same module (PlanSpec) enumerates ALL fault plans (call position x before/after j/on write) of the fault-free driver call sequence of every corpus statement; each plan executed on the real planner over a fault-injecting storage.Store/Graph and the recorded run validated by TLC (FaultTrace.tla); the fault store takes a moment between closing a channel and returning its error; a graph with more rows than twice the processors",
        text="66 statements (every plan type, 1-3 clauses, every simpleFetch branch, OPTIONAL, GROUP BY, CONSTRUCT/DECONSTRUCT with and without ';', several target graphs, SHOW, CREATE/DROP) x store configurations (direct, memoized) x every driver call of the fault-free run x modes {before anything, after j elements, on write}: ~10^3 (quick) fault plans, each on a fresh store. TLC requires: a failed driver call => Execute returns an error (no table of partial data, no success), returns within the watchdog, and no goroutine with badwolf frames remains after settling.",
        note="fault_enumeration style evidence keys are included. A failing driver call still closes its channel (as storage/memory does); ExecNoClose shows the planner hangs otherwise. A table returned together with the error is left open."),
    "C05": dict(cat="model_checking", ref="DESIGN 5/C05",
        technique="TLA+ ValueText.tla (printed forms and the parsers' delimiter rules over a symbolic alphabet) evaluated exhaustively by TLC for RoundTrip/Unambiguous to produce candidate values; valuedrv executes candidates + exhaustive short strings over the delimiter alphabet + boundary and seeded random values on the real constructors, printers and parsers; every print->parse->print and WriteGraph->ReadIntoGraph case is validated by TLC (ValueTrace.tla) on components read back by accessors; round trips also with the bounded literal builder",
        text="All strings up to length 3 over an 18-character delimiter alphabet as node id / node type / predicate id (immutable and temporal) / text, alone, as object and (length <=2) inside triples; numbers, anchors (zones, sub-second, year boundaries), blobs, composite values and graphs (<=30 triples) from boundary sets and seeded random; TLC requires same kind, equal components (anchors equal as instants with the same offset), identical second print; graphs: same triple set and both counts equal its size.",
        note="Documented domain per docs/temporal_graph_modeling.md; ids with white space, node types containing '<' or '>', non-UTF-8 ids and sub-minute zone offsets are left open (counted). Known findings: text literal containing a line break in WriteGraph/ReadIntoGraph."),
    "C06": dict(cat="model_checking", ref="DESIGN 5/C06",
        technique="TLA+ Identity.tla (UUID(v) represented by the byte string fed to SHA1; Injective/Functional/Total) evaluated by TLC over all same-kind pairs of a 215-value near-miss universe to produce colliding/undefined candidates; valuedrv executes all pairs and candidates on the real code (UUID equality, Triple.Equal, Graph.Exist vs component equality; UUID twice, in 4 goroutines and in a child process) and TLC validates every recorded pair (ValueTrace.tla); Identity.tla Variants: for six plausible other encodings TLC lists the universe pairs that tell each from the current design (INFRA when a variant has none); UUIDs of different values computed by eight goroutines at once",
        text="All same-kind pairs of the universe (nodes whose type/id boundary shifts, ids equal to types, predicates differing only in kind/instant/zone, literals of different types with equal encodings, int64/float64 boundary values, objects boxing a node/predicate/literal with coinciding bytes, triples differing in one component) plus boundary sets and seeded near-miss pairs: TLC requires equal UUID <=> same kind and equal components (anchors as instants), Equal likewise, UUID stable across calls/goroutines/processes and defined (no panic) for every constructible value.",
        note="SHA1 is treated as injective. +0/-0 float64 pairs are left open. Known findings: node type/id boundary (node.TestUUID pins the formula), anchors 2^64 ns apart (UnixNano wraps)."),
    "C15": dict(cat="model_checking", ref="DESIGN 5/C15",
        technique="TLA+ ValueText.tla ParsersTotal (the slice expressions of the node/predicate/literal/object/triple parsers as partial functions) evaluated exhaustively by TLC over symbol strings up to length 4-6 to predict out-of-range inputs; valuedrv runs the candidates, all short strings over delimiter alphabets, token sequences, mutations of printed values, random strings and files through the real parsers and ReadIntoGraph under recover/watchdog; TLC validates every event (ValueTrace.tla): value xor error, well-formed, reprint accepted as an equal value, reader loads exactly the prefix before the first malformed line; literals, objects and triples also parsed with the bounded literal builder (texts and blobs shorter than, equal to and longer than the bound)",
        text="~10^5 (quick) parser calls: all strings up to length 3 over the 18-character delimiter alphabet for each of the 5 parsers, up to length 4 over 7-character per-parser alphabets, token sequences up to 4 tokens, truncate/delete/duplicate/inject mutations of printed values, seeded random strings; files with malformed lines at every position, blank lines, long lines (>64 KiB), for ReadIntoGraph. A 15 s watchdog turns non-termination into an event.",
        note="A line is malformed when the real triple.Parse rejects it. A parsed value whose components the exported constructors refuse is left open (counted)."),
}

PENDING_REASON = "not claimed yet: the TLA+ module and conformance driver for this property are designed (DESIGN 5) but not built/validated in this commit"


def main():
    checks = []
    for pid in ALL:
        if pid not in CLAIMED:
            continue
        c = CLAIMED[pid]
        checks.append({
            "property_id": pid,
            "quick_cmd": "./check %s --tier quick" % pid,
            "thorough_cmd": "./check %s --tier thorough" % pid,
            "evidence_file": "/verif/evidence/%s.json" % pid,
            "replay_cmd_template": "./check %s --replay {path}" % pid,
            "engine": "tlc",
            "level_claimed": {"category": c["cat"], "text": c["text"], "design_ref": c["ref"]},
            "level_note": c["note"],
            "technique": c["technique"],
        })
    m = {
        "version": 1,
        "setup_cmd": "./setup.sh",
        "hooks": {
            "guard": "verif",
            "enable": "go build -tags verif (harness module /verif/harness with replace github.com/google/badwolf => /repo)",
            "baseline_off_cmd": "cd /repo && GOFLAGS=-mod=mod GOPROXY=off go test -json -vet=off -count=1 -timeout 25m ./...",
            "source_commits": HOOK_COMMITS,
            "add_only": True,
        },
        "engines": [
            {"name": "tlc", "path": "/opt/veriftools/tla/tla2tools.jar", "serves_properties": sorted(CLAIMED),
             "kind_free_text": "TLC 1.8 model checker: exhaustive checking of the Layer A/B TLA+ modules in /verif/spec, generation of state graphs / cases replayed on the real code, and validation of ndjson traces recorded from the real code"},
            {"name": "harness", "path": "/verif/harness", "serves_properties": sorted(CLAIMED),
             "kind_free_text": "Go drivers (module with replace => /repo) executing TLC-generated cases on the real packages and recording traces"},
        ],
        "checks": checks,
        "not_applicable": [{"property_id": p, "reason": NA.get(p, PENDING_REASON)} for p in ALL if p not in CLAIMED],
        "notes": "All verdicts come from real-code behaviour contradicting the Layer A TLA+ specification (DESIGN 2.3). exit 2 = INFRA (machinery failure), never a violation.",
    }
    with open(os.path.join(VERIF, "MANIFEST.json"), "w") as fh:
        json.dump(m, fh, indent=1)
    print("MANIFEST: %d claimed, %d not claimed" % (len(checks), len(m["not_applicable"])))


HOOK_COMMITS = ["3fd9383", "b9c97f4"]
NA = {}

if __name__ == "__main__":
    main()
