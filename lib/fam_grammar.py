"""Grammar / lexer / parser family: C17 (grammar table live and LL(1)-chosen), C18 (parser = recogniser,
stateless), C16 (lexer stream well-formed), C08 (any text -> table or error; no crash, hang, leak).

Layer A: spec/LL1.tla (+ GrammarData.tla GENERATED per run from the current tree), LexerStream.tla,
RunTrace.tla.  TLC generates the sentences (LL1Derive) and validates every recorded trace
(ParserTrace / LexerTrace / RunTrace); python only orchestrates and classifies."""
import concurrent.futures as cf
import json
import os
import re

import vlib
from vlib import VERIF, Verdict, Infra, log

NCPU = os.cpu_count() or 4


# ------------------------------------------------------------------------------------------------
# grammar table of the current tree -> GrammarData.tla

def grammar_tla(d):
    def elem(e):
        return "E(%s,%s)" % ("GdT" if e["tok"] else "GdF", vlib.tla_str(e["v"]))

    def alt(a):
        return "<<" + ", ".join(elem(e) for e in a) + ">>"

    def table(t):
        if not t:
            return "<<>>"
        return " @@\n  ".join("(%s :> <<%s>>)" % (vlib.tla_str(r), ", ".join(alt(a) for a in t[r])) for r in sorted(t))

    return "\n".join([
        "---- MODULE GrammarData ----",
        "\\* GENERATED on every run by lib/fam_grammar.py from harness/cmd/grammardump, i.e. from",
        "\\* grammar.BQL() and grammar.SemanticBQL() of the tree under test - never edited by hand.",
        "EXTENDS TLC",
        "GdT == TRUE", "GdF == FALSE", "E(gdt, gdv) == [tok |-> gdt, v |-> gdv]",
        "Start == %s" % vlib.tla_str(d["start"]),
        "Kinds == {%s}" % ", ".join(vlib.tla_str(k) for k in d["kinds"]),
        "Plain ==\n  " + table(d["plain"]),
        "Semantic ==\n  " + table(d["semantic"]),
        "====", ""])


def grammar_data(d):
    """Runs grammardump on the current tree. Returns (dump dict, {"GrammarData.tla": text})."""
    out = os.path.join(d, "grammar.json")
    p = vlib.run([os.path.join(vlib.BUILD_DIR, "grammardump"), "-out", out], timeout=120, check=False)
    if p.returncode != 0:
        raise Infra("grammardump failed rc=%d: %s" % (p.returncode, p.stderr[-2000:]))
    g = json.load(open(out))
    for t in ("plain", "semantic"):
        for r, alts in g[t].items():
            if not re.match(r"^[A-Za-z0-9_]+$", r):
                raise Infra("rule name %r cannot be rendered" % r)
    return g, {"GrammarData.tla": grammar_tla(g)}


def table_check(gen):
    """LL1Table: the table facts of LL1.tla evaluated by TLC. Returns (violations, stats, TLCResult)."""
    r = vlib.run_tlc("LL1Table", "LL1Table.cfg", gen=gen, workers=1, timeout=600)
    if r.violation:
        raise Infra("LL1Table: %s\n%s" % (r.violation, r.out[-3000:]))
    fails = [dict(fact=v[1], rule=v[2], i=v[3], j=v[4], text=v[5] if len(v) > 5 else "")
             for v in vlib.parse_printed(r.printed, "TABLEFAIL")]
    st = vlib.parse_printed(r.printed, "TABLESTATS")
    if len(st) != 1:
        raise Infra("LL1Table printed no TABLESTATS:\n" + r.out[-3000:])
    keys = ("rules", "alternatives", "empty_alternatives", "reachable", "productive")
    return fails, dict(zip(keys, st[0][1:])), r


def derive(gen, max_stack, max_out, per_context=0, rev=False):
    """LL1Derive: breadth-first exploration of the derivation machine; every expansion step prints the
    sentence completing the prefix with shortest yields. Returns (list of sentence dicts distinct by
    token kinds - at most per_context (0 = all) per (rule, alternative, preceding kind) in breadth-first
    order -, number of such contexts, TLCResult)."""
    cfg = ("SPECIFICATION DSpec\nVIEW DView\nCONSTRAINT DBound\nACTION_CONSTRAINT DEmit\n"
           "CONSTANTS MaxStack = %d\n MaxOut = %d\n Rev = %s\nCHECK_DEADLOCK FALSE\n" % (max_stack, max_out, "TRUE" if rev else "FALSE"))
    g = dict(gen)
    g["LL1DeriveRun.cfg"] = cfg
    r = vlib.run_tlc("LL1Derive", "LL1DeriveRun.cfg", gen=g, workers=1, timeout=1200, heap="4g")
    if r.violation:
        raise Infra("LL1Derive: %s\n%s" % (r.violation, r.out[-3000:]))
    seen, sents, ctx = set(), [], {}
    for ln in r.printed:
        if not ln.startswith('"{'):
            continue
        try:
            e = json.loads(json.loads(ln))
        except ValueError:
            raise Infra("cannot parse derivation line: " + ln[:300])
        c = (e["r"], e["i"], e["prev"])
        ctx[c] = ctx.get(c, 0) + 1
        k = tuple(t["k"] for t in e["s"])
        if k in seen or (per_context and ctx[c] > per_context):
            continue
        seen.add(k)
        sents.append(e)
    if not sents:
        raise Infra("derivation machine printed no sentence:\n" + r.out[-3000:])
    return sents, len(ctx), r


def corpus(gen, max_stack, max_out, per_context=0):
    """Sentences of both derivation orders (first-to-last and last-to-first alternatives), distinct by kinds."""
    a, na, ra = derive(gen, max_stack, max_out, per_context, rev=False)
    b, nb, rb = derive(gen, max_stack, max_out, per_context, rev=True)
    seen, sents = set(), []
    for e in a + b:
        k = tuple(t["k"] for t in e["s"])
        if k not in seen:
            seen.add(k)
            sents.append(e)
    info = {"max_stack": max_stack, "max_out": max_out, "distinct_states": ra.distinct + rb.distinct,
            "edges": ra.generated + rb.generated, "contexts_rule_alt_prev": max(na, nb), "distinct_sentences": len(sents),
            "orders": ["first-to-last", "last-to-first"]}
    return sents, info


def write_ndjson(path, rows):
    with open(path, "w") as fh:
        for x in rows:
            fh.write(json.dumps(x) + "\n")


def split_lines(path, outdir, nchunks, min_lines=200):
    """A JVM start costs ~7 s of CPU, an event 0.3-3 ms: few, large chunks."""
    lines = open(path).read().splitlines()
    n = max(1, min(nchunks, len(lines) // min_lines))
    size = (len(lines) + n - 1) // n
    chunks = []
    for i in range(n):
        part = lines[i * size:(i + 1) * size]
        if not part:
            continue
        p = os.path.join(outdir, "chunk%03d.ndjson" % i)
        with open(p, "w") as fh:
            fh.write("\n".join(part) + "\n")
        chunks.append((p, i * size, part))
    return chunks


def validate(module, gen, trace_path, workers=None, timeout=3000, per_chunk=10000):
    """Validates an ndjson trace with spec/<module>.tla in parallel chunks (events are independent).
    Returns dict(rejects=[(line, prop, cls, event)], opens=n, states=n, events=n, dead=set or None,
    printed=[...])."""
    workers = workers or max(2, min(NCPU // 2, 8))
    d = vlib.scratch("chunks-")
    chunks = split_lines(trace_path, d, workers, per_chunk)

    def one(c):
        path, base, part = c
        r = vlib.run_tlc(module, module + ".cfg", gen=gen, env={"TRACE_FILE": path, "JAVA_TOOL_OPTIONS": "-XX:ParallelGCThreads=2"},
                         workers=1, timeout=timeout, heap="2g")
        if r.violation:
            raise Infra("%s: trace not consumed (%s): %s\n%s" % (module, path, r.violation, r.out[-3000:]))
        return c, r

    res = dict(rejects=[], opens=0, states=0, events=0, dead=None, printed=[])
    if not chunks:
        raise Infra("empty trace " + trace_path)
    with cf.ThreadPoolExecutor(max_workers=workers) as ex:
        results = list(ex.map(one, chunks))
    for (path, base, part), r in results:
        res["states"] += r.distinct
        res["events"] += len(part)
        if r.distinct != len(part) + 1:
            raise Infra("%s consumed %d of %d events of %s" % (module, r.distinct - 1, len(part), path))
        for v in vlib.parse_printed(r.printed, "REJECT"):
            res["rejects"].append((base + v[1], v[2], v[3], json.loads(part[v[1] - 1])))
        res["opens"] += len(vlib.parse_printed(r.printed, "OPEN"))
        dead = set((v[1], v[2]) for v in vlib.parse_printed(r.printed, "DEAD"))
        if json.loads(part[-1]).get("ev") == "W":
            res["dead"] = dead if res["dead"] is None else (res["dead"] & dead)
        res["printed"] += r.printed
    return res


def run_driver(name, args, d, tag):
    out, stats = os.path.join(d, tag + ".ndjson"), os.path.join(d, tag + ".stats")
    p = vlib.run([os.path.join(vlib.BUILD_DIR, name)] + args + ["-out", out, "-stats", stats, "-seed", str(vlib.seed())],
                 timeout=3600, check=False)
    if p.returncode != 0:
        raise Infra("%s failed rc=%d: %s" % (name, p.returncode, p.stderr[-3000:]))
    return out, json.load(open(stats))


def brief(ev, n=400):
    e = {k: v for k, v in ev.items() if k not in ("want",)}
    s = json.dumps(e)
    return e if len(s) <= n else json.loads(json.dumps({k: (v if len(json.dumps(v)) < 160 else json.dumps(v)[:160] + "...") for k, v in e.items()}))


# ------------------------------------------------------------------------------------------------
# C17

def check_c17(v, d):
    tier = v.tier
    g, gen = grammar_data(d)
    for which, msg in zip(("plain", "semantic"), g.get("new_parser", [])):
        if msg:
            v.reject("grammar-refused-by-NewParser", {"grammar": which, "error": msg}, {"grammar": which, "error": msg})
    fails, tstats, tr = table_check(gen)
    for f in fails:
        alts = g["plain"].get(f["rule"], [])
        w = dict(f)
        w["alternatives"] = [" ".join(e["v"] for e in a) for a in alts]
        v.reject("table:" + f["fact"], w, {"table_fact": f, "rule": f["rule"], "alternatives": alts})
    ms, mo = (20, 40) if tier == "quick" else (26, 60)
    sents, dinfo = corpus(gen, ms, mo, per_context=1 if tier == "quick" else 0)
    sp = os.path.join(d, "sentences.ndjson")
    write_ndjson(sp, sents)
    trace, st = run_driver("parsedrv", ["witness", "-in", sp], d, "witness")
    res = validate("ParserTrace", gen, trace, per_chunk=1500)
    for (ln, prop, cls, ev) in res["rejects"]:
        if prop == "C17":
            v.reject(cls, brief(ev), {"trace_line": ln, "event": ev})
    dead = sorted(res["dead"] or [])
    for (r, i) in dead:
        alt = g["plain"].get(r, [])
        a = alt[i - 1] if 0 < i <= len(alt) else []
        w = {"rule": r, "alternative": i, "elements": " ".join(e["v"] for e in a) or "(empty)",
             "what": "no generated statement is accepted by the real parser through this alternative"}
        v.reject("dead-alternative", w, w)
    evs = vlib.read_ndjson(trace)
    lex_ok = sum(1 for e in evs if e["want"] == e["kinds"])
    acc = sum(1 for e in evs if e["acc"])
    if acc == 0:
        raise Infra("no witness sentence was accepted by the real parser: harness/concretiser broken")
    nalts = tstats["alternatives"]
    v.cov.update({
        "states": dinfo["distinct_states"] + res["states"], "transitions": dinfo["edges"] + res["events"],
        "traces_validated_against_impl": 1,
        "table": tstats, "table_violations": len(fails),
        "derivation_machine": dinfo,
        "witness_events": len(evs), "witness_lexed_as_intended": lex_ok, "witness_accepted": acc,
        "alternatives_taken_by_an_accepted_witness": nalts - len(dead), "alternatives": nalts,
        "rejected_events": len(res["rejects"]),
        "exhaustive": True,
        "samples": [brief(evs[i]) for i in (0, len(evs) // 3, len(evs) - 1)],
    })
    v.assumptions += [
        "the table facts are evaluated by TLC on GrammarData.tla generated from grammar.BQL()/SemanticBQL() of the tree under test (complete for the table)",
        "witness sentences: every expansion step of the derivation machine up to the stack bound, completed with shortest yields; which alternatives a sentence takes is decided by LL1!Run on the kinds the real lexer produced",
        "the concretiser (harness/gram) only proposes texts; a text that lexes differently is judged on what it lexed to",
    ]
    return v.finish()


# ------------------------------------------------------------------------------------------------
# C18

def check_c18(v, d):
    tier = v.tier
    g, gen = grammar_data(d)
    quick = tier == "quick"
    ms, mo = (20, 40) if quick else (24, 60)
    sents, dinfo = corpus(gen, ms, mo, per_context=1 if quick else 0)
    sp = os.path.join(d, "sentences.ndjson")
    write_ndjson(sp, sents)
    # (1) accept / reject: sentences, seeded single-token mutations, sentences followed by further tokens,
    #     all kind sequences up to length 2 (quick: plus a seeded 4% of length 3; thorough: all of length 3)
    pargs = ["parse", "-in", sp, "-trailing", "-mutations", "4" if quick else "8", "-enum", "3",
             "-enum-keep", "0.04" if quick else "1"]
    ptrace, pst = run_driver("parsedrv", pargs, d, "parse")
    pres = validate("ParserTrace", gen, ptrace)
    # (2) statelessness: every base statement cut at every token position (and whole), then every probe, on ONE
    #     parser vs a fresh parser; seeded random histories of 2..6 statements
    hargs = ["history", "-in", sp] + (["-bases", "40", "-probes", "12", "-random", "400"] if quick
                                      else ["-bases", "160", "-probes", "30", "-random", "6000"])
    htrace, hst = run_driver("parsedrv", hargs, d, "history")
    hres = validate("ParserTrace", gen, htrace, per_chunk=40000)
    if pst.get("p:plain-accepted", 0) == 0 or hst.get("a:probe-fresh-accepted", 0) == 0:
        raise Infra("vacuous run: no statement accepted (%s %s)" % (pst, hst))
    nrej = 0
    for (ln, prop, cls, ev) in pres["rejects"] + hres["rejects"]:
        if prop != "C18":
            continue
        nrej += 1
        if ev["ev"] == "A":
            if ev.get("attr_other") or not ev.get("attr"):
                v.reject("history-dependent:state-outside-hook-closures", brief_a(ev), {"trace_line": ln, "event": ev})
            else:
                # the difference disappears exactly when the closures of these hook families are rebuilt
                for fam in ev["attr"]:
                    v.reject("closure-state-survives-parse:" + fam, brief_a(ev), {"trace_line": ln, "event": ev})
        else:
            v.reject(cls, brief(ev), {"trace_line": ln, "event": ev})
    pev = vlib.read_ndjson(ptrace)
    samples = [brief(pev[i]) for i in (0, len(pev) // 2, len(pev) - 1)]
    with open(htrace) as fh:
        for i, ln in enumerate(fh):
            if i in (0, 777):
                samples.append(brief_a(json.loads(ln)))
    v.cov.update({
        "states": dinfo["distinct_states"] + pres["states"] + hres["states"],
        "transitions": dinfo["edges"] + pres["events"] + hres["events"],
        "traces_validated_against_impl": 2,
        "derivation_machine": dinfo,
        "parse_events": {k[2:]: n for k, n in pst.items() if k.startswith("p:")},
        "history_events": {k[2:]: n for k, n in hst.items() if k.startswith("a:")},
        "open_cases_not_judged": pres["opens"] + hres["opens"],
        "rejected_events": nrej,
        "samples": samples,
    })
    v.assumptions += [
        "Accepts = the predictive machine of LL1.tla on the table of the tree under test (C17 checks that the table is LL(1)-shaped, which makes it the recogniser the property describes)",
        "judged on the token kinds the real lexer produced for each text; the parser gets its own lexer for the same text",
        "meaning = projection of semantic.Statement through its exported accessors (harness/cmd/parsedrv: meaning)",
        "a probe whose meaning differs between two FRESH parsers is not judged (open)",
    ]
    return v.finish()


def brief_a(ev):
    diff = [[a, b] for a, b in zip(ev["reused"]["m"], ev["fresh"]["m"]) if a != b][:2]
    return {"history": [[h["text"], "accepted" if h["acc"] else "rejected"] for h in ev["hist"]], "statement": ev["text"],
            "after_history": "accepted" if ev["reused"]["acc"] else "rejected",
            "fresh_parser": "accepted" if ev["fresh"]["acc"] else "rejected", "meaning_differs_in": diff,
            "repaired_by_rebuilding_hooks": ev.get("attr", [])}


# ------------------------------------------------------------------------------------------------

LEVEL = {"C17": "model_checking", "C18": "model_checking", "C16": "model_checking", "C08": "model_checking"}


def check(prop):
    tier = vlib.tier()
    v = Verdict(prop, tier, LEVEL[prop])
    d = vlib.scratch("grammar-")
    if prop == "C17":
        vlib.build_harness(["grammardump", "parsedrv"])
        return check_c17(v, d)
    if prop == "C18":
        vlib.build_harness(["grammardump", "parsedrv"])
        return check_c18(v, d)
    raise Infra("property %s not implemented in fam_grammar" % prop)
