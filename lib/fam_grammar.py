"""Grammar / lexer / parser family: C17 (grammar table live and LL(1)-chosen), C18 (parser = recogniser,
stateless), C16 (lexer stream well-formed), C08 (any text -> table or error; no crash, hang, leak).

Layer A: spec/LL1.tla (+ GrammarData.tla GENERATED per run from the current tree), LexerStream.tla,
RunTrace.tla.  TLC generates the sentences (LL1Derive) and validates every recorded trace
(ParserTrace / LexerTrace / RunTrace); python only orchestrates and classifies."""
import concurrent.futures as cf
import json
import os
import re

import vlib
from vlib import VERIF, Verdict, Infra, log

NCPU = os.cpu_count() or 4


# ------------------------------------------------------------------------------------------------
# grammar table of the current tree -> GrammarData.tla

def grammar_tla(d):
    def elem(e):
        return "E(%s,%s)" % ("GdT" if e["tok"] else "GdF", vlib.tla_str(e["v"]))

    def alt(a):
        return "<<" + ", ".join(elem(e) for e in a) + ">>"

    def table(t):
        if not t:
            return "<<>>"
        return " @@\n  ".join("(%s :> <<%s>>)" % (vlib.tla_str(r), ", ".join(alt(a) for a in t[r])) for r in sorted(t))

    return "\n".join([
        "---- MODULE GrammarData ----",
        "\\* GENERATED on every run by lib/fam_grammar.py from harness/cmd/grammardump, i.e. from",
        "\\* grammar.BQL() and grammar.SemanticBQL() of the tree under test - never edited by hand.",
        "EXTENDS TLC",
        "GdT == TRUE", "GdF == FALSE", "E(gdt, gdv) == [tok |-> gdt, v |-> gdv]",
        "Start == %s" % vlib.tla_str(d["start"]),
        "Kinds == {%s}" % ", ".join(vlib.tla_str(k) for k in d["kinds"]),
        "Plain ==\n  " + table(d["plain"]),
        "Semantic ==\n  " + table(d["semantic"]),
        "====", ""])


def grammar_data(d):
    """Runs grammardump on the current tree. Returns (dump dict, {"GrammarData.tla": text})."""
    out = os.path.join(d, "grammar.json")
    p = vlib.run([os.path.join(vlib.BUILD_DIR, "grammardump"), "-out", out], timeout=120, check=False)
    if p.returncode != 0:
        raise Infra("grammardump failed rc=%d: %s" % (p.returncode, p.stderr[-2000:]))
    g = json.load(open(out))
    for t in ("plain", "semantic"):
        for r, alts in g[t].items():
            if not re.match(r"^[A-Za-z0-9_]+$", r):
                raise Infra("rule name %r cannot be rendered" % r)
    return g, {"GrammarData.tla": grammar_tla(g)}


def table_check(gen):
    """LL1Table: the table facts of LL1.tla evaluated by TLC. Returns (violations, stats, TLCResult)."""
    r = vlib.run_tlc("LL1Table", "LL1Table.cfg", gen=gen, workers=1, timeout=600)
    if r.violation:
        raise Infra("LL1Table: %s\n%s" % (r.violation, r.out[-3000:]))
    fails = [dict(fact=v[1], rule=v[2], i=v[3], j=v[4], text=v[5] if len(v) > 5 else "")
             for v in vlib.parse_printed(r.printed, "TABLEFAIL")]
    st = vlib.parse_printed(r.printed, "TABLESTATS")
    if len(st) != 1:
        raise Infra("LL1Table printed no TABLESTATS:\n" + r.out[-3000:])
    keys = ("rules", "alternatives", "empty_alternatives", "reachable", "productive")
    return fails, dict(zip(keys, st[0][1:])), r


def derive(gen, max_stack, max_out, per_context=0, rev=False):
    """LL1Derive: breadth-first exploration of the derivation machine; every expansion step prints the
    sentence completing the prefix with shortest yields. Returns (list of sentence dicts distinct by
    token kinds - at most per_context (0 = all) per (rule, alternative, preceding kind) in breadth-first
    order -, number of such contexts, TLCResult)."""
    cfg = ("SPECIFICATION DSpec\nVIEW DView\nCONSTRAINT DBound\nACTION_CONSTRAINT DEmit\n"
           "CONSTANTS MaxStack = %d\n MaxOut = %d\n Rev = %s\nCHECK_DEADLOCK FALSE\n" % (max_stack, max_out, "TRUE" if rev else "FALSE"))
    g = dict(gen)
    g["LL1DeriveRun.cfg"] = cfg
    r = vlib.run_tlc("LL1Derive", "LL1DeriveRun.cfg", gen=g, workers=1, timeout=1200, heap="4g")
    if r.violation:
        raise Infra("LL1Derive: %s\n%s" % (r.violation, r.out[-3000:]))
    seen, sents, ctx = set(), [], {}
    for ln in r.printed:
        if not ln.startswith('"{'):
            continue
        try:
            e = json.loads(json.loads(ln))
        except ValueError:
            raise Infra("cannot parse derivation line: " + ln[:300])
        c = (e["r"], e["i"], e["prev"])
        ctx[c] = ctx.get(c, 0) + 1
        k = tuple(t["k"] for t in e["s"])
        if k in seen or (per_context and ctx[c] > per_context):
            continue
        seen.add(k)
        sents.append(e)
    if not sents:
        raise Infra("derivation machine printed no sentence:\n" + r.out[-3000:])
    return sents, len(ctx), r


def corpus(gen, max_stack, max_out, per_context=0):
    """Sentences of both derivation orders (first-to-last and last-to-first alternatives), distinct by kinds."""
    with cf.ThreadPoolExecutor(max_workers=2) as ex:  # two independent TLC runs
        fa = ex.submit(derive, gen, max_stack, max_out, per_context, False)
        fb = ex.submit(derive, gen, max_stack, max_out, per_context, True)
        (a, na, ra), (b, nb, rb) = fa.result(), fb.result()
    seen, sents = set(), []
    for e in a + b:
        k = tuple(t["k"] for t in e["s"])
        if k not in seen:
            seen.add(k)
            sents.append(e)
    info = {"max_stack": max_stack, "max_out": max_out, "distinct_states": ra.distinct + rb.distinct,
            "edges": ra.generated + rb.generated, "contexts_rule_alt_prev": max(na, nb), "distinct_sentences": len(sents),
            "orders": ["first-to-last", "last-to-first"]}
    return sents, info


def nd_lines(path):
    """Lines of an ndjson file. Only \\n separates events: texts may contain U+0085, U+2028 ... unescaped."""
    with open(path, encoding="utf-8", newline="\n") as fh:
        return [ln for ln in fh.read().split("\n") if ln.strip()]


def write_ndjson(path, rows):
    with open(path, "w") as fh:
        for x in rows:
            fh.write(json.dumps(x) + "\n")


def split_lines(path, outdir, nchunks, min_lines=200):
    """A JVM start costs ~7 s of CPU, an event 0.3-3 ms: few, large chunks."""
    lines = nd_lines(path)
    n = max(1, min(nchunks, len(lines) // min_lines))
    size = (len(lines) + n - 1) // n
    chunks = []
    for i in range(n):
        part = lines[i * size:(i + 1) * size]
        if not part:
            continue
        p = os.path.join(outdir, "chunk%03d.ndjson" % i)
        with open(p, "w") as fh:
            fh.write("\n".join(part) + "\n")
        chunks.append((p, i * size, part))
    return chunks


def validate(module, gen, trace_path, workers=None, timeout=3000, per_chunk=10000):
    """Validates an ndjson trace with spec/<module>.tla in parallel chunks (events are independent).
    Returns dict(rejects=[(line, prop, cls, event)], opens=n, states=n, events=n, dead=set or None,
    printed=[...])."""
    workers = workers or max(2, min(NCPU // 2, 8))
    d = vlib.scratch("chunks-")
    chunks = split_lines(trace_path, d, workers, per_chunk)

    def one(c):
        path, base, part = c
        r = vlib.run_tlc(module, module + ".cfg", gen=gen, env={"TRACE_FILE": path, "JAVA_TOOL_OPTIONS": "-XX:ParallelGCThreads=2"},
                         workers=1, timeout=timeout, heap="2g")
        if r.violation:
            raise Infra("%s: trace not consumed (%s): %s\n%s" % (module, path, r.violation, r.out[-3000:]))
        return c, r

    res = dict(rejects=[], opens=0, states=0, events=0, dead=None, printed=[])
    if not chunks:
        raise Infra("empty trace " + trace_path)
    with cf.ThreadPoolExecutor(max_workers=workers) as ex:
        results = list(ex.map(one, chunks))
    for (path, base, part), r in results:
        res["states"] += r.distinct
        res["events"] += len(part)
        if r.distinct != len(part) + 1:
            raise Infra("%s consumed %d of %d events of %s" % (module, r.distinct - 1, len(part), path))
        for v in vlib.parse_printed(r.printed, "REJECT"):
            res["rejects"].append((base + v[1], v[2], v[3], json.loads(part[v[1] - 1])))
        res["opens"] += len(vlib.parse_printed(r.printed, "OPEN"))
        dead = set((v[1], v[2]) for v in vlib.parse_printed(r.printed, "DEAD"))
        if json.loads(part[-1]).get("ev") == "W":
            res["dead"] = dead if res["dead"] is None else (res["dead"] & dead)
        res["printed"] += r.printed
    return res


def run_driver(name, args, d, tag):
    out, stats = os.path.join(d, tag + ".ndjson"), os.path.join(d, tag + ".stats")
    p = vlib.run([os.path.join(vlib.BUILD_DIR, name)] + args + ["-out", out, "-stats", stats, "-seed", str(vlib.seed())],
                 timeout=3600, check=False)
    if p.returncode != 0:
        raise Infra("%s failed rc=%d: %s" % (name, p.returncode, p.stderr[-3000:]))
    return out, json.load(open(stats))


def brief(ev, n=400):
    e = {k: v for k, v in ev.items() if k not in ("want",)}
    s = json.dumps(e)
    return e if len(s) <= n else json.loads(json.dumps({k: (v if len(json.dumps(v)) < 160 else json.dumps(v)[:160] + "...") for k, v in e.items()}))


# ------------------------------------------------------------------------------------------------
# C17

def check_c17(v, d):
    tier = v.tier
    g, gen = grammar_data(d)
    for which, msg in zip(("plain", "semantic"), g.get("new_parser", [])):
        if msg:
            v.reject("grammar-refused-by-NewParser", {"grammar": which, "error": msg}, {"grammar": which, "error": msg})
    with cf.ThreadPoolExecutor(max_workers=2) as ex:  # table facts and sentence generation are independent
        ft = ex.submit(table_check, gen)
        fc = ex.submit(corpus, gen, *((20, 40, 1) if tier == "quick" else (26, 60, 0)))
        (fails, tstats, tr), (sents, dinfo) = ft.result(), fc.result()
    for f in fails:
        alts = g["plain"].get(f["rule"], [])
        w = dict(f)
        w["alternatives"] = [" ".join(e["v"] for e in a) for a in alts]
        v.reject("table:" + f["fact"], w, {"table_fact": f, "rule": f["rule"], "alternatives": alts})
    sp = os.path.join(d, "sentences.ndjson")
    write_ndjson(sp, sents)
    trace, st = run_driver("parsedrv", ["witness", "-in", sp], d, "witness")
    res = validate("ParserTrace", gen, trace, per_chunk=1500)
    for (ln, prop, cls, ev) in res["rejects"]:
        if prop == "C17":
            v.reject(cls, brief(ev), {"trace_line": ln, "event": ev})
    dead = sorted(res["dead"] or [])
    evs = vlib.read_ndjson(trace)
    for (r, i) in dead:
        mine = [e for e in evs if e.get("r") == r and e.get("i") == i]
        if mine and all(e["want"] != e["kinds"] for e in mine):
            # every sentence generated for this alternative lexed to something else: the harness cannot write
            # the tokens of this alternative (e.g. a token kind added after harness/gram) - not a verdict
            raise Infra("cannot concretise any sentence for alternative %s/%d (e.g. %r lexed as %s)" % (
                r, i, mine[0]["text"], mine[0]["kinds"]))
        alt = g["plain"].get(r, [])
        a = alt[i - 1] if 0 < i <= len(alt) else []
        w = {"rule": r, "alternative": i, "elements": " ".join(e["v"] for e in a) or "(empty)",
             "what": "no generated statement is accepted by the real parser through this alternative"}
        v.reject("dead-alternative", w, w)
    lex_ok = sum(1 for e in evs if e["want"] == e["kinds"])
    acc = sum(1 for e in evs if e["acc"])
    if acc == 0:
        raise Infra("no witness sentence was accepted by the real parser: harness/concretiser broken")
    nalts = tstats["alternatives"]
    v.cov.update({
        "states": dinfo["distinct_states"] + res["states"], "transitions": dinfo["edges"] + res["events"],
        "traces_validated_against_impl": 1,
        "table": tstats, "table_violations": len(fails),
        "derivation_machine": dinfo,
        "witness_events": len(evs), "witness_lexed_as_intended": lex_ok, "witness_accepted": acc,
        "alternatives_taken_by_an_accepted_witness": nalts - len(dead), "alternatives": nalts,
        "rejected_events": len(res["rejects"]),
        "exhaustive": True,
        "samples": [brief(evs[i]) for i in (0, len(evs) // 3, len(evs) - 1)],
    })
    v.assumptions += [
        "the table facts are evaluated by TLC on GrammarData.tla generated from grammar.BQL()/SemanticBQL() of the tree under test (complete for the table)",
        "witness sentences: every expansion step of the derivation machine up to the stack bound, completed with shortest yields; which alternatives a sentence takes is decided by LL1!Run on the kinds the real lexer produced",
        "the concretiser (harness/gram) only proposes texts; a text that lexes differently is judged on what it lexed to",
    ]
    return v.finish()


# ------------------------------------------------------------------------------------------------
# C18

def check_c18(v, d):
    tier = v.tier
    g, gen = grammar_data(d)
    quick = tier == "quick"
    ms, mo = (20, 40) if quick else (24, 60)
    sents, dinfo = corpus(gen, ms, mo, per_context=1 if quick else 0)
    sp = os.path.join(d, "sentences.ndjson")
    write_ndjson(sp, sents)
    # (1) accept / reject: sentences, seeded single-token mutations, sentences followed by further tokens,
    #     every (expected token, offered kind) substitution, all kind sequences up to length 2 (quick: plus a
    #     seeded 2% of length 3; thorough: all of length 3)
    pargs = ["parse", "-in", sp, "-trailing", "-mutations", "2" if quick else "8", "-enum", "3",
             "-enum-keep", "0.02" if quick else "1", "-subst-keep", "1"]
    hargs = ["history", "-in", sp] + (["-bases", "40", "-probes", "12", "-random", "400", "-long", "3", "-long-len", "40000", "-long-every", "1000", "-collected", "60"] if quick
                                      else ["-bases", "160", "-probes", "30", "-random", "6000", "-long", "8", "-long-len", "150000", "-long-every", "2500", "-sem-rejected", "300", "-collected", "600"])

    def part(args, tag, per_chunk):
        trace, st = run_driver("parsedrv", args, d, tag)
        return trace, st, validate("ParserTrace", gen, trace, per_chunk=per_chunk, workers=4 if quick else 7)

    # (2) statelessness: every base statement cut at every token position (and whole), then every probe, on ONE
    #     parser vs a fresh parser; seeded random histories of 2..6 statements.  Both parts run side by side.
    with cf.ThreadPoolExecutor(max_workers=2) as ex:
        fp = ex.submit(part, pargs, "parse", 10000)
        fh = ex.submit(part, hargs, "history", 40000)
        (ptrace, pst, pres), (htrace, hst, hres) = fp.result(), fh.result()
    if pst.get("p:plain-accepted", 0) == 0 or hst.get("a:probe-fresh-accepted", 0) == 0:
        raise Infra("vacuous run: no statement accepted (%s %s)" % (pst, hst))
    nrej = judge_c18(v, pres["rejects"] + hres["rejects"])
    pev = vlib.read_ndjson(ptrace)
    samples = [brief(pev[i]) for i in (0, len(pev) // 2, len(pev) - 1)]
    with open(htrace) as fh:
        for i, ln in enumerate(fh):
            if i in (0, 777):
                samples.append(brief_a(json.loads(ln)))
    v.cov.update({
        "states": dinfo["distinct_states"] + pres["states"] + hres["states"],
        "transitions": dinfo["edges"] + pres["events"] + hres["events"],
        "traces_validated_against_impl": 2,
        "derivation_machine": dinfo,
        "parse_events": {k[2:]: n for k, n in pst.items() if k.startswith("p:")},
        "history_events": {k[2:]: n for k, n in hst.items() if k.startswith("a:")},
        "open_cases_not_judged": pres["opens"] + hres["opens"],
        "rejected_events": nrej,
        "samples": samples,
    })
    v.assumptions += [
        "Accepts = the predictive machine of LL1.tla on the table of the tree under test (C17 checks that the table is LL(1)-shaped, which makes it the recogniser the property describes)",
        "judged on the token kinds the real lexer produced for each text; the parser gets its own lexer for the same text",
        "meaning = projection of semantic.Statement through its exported accessors (harness/cmd/parsedrv: meaning)",
        "a probe whose meaning differs between two FRESH parsers is not judged (open)",
    ]
    return v.finish()


def judge_c18(v, rejects):
    nrej = 0
    for (ln, prop, cls, ev) in rejects:
        if prop != "C18":
            continue
        nrej += 1
        if ev["ev"] == "A":
            if ev.get("src") == "collected":
                # seen only when the Statement of the previous parse was dropped, collected and its memory used again
                v.reject("history-dependent:previous-statement-collected", brief_a(ev), {"trace_line": ln, "event": ev})
            elif ev.get("attr_other") or not ev.get("attr"):
                v.reject("history-dependent:state-outside-hook-closures", brief_a(ev), {"trace_line": ln, "event": ev})
            else:
                # the difference disappears exactly when the closures of these hook families are rebuilt
                for fam in ev["attr"]:
                    v.reject("closure-state-survives-parse:" + fam, brief_a(ev), {"trace_line": ln, "event": ev})
        else:
            v.reject(cls, brief(ev), {"trace_line": ln, "event": ev})
    return nrej


def brief_a(ev):
    diff = [[a, b] for a, b in zip(ev["reused"]["m"], ev["fresh"]["m"]) if a != b][:2]
    return {"history_length": ev.get("hlen", len(ev["hist"])), "history": [[h["text"], "accepted" if h["acc"] else "rejected"] for h in ev["hist"]], "statement": ev["text"],
            "after_history": "accepted" if ev["reused"]["acc"] else "rejected",
            "fresh_parser": "accepted" if ev["fresh"]["acc"] else "rejected", "meaning_differs_in": diff,
            "repaired_by_rebuilding_hooks": ev.get("attr", [])}


# ------------------------------------------------------------------------------------------------
# C16

def btext(ints):
    return bytes(ints).decode("utf-8", "replace")


def brief_run(r):
    return {"input": btext(r["in"]), "capacity": r["cap"], "tokens": [[t["k"], btext(t["t"])] for t in r["toks"]][:12],
            "closed": r["closed"], "timeout": r["timeout"]}


def c16_class(cls, ev):
    """Mechanical refinement of a rejected C16 event: names the deviation only if the input has the
    stated shape AND the observed token stream is exactly the one that deviation produces."""
    if ev["ev"] == "One" and cls == "printed-value-not-one-token":
        inp, toks, kind = ev["in"], ev["toks"], ev["kind"]
        one_error = len(toks) == 1 and toks[0]["k"] == "ERROR"
        if kind in ("PREDICATE", "PREDICATE_BOUND", "LITERAL") and inp.count(34) == 2:
            q2 = len(inp) - 1 - inp[::-1].index(34)  # closing quote
            if q2 >= 1 and inp[q2 - 1] == 92 and one_error and toks[0]["t"] == inp:
                return "backslash-before-closing-quote"
            starts = any(inp[1:1 + len(d)] == list(d) for d in (b"@[", b"^^type:"))
            # only predicates and bounds: a LITERAL whose text starts with a delimiter is lexed as one token
            if starts and kind != "LITERAL" and one_error and toks[0]["t"] == inp[:q2 + 1]:
                return "quoted-text-starts-with-delimiter"
        if kind == "NODE" and 62 in inp[:inp.index(60)] if 60 in inp else False:
            if one_error and toks[0]["t"] == inp[:inp.index(62) + 1]:
                return "node-type-contains-gt"
    return cls


def judge_c16(v, rejects, tag):
    for (ln, prop, cls, ev) in rejects:
        w = {"class": cls, "event": ev["ev"]}
        if ev["ev"] == "Pair":
            w.update({"variant": ev["var"], "a": brief_run(ev["a"]), "b": brief_run(ev["b"])})
        else:
            w.update(brief_run(ev))
            if ev["ev"] == "One":
                w["expected_kind"] = ev["kind"]
        v.reject(c16_class(cls, ev), w, {"trace_line": ln, "mode": tag, "event": ev})
    return len(rejects)


def lexdrv(args, d, tag, v):
    """Runs lexdrv; a driver killed by the code under test (panic in the lexer goroutine) is turned into
    a rejected case by re-running carefully to find the input."""
    out, stats = os.path.join(d, tag + ".ndjson"), os.path.join(d, tag + ".stats")
    cmd = [os.path.join(vlib.BUILD_DIR, "lexdrv")] + args + ["-out", out, "-stats", stats, "-seed", str(vlib.seed())]
    p = vlib.run(cmd, timeout=3600, check=False)
    if p.returncode == 0:
        return out, json.load(open(stats))
    if "panic" not in p.stderr and "fatal error" not in p.stderr:
        raise Infra("lexdrv failed rc=%d: %s" % (p.returncode, p.stderr[-3000:]))
    p2 = vlib.run(cmd + ["-careful"], timeout=7200, check=False)
    cur = [ln for ln in p2.stderr.splitlines() if ln.startswith("CURRENT ")]
    if p2.returncode == 0 or not cur:
        raise Infra("lexdrv crashed (rc=%d) but the crash did not reproduce: %s" % (p.returncode, p.stderr[-2000:]))
    w = {"input": json.loads(cur[-1][8:]), "stderr": p2.stderr[-1500:]}
    v.reject("lexer-crash", w, w)
    raise Infra("lexer crashed the driver on input %r; the case is recorded, the rest of this mode could not run" % w["input"])


def check_c16(v, d):
    tier = v.tier
    quick = tier == "quick"
    mc = vlib.run_tlc("LexerStream", "LexerStream.cfg", workers=2, timeout=600)
    if mc.violation:
        raise Infra("LexerStream.tla violates its own invariants: %s" % mc.violation)
    g, gen = grammar_data(d)
    sents, dinfo = corpus(gen, 20, 40, per_context=1 if quick else 4)
    sp = os.path.join(d, "sentences.ndjson")
    write_ndjson(sp, sents)
    runs = [
        ("exhaustive", ["exhaustive", "-maxlen", "4" if quick else "5"]),
        ("values", ["values"]),
        ("pairs", ["pairs", "-in", sp]),
        ("random", ["random", "-in", sp, "-n", "4000" if quick else "60000"]),
    ]
    stats, states, events, opens, nrej, samples = {}, 0, 0, 0, 0, []

    def mode(run):
        tag, args = run
        trace, st = lexdrv(args, d, tag, v)
        return tag, trace, st, validate("LexerTrace", {}, trace, per_chunk=50000, workers=3 if quick else 6)

    with cf.ThreadPoolExecutor(max_workers=4) as ex:
        done = list(ex.map(mode, runs))
    for tag, trace, st, res in done:
        stats.update(st)
        states += res["states"]
        events += res["events"]
        opens += res["opens"]
        nrej += judge_c16(v, res["rejects"], tag)
        lines = nd_lines(trace)
        e = json.loads(lines[len(lines) // 2])
        samples.append({"mode": tag, "a": brief_run(e["a"]), "b": brief_run(e["b"]), "variant": e["var"]} if e["ev"] == "Pair"
                       else dict(brief_run(e), mode=tag))
    if stats.get("lex:exhaustive", 0) == 0 or stats.get("pair:ws", 0) == 0:
        raise Infra("vacuous run: %s" % stats)
    v.cov.update({
        "states": mc.distinct + states, "transitions": mc.generated + events, "traces_validated_against_impl": len(runs),
        "model": "LexerStream.tla monitor exhaustively checked over a 2-byte alphabet (%d states); %d recorded runs validated" % (mc.distinct, events),
        "events": stats, "open_cases_not_judged": opens, "rejected_events": nrej,
        "exhaustive_alphabet": ["a", "\u00e9", "1", " ", "\"", "\\", "@", "[", "]", "<", "/", "?"],
        "exhaustive_max_length": 4 if quick else 5, "capacities": [0, 1, 2, 8],
        "samples": samples,
    })
    v.assumptions += [
        "which substrings become tokens of which kind is deliberately not specified; only stream well-formedness and the relational facts (case, white space, printed values) are judged",
        "printed values with embedded double quotes and pairs whose two texts both end in a lexer error are not judged (open)",
        "white-space variants only change white space BETWEEN tokens (never inside a token such as 't1, t2' after BETWEEN; a filter function and its '(' count as written together: the repository's tests require 'latest (' to be rejected)",
    ]
    return v.finish()


# ------------------------------------------------------------------------------------------------
# C08

def run_batches(d, cases_path, ncases, v, batch=400, workers=4):
    """Executes cases [0, ncases) with rundrv in child processes. A child killed by the code under test
    (panic in another goroutine, log.Fatalf, OOM) or stopped by the watchdog is an observation: the
    killing case is re-run alone once, recorded as a Crash / Timeout event, and the batch goes on."""
    drv = os.path.join(vlib.BUILD_DIR, "rundrv")
    ranges = [(a, min(a + batch, ncases)) for a in range(0, ncases, batch)]
    stopped = []

    def child(a, b, out, careful=False):
        cmd = [drv, "run", "-cases", cases_path, "-from", str(a), "-to", str(b), "-out", out] + (["-careful"] if careful else [])
        # every third batch runs on ONE processor (GOMAXPROCS=1, as in a one-CPU container): fan-outs bounded by the
        # number of processors then have a single slot
        env = dict(os.environ, GOMAXPROCS="1") if (a // batch) % 3 == 2 else None
        return vlib.run(cmd, timeout=1800, check=False, env=env)

    hung = {"n": 0}    # confirmed Timeout events so far (all batches): after five the verdict is settled, and every
                       # further hanging case costs two watchdog periods

    def one(idx):
        a, b = ranges[idx]
        lines, crashes = [], 0
        while a < b:
            if hung["n"] >= 5:
                stopped.append((a, b))
                break
            out = os.path.join(d, "run-%d-%d.ndjson" % (idx, a))
            p = child(a, b, out)
            got = nd_lines(out) if os.path.exists(out) else []
            lines += got
            if p.returncode == 0:
                break
            if p.returncode == 3:
                raise Infra("rundrv failed: %s" % p.stderr[-2000:])
            last = json.loads(got[-1])["i"] if got else a - 1
            if p.returncode == 9:  # watchdog: the Timeout event is the last line; re-run it alone before it counts
                out2 = os.path.join(d, "rerun-%d.ndjson" % last)
                p2 = child(last, last + 1, out2)
                if p2.returncode != 9:
                    lines[-1:] = nd_lines(out2)
                else:
                    hung["n"] += 1
                a = last + 1
                continue
            killer = last + 1
            crashes += 1
            if crashes > 50:
                raise Infra("more than 50 process crashes in one batch")
            out2 = os.path.join(d, "rerun-%d.ndjson" % killer)
            p2 = child(killer, killer + 1, out2, careful=True)
            if p2.returncode in (0, 9):
                raise Infra("rundrv died (rc=%d) after case %d but case %d alone does not kill it: %s" % (
                    p.returncode, last, killer, p.stderr[-1500:]))
            case = json.loads(nd_lines(cases_path)[killer])
            err = p2.stderr
            m = re.search(r"^(panic: .*|fatal error: .*|.*\[FATAL\].*|\d{4}/\d\d/\d\d .*)$", err, re.M)
            site = ""
            for ln in err.splitlines():
                if ln.startswith("github.com/google/badwolf/"):
                    site = ln[len("github.com/google/badwolf/"):].rsplit("(", 1)[0]
                    break
            lines.append(json.dumps({"ev": "Crash", "i": killer, "src": case["src"], "store": case["store"], "text": case["text"],
                                     "rc": p2.returncode, "msg": (m.group(1) if m else err[-300:])[:300], "site": site,
                                     "outcome": "Crash", "kinds": [], "end": "", "ntok": 0, "stage": "?", "g_before": 0,
                                     "g_after": 0, "lex_only": False, "leaks": []}))
            a = killer + 1
        return lines

    with cf.ThreadPoolExecutor(max_workers=workers) as ex:
        parts = list(ex.map(one, range(len(ranges))))
    if stopped:
        v.notes.append("stopped after five statements that did not return within the watchdog: %d cases not executed" % sum(b - a for a, b in stopped))
    trace = os.path.join(d, "run.ndjson")
    with open(trace, "w") as fh:
        for part in parts:
            for ln in part:
                fh.write(ln + "\n")
    return trace


def brief_r(ev):
    w = {k: ev[k] for k in ("src", "store", "text", "stage", "outcome") if k in ev}
    for k in ("err", "panic", "site", "msg", "leaks", "rc"):
        if ev.get(k):
            w[k] = ev[k] if not isinstance(ev[k], str) else ev[k][:200]
    if ev.get("g_after") != ev.get("g_before"):
        w["goroutines"] = [ev.get("g_before"), ev.get("g_after")]
    w["tokens"] = ev.get("ntok")
    return w


def c08_class(cls, ev):
    """Mechanical refinement: panic / crash classes name the first engine function on the dying stack and
    are attributed to a known finding only if the text has the shape that finding names."""
    if cls in ("panic", "process-killed"):
        site = ev.get("site", "")
        msg = ev.get("panic") or ev.get("msg") or ""
        text = ev["text"]
        if site == "triple/literal.(*unboundBuilder).Parse" and "slice bounds out of range" in msg \
                and re.search(r'"[^"]?"\^\^type:blob', text, re.I):
            return "panic:literal-parse-blob-shorter-than-brackets"
        if site == "triple/predicate.Parse" and "index out of range [-1]" in msg and '@["]' in text:
            return "panic:predicate-parse-anchor-lone-quote"
        if site == "bql/planner.(*queryPlan).specifyClauseWithTable" and "nil pointer dereference" in msg \
                and ev.get("stage") == "execute" and re.search(r'@\[(\?[^,\]]*,[^\]]*|[^,\]]*,\s*\?[^\]]*)\]', text):
            return "panic:time-bound-alias-not-in-row"
        return "%s:%s" % (cls, site or "?")
    return cls


def lexpipe():
    """Layer B model of lexer goroutine || channel || parser (spec/LexPipe.tla): TLC checks that the goroutine
    is left behind exactly when n - taken > Cap, that draining removes the leak, and that <>LexerDone FAILS
    without draining (the counterexample is the leak observed on the real code)."""
    with cf.ThreadPoolExecutor(max_workers=3) as ex:
        rs = list(ex.map(lambda c: vlib.run_tlc("LexPipe", c, workers=1, timeout=600), ("LexPipe.cfg", "LexPipeDrain.cfg", "LexPipeLive.cfg")))
    if rs[0].violation or rs[1].violation:
        raise Infra("LexPipe.tla violates its invariants: %s %s" % (rs[0].violation, rs[1].violation))
    return {"states": rs[0].distinct + rs[1].distinct, "transitions": rs[0].generated + rs[1].generated,
            "lexer_done_fails_without_drain": bool(rs[2].violation)}


def check_c08(v, d):
    tier = v.tier
    quick = tier == "quick"
    with cf.ThreadPoolExecutor(max_workers=1) as ex0:
        fpipe = ex0.submit(lexpipe)
        return check_c08_body(v, d, quick, fpipe)


def check_c08_body(v, d, quick, fpipe):
    g, gen = grammar_data(d)
    sents, dinfo = corpus(gen, 20, 40, per_context=1 if quick else 0)
    sp = os.path.join(d, "sentences.ndjson")
    write_ndjson(sp, sents)
    cases = os.path.join(d, "cases.ndjson")
    args = ["cases", "-in", sp, "-out", cases, "-seed", str(vlib.seed())]
    args += (["-enum", "3", "-enum-keep", "0.02", "-mutations", "2", "-variants", "2", "-random", "3000"] if quick
             else ["-enum", "3", "-enum-keep", "1", "-mutations", "4", "-variants", "4", "-random", "60000"])
    p = vlib.run([os.path.join(vlib.BUILD_DIR, "rundrv")] + args, timeout=1800, check=False)
    if p.returncode != 0:
        raise Infra("rundrv cases failed: %s" % p.stderr[-2000:])
    ncases = int(p.stdout.strip().splitlines()[-1])
    # semantically plausible statements combining every feature of the language, on empty / small / large stores
    import bqlsink
    sink = bqlsink.cases(vlib.seed() * 31 + 5, 1500 if quick else 30000)
    with open(cases, "a") as fh:
        for c in sink:
            fh.write(json.dumps(c) + "\n")
    ncases += len(sink)
    trace = run_batches(d, cases, ncases, v, batch=400 if quick else 1000, workers=4 if quick else 10)
    res = validate("RunTrace", gen, trace, per_chunk=15000)
    evs = vlib.read_ndjson(trace)
    if len(evs) != ncases and not any("did not return within the watchdog" in n for n in v.notes):
        raise Infra("%d events for %d cases" % (len(evs), ncases))
    by = {}
    for e in evs:
        k = "%s/%s" % (e["outcome"], e["stage"])
        by[k] = by.get(k, 0) + 1
    if by.get("Table/done", 0) == 0 or sum(n for k, n in by.items() if k.startswith("Error/execute")) == 0:
        raise Infra("vacuous run: no statement was executed (%s)" % by)
    for (ln, prop, cls, ev) in res["rejects"]:
        v.reject(c08_class(cls, ev), brief_r(ev), {"trace_line": ln, "event": ev})
    drift = len(vlib.parse_printed(res["printed"], "DRIFT"))
    pipe = fpipe.result()
    srcs = {}
    for e in evs:
        srcs[e["src"]] = srcs.get(e["src"], 0) + 1
    picks = [evs[0], evs[len(evs) // 2]] + [e for e in evs if e["outcome"] == "Table" and e.get("rows", 0) > 0][:1] \
        + [e for e in evs if e["src"] == "random"][:1]
    v.cov.update({
        "states": dinfo["distinct_states"] + res["states"] + pipe["states"],
        "transitions": dinfo["edges"] + res["events"] + pipe["transitions"],
        "traces_validated_against_impl": 1,
        "layer_b_lexpipe": pipe,
        "derivation_machine": dinfo, "runs": ncases, "runs_by_source": srcs, "runs_by_outcome_and_stage": by,
        "stores": ["populated (3 graphs, 8 near-miss triples in 2 of them)", "empty", "large (278 / 41 / 0 triples: more rows than twice the processors)"],
        "sink_statements": len(sink), "sink_with_rows": sum(1 for e in evs if e["src"] == "sink" and e.get("rows", 0) > 0),
        "rejected_events": len(res["rejects"]), "layer_b_drift_leak_predicted_not_observed": drift,
        "evaluations": ncases, "distinct_nontrivial": len(set(e["text"] for e in evs if e["stage"] != "parse")),
        "rule": "grammar-generated statements (TLC derivation machine, both alternative orders) with plain and hostile texts, one hostile text at a time per (rule, value token kind), their prefixes, prefix + one token, token mutations, statement + trailing statement, all token-kind sequences up to length 3 (quick: seeded 2% of length 3), seeded random bytes / fragments / byte mutations; non-trivial = distinct texts that passed the parser and reached planning or execution",
        "samples": [brief_r(e) for e in picks],
    })
    v.assumptions += [
        "goroutines are counted by stack dumps filtered to frames inside github.com/google/badwolf/, after settling (every goroutine of the run blocked on a channel / lock in >= 3 samples over >= 300 ms, or a lexer blocked on its channel with no other engine goroutine; still running after 3 s also counts)",
        "watchdog 10 s per run, re-run alone once before a Timeout counts; a child process killed by the engine is re-run alone with the case announced on stderr",
        "memory stores only (storage/memory); driver failures are C20",
    ]
    return v.finish()


# ------------------------------------------------------------------------------------------------

class ReplayVerdict(Verdict):
    """Verdict of a replayed case: same classification and output lines, but the evidence file of the last
    full run is left alone."""

    def finish(self):
        for cls, (n, w) in sorted(self.known.items()):
            f = self.findings.known(self.prop, cls)
            print("KNOWN-FINDING: property=%s %s: %s (replayed; %s)" % (self.prop, cls, f.get("what", ""), json.dumps(w)[:300]))
        for (cls, w, ro) in self.violations[:5]:
            print("VIOLATION property=%s replay=%s" % (self.prop, os.environ.get("VERIF_REPLAY")))
            print("  class=%s witness=%s" % (cls, json.dumps(w)[:600]))
        if not self.known and not self.violations:
            print("replayed case conforms to the specification on this tree")
        return 1 if self.violations else 0


def replay(prop, obj):
    """./check <ID> --replay <file written by a VIOLATION line> (called by ./check with the loaded record): the
    logged input is executed again on the current tree, recorded, validated by the same trace specification
    and classified the same way."""
    d = vlib.scratch("grammar-replay-")
    ev = (obj.get("replay") or {}).get("event")
    v = ReplayVerdict(prop, vlib.tier(), LEVEL[prop])
    if prop == "C17" or ev is None or prop != obj.get("property"):
        if prop == "C17":  # table facts and dead alternatives are facts about the whole table: re-check it
            vlib.build_harness(["grammardump", "parsedrv"])
            return check_c17(v, d)
        raise Infra("nothing to replay for %s in a record of %s" % (prop, obj.get("property")))
    inp = os.path.join(d, "replay.ndjson")
    if prop == "C18":
        vlib.build_harness(["grammardump", "parsedrv"])
        g, gen = grammar_data(d)
        case = {"hist": [h["text"] for h in ev["hist"]], "text": ev["text"]} if ev["ev"] == "A" else {"text": ev["text"], "w": ev["ev"] == "W"}
        write_ndjson(inp, [case])
        trace, _ = run_driver("parsedrv", ["texts", "-in", inp], d, "replayed")
        judge_c18(v, validate("ParserTrace", gen, trace, workers=1)["rejects"])
    elif prop == "C16":
        vlib.build_harness(["grammardump", "lexdrv"])
        if ev["ev"] == "Pair":
            case = {"var": ev["var"], "a": ev["a"]["in"], "b": ev["b"]["in"]}
        elif ev["ev"] == "One":
            case = {"kind": ev["kind"], "quotes": ev["quotes"], "in": ev["in"]}
        else:
            case = {"in": ev["in"]}
        write_ndjson(inp, [case])
        trace, _ = lexdrv(["texts", "-in", inp], d, "replayed", v)
        judge_c16(v, validate("LexerTrace", {}, trace, workers=1)["rejects"], "replay")
    elif prop == "C08":
        vlib.build_harness(["grammardump", "rundrv"])
        g, gen = grammar_data(d)
        write_ndjson(inp, [{"src": "replay", "store": ev.get("store", "populated"), "text": ev["text"]}])
        trace = run_batches(d, inp, 1, v, batch=1, workers=1)
        for (ln, p_, cls, e) in validate("RunTrace", gen, trace, workers=1)["rejects"]:
            v.reject(c08_class(cls, e), brief_r(e), {"trace_line": ln, "event": e})
    return v.finish()


LEVEL = {"C17": "model_checking", "C18": "model_checking", "C16": "model_checking", "C08": "model_checking"}


def check(prop):
    tier = vlib.tier()
    v = Verdict(prop, tier, LEVEL[prop])
    d = vlib.scratch("grammar-")
    if prop == "C17":
        vlib.build_harness(["grammardump", "parsedrv"])
        return check_c17(v, d)
    if prop == "C18":
        vlib.build_harness(["grammardump", "parsedrv"])
        return check_c18(v, d)
    if prop == "C16":
        vlib.build_harness(["grammardump", "lexdrv"])
        return check_c16(v, d)
    if prop == "C08":
        vlib.build_harness(["grammardump", "rundrv"])
        return check_c08(v, d)
    raise Infra("property %s not implemented in fam_grammar" % prop)
