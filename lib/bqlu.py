"""BQL universe: universe/bql.json (shared with the Go driver) and the generated BqlU.tla tables.

Cells are {"k": kind, "v": int} (see spec/BQLSemantics.tla).  All ordering information (ranks of
printed forms, instants) is computed HERE from the documented printed forms, never by the code
under test.
"""
import json
import os

from vlib import VERIF, tla_val

PATH = os.path.join(VERIF, "universe", "bql.json")

INSTANTS = [  # rank = index + 1, canonical RFC3339Nano spelling (UTC), strictly increasing
    "2019-03-01T00:00:00Z",
    "2020-01-01T00:00:00Z",
    "2020-01-01T01:00:00Z",
    "2020-06-01T12:30:00.5Z",
    "2021-11-11T11:11:11Z",
    "2021-11-11T11:11:11.000000011Z",
    "2525-05-05T05:05:05Z",   # rank 7: beyond the range of int64 UnixNano (1678..2262), where UnixNano() wraps
]
# other spellings of the same instants (other zones) used in query texts and for some stored anchors
ALT_SPELLINGS = {2: "2020-01-01T02:00:00+02:00", 4: "2020-06-01T05:30:00.5-07:00"}

STR = ["/u", "/v", "a", "b", "c", "p", "q", "r", "ab", "B", "_", "s",
       "/_", "v", "_subject", "_predicate", "_object", "n",
       "a b", "a!"]  # index+1 = string id; the last two: the character after the common prefix is smaller than '"'
                     # (lexicographically "a" < "a b", while the QUOTED forms order the other way round)


def sid(s):
    return STR.index(s) + 1


NODES = [("/u", "a"), ("/u", "b"), ("/v", "a"), ("/u", "c"), ("/v", "ab"), ("/_", "v")]  # 6 = what '_:v' denotes
PREDS = [  # (id, tmp, rank[, stored spelling of the anchor])
    ("p", False, 0), ("p", True, 2), ("p", True, 4), ("q", False, 0), ("q", True, 2), ("q", True, 6),
    ("r", True, 1), ("r", False, 0), ("p", True, 1), ("a", False, 0), ("a", True, 2),
    ("s", True, 2, "2020-01-01T02:00:00+02:00"),  # 12: stored with a +02:00 anchor
    ("s", True, 3), ("s", True, 5), ("s", True, 6),  # 13, 14, 15
]


# closure: every (identifier, immutable | instant) a CONSTRUCT template can build, after the first
# 15 hand-picked entries (indices of those stay stable)
_have = {(e[0], e[1], e[2]) for e in PREDS}
for _id in ["p", "q", "r", "a", "s", "n", "_subject", "_predicate", "_object"]:
    for _n in range(0, len(INSTANTS) + 1):
        _k = (_id, _n > 0, _n)
        if _k not in _have:
            PREDS.append(_k)
            _have.add(_k)


def pred_index(pid, n):
    """index (1-based) of the canonical predicate with identifier pid at instant rank n (0 = immutable)"""
    for i, e in enumerate(PREDS):
        if e[0] == pid and e[2] == n and e[1] == (n > 0) and len(e) == 3:
            return i + 1
    for i, e in enumerate(PREDS):
        if e[0] == pid and e[2] == n and e[1] == (n > 0):
            return i + 1
    raise KeyError((pid, n))


def pred_anchor(i):
    e = PREDS[i - 1]
    if not e[1]:
        return ""
    return e[3] if len(e) > 3 else INSTANTS[e[2] - 1]


def N(i):
    return {"k": "N", "v": i}


def P(i):
    return {"k": "P", "v": i}


def I(v):
    return {"k": "I", "v": v}


# int64 cells beyond what TLC integers hold: the abstract value BIG + d (0 <= d < 2^20) stands for the int64
# 2^53 + d (and -(BIG + d) for -(2^53 + d)): neighbours that float64 cannot tell apart. The mapping is
# strictly monotone, so every comparison TLC makes on abstract values is the comparison of the numbers;
# sums over such cells are not judged (BQLSemantics.SumJudgeable).
BIG = 1 << 29
BIGBASE = 1 << 53


def int_actual(v):
    a = abs(v)
    if a < BIG // 2:
        return v
    q = (a + BIG // 2) // BIG          # q * BIG + r (|r| < 2^22) stands for q * 2^53 + r, see harness/bqlu IntActual
    x = q * BIGBASE + (a - q * BIG)
    return x if v > 0 else -x


FSCALE = 1 << 24  # float64 cells carry value * 2^24 (exact for the values used; |value| < 64)


def F(q):  # q = 4 * value (quarters)
    return {"k": "F", "v": q * (FSCALE // 4)}


def FE(units):  # units = value * 2^24: floats that differ only far below the 6th decimal
    return {"k": "F", "v": units}


def X(s):
    return {"k": "X", "v": sid(s)}


def B(v):
    return {"k": "B", "v": v}


TRIPLES = [  # (s, p, o)
    (1, 1, N(2)),    # 1  /u<a> p@[]   /u<b>
    (1, 2, N(2)),    # 2  /u<a> p@[i2] /u<b>
    (1, 3, N(2)),    # 3  /u<a> p@[i3] /u<b>
    (2, 1, N(3)),    # 4  /u<b> p@[]   /v<a>
    (2, 1, N(1)),    # 5  /u<b> p@[]   /u<a>
    (1, 4, I(-5)),   # 6  /u<a> q@[]   -5
    (2, 4, I(-3)),   # 7  /u<b> q@[]   -3
    (3, 4, I(2)),    # 8  /v<a> q@[]   2
    (1, 4, F(5)),    # 9  /u<a> q@[]   1.25
    (2, 4, F(-2)),   # 10 /u<b> q@[]   -0.5
    (1, 4, X("a")),  # 11 /u<a> q@[]   "a"^^text
    (2, 4, X("b")),  # 12 /u<b> q@[]   "b"^^text
    (1, 5, N(2)),    # 13 /u<a> q@[i2] /u<b>
    (2, 6, N(1)),    # 14 /u<b> q@[i4] /u<a>
    (3, 7, P(2)),    # 15 /v<a> r@[i1] p@[i2]
    (3, 8, P(1)),    # 16 /v<a> r@[]   p@[]
    (2, 7, P(3)),    # 17 /u<b> r@[i1] p@[i3]
    (1, 4, B(1)),    # 18 /u<a> q@[]   true
    (3, 1, N(3)),    # 19 /v<a> p@[]   /v<a>   (subject = object)
    (2, 9, N(1)),    # 20 /u<b> p@[i1] /u<a>
    (4, 4, I(10)),   # 21 /u<c> q@[]   10
    (4, 1, N(1)),    # 22 /u<c> p@[]   /u<a>
    (1, 10, N(2)),   # 23 /u<a> a@[]   /u<b>   (predicate id = a node id)
    (2, 11, X("ab")),  # 24 /u<b> a@[i2] "ab"^^text
    (5, 4, I(2)),    # 25 /v<ab> q@[] 2
    (1, 12, I(1)),   # 26 /u<a> s@[i2 (+02:00)] 1
    (1, 13, I(2)),   # 27 /u<a> s@[i3] 2
    (1, 14, I(-3)),  # 28 /u<a> s@[i5] -3
    (2, 15, I(-5)),  # 29 /u<b> s@[i6] -5
    (2, 13, F(-6)),  # 30 /u<b> s@[i3] -1.5
    (2, 4, F(-6)),   # 31 /u<b> q@[] -1.5
    (1, 4, FE(FSCALE + 1)),  # 32 /u<a> q@[] 1.0000000596...  (1 + 2^-24)
    (2, 4, FE(FSCALE + 2)),  # 33 /u<b> q@[] 1.0000001192...  (1 + 2^-23): equal to 32 up to 6 decimals
    (4, 4, FE(FSCALE + 1)),  # 34 /u<c> q@[] 1 + 2^-24 again (same value as 32)
    (1, 4, I(BIG)),          # 35 /u<a> q@[] 9007199254740992  (2^53)
    (2, 4, I(BIG + 1)),      # 36 /u<b> q@[] 9007199254740993  (2^53 + 1: the same float64 as 2^53)
    (4, 4, I(-(BIG + 1))),   # 37 /u<c> q@[] -9007199254740993
    (3, 4, I(BIG + 2)),      # 38 /v<a> q@[] 9007199254740994
    (4, 12, I(7), "2020-01-01T00:00:00Z"),  # 39 /u<c> s@[i2] 7: the predicate of 26, here stored in UTC; the text of
                             #    s@[i3] (27) sorts between the two spellings
    (4, 1, FE(3)),           # 40 /u<c> p@[] 1.7881393432617188e-07 (3 * 2^-24)
    (4, 1, FE(5)),           # 41 /u<c> p@[] 2.980232238769531e-07  (5 * 2^-24): both print as 0.000000 with 6 decimals
    (1, ("s", 7), I(4)),     # 42 /u<a> s@[i7] 4: anchored in 2525, outside the UnixNano range
    (2, ("p", 7), N(1)),     # 43 /u<b> p@[i7] /u<a>
    (3, 4, X("a b")),        # 44 /v<a> q@[] "a b"^^text
    (4, 4, X("a!")),         # 45 /u<c> q@[] "a!"^^text
]
TRIPLES = [(t[0], pred_index(*t[1]) if isinstance(t[1], tuple) else t[1]) + tuple(t[2:]) for t in TRIPLES]

# predicates some triple stores in a second spelling: their printed form (hence their ORDER BY rank) is not a
# function of the value; key columns holding them are not judged (pr = 0)
AMBIGUOUS_PREDS = {t[1] for t in TRIPLES if len(t) > 3}
TRIPLE_ANCHOR = {i + 1: t[3] for i, t in enumerate(TRIPLES) if len(t) > 3}
TRIPLES = [t[:3] for t in TRIPLES]


def node_text(i):
    t, d = NODES[i - 1]
    return "%s<%s>" % (t, d)


def pred_text(i, alt=False, stored=False):
    """query text of a predicate constant (alt: other zone); stored=True: the printed form of the
    stored value (its own anchor spelling), used for the printed-form ranks"""
    d, tmp, n = PREDS[i - 1][:3]
    if not tmp:
        return '"%s"@[]' % d
    if stored:
        return '"%s"@[%s]' % (d, pred_anchor(i))
    spell = ALT_SPELLINGS[n] if alt and n in ALT_SPELLINGS else INSTANTS[n - 1]
    return '"%s"@[%s]' % (d, spell)


def time_text(n, alt=False):
    return ALT_SPELLINGS[n] if alt and n in ALT_SPELLINGS else INSTANTS[n - 1]


def fmt_float(q):
    v = q / float(FSCALE)
    s = repr(v)
    if s.endswith(".0"):
        s = s[:-2]
    return s


def cell_text(c, alt=False):
    k, v = c["k"], c["v"]
    if k == "N":
        return node_text(v)
    if k == "P":
        return pred_text(v, alt)
    if k == "I":
        return '"%d"^^type:int64' % int_actual(v)
    if k == "F":
        return '"%s"^^type:float64' % fmt_float(v)
    if k == "X":
        return '"%s"^^type:text' % STR[v - 1]
    if k == "B":
        return '"%s"^^type:bool' % ("true" if v else "false")
    if k == "T":
        return time_text(v, alt)
    raise ValueError(c)


def ranks(items):
    """bytewise rank (1-based, equal items share a rank) of a list of strings"""
    order = sorted(set(x.encode() for x in items))
    return [order.index(x.encode()) + 1 for x in items]


def universe():
    return {
        "instants": INSTANTS,
        "str": STR,
        "nodes": [{"type": t, "id": d} for t, d in NODES],
        "preds": [{"id": e[0], "tmp": e[1], "n": e[2], "anchor": pred_anchor(i + 1)} for i, e in enumerate(PREDS)],
        "triples": [{"s": s, "p": p, "o": o, "anchor": TRIPLE_ANCHOR.get(i + 1, "")} for i, (s, p, o) in enumerate(TRIPLES)],
    }


def write_json():
    with open(PATH, "w") as fh:
        json.dump(universe(), fh, indent=1)


def bqlu_tla():
    npr = ranks([node_text(i + 1) for i in range(len(NODES))])
    ppr = ranks([pred_text(i + 1, stored=True) for i in range(len(PREDS))])
    spr = ranks(STR)
    xpr = ranks(['"%s"^^type:text' % s for s in STR])
    node = [{"ty": sid(t), "id": sid(d), "pr": npr[i]} for i, (t, d) in enumerate(NODES)]
    pred = [{"id": sid(e[0]), "tmp": e[1], "n": e[2], "pr": 0 if (i + 1) in AMBIGUOUS_PREDS else ppr[i]} for i, e in enumerate(PREDS)]
    tri = [{"s": s, "p": p, "o": o} for s, p, o in TRIPLES]
    strpr = [{"s": spr[i], "x": xpr[i]} for i in range(len(STR))]
    return "\n".join([
        "---- MODULE BqlU ----", "EXTENDS Integers",
        "\\* GENERATED by lib/bqlu.py - do not edit",
        "NODE == %s" % tla_val(node),
        "PRED == %s" % tla_val(pred),
        "TRI == %s" % tla_val(tri),
        "NTRI == %d" % len(tri),
        "STRPR == %s" % tla_val(strpr),
        "NSTR == %d" % len(STR),
        "NINST == %d" % len(INSTANTS),
        "BIGINT == %d" % BIG,
        "STRID_SUBJECT == %d" % sid("_subject"),
        "STRID_PREDICATE == %d" % sid("_predicate"),
        "STRID_OBJECT == %d" % sid("_object"),
        "====", ""])


if __name__ == "__main__":
    write_json()
    print(bqlu_tla()[:300])
