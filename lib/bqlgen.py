"""Generation and rendering of BQL queries as ASTs in the shape spec/BQLSemantics.tla reads.

AST clause = {"opt", "s":{c,b,as,ty,id}, "p":{c,b,as,id,at,pid,ab,bd,lo,hi},
              "o":{ck,cv,b,as,ty,id,at,pid,ab,bd,lo,hi}}   ("" / 0 / False = absent)
"""
import copy
import random

import bqlu

GNAMES = ["?g1", "?g2", "?g3"]


def S(c=0, b="", as_="", ty="", id=""):
    return {"c": c, "b": b, "as": as_, "ty": ty, "id": id}


def P(c=0, b="", as_="", id="", at="", pid=0, ab="", bd=False, lo=0, hi=0, lb="", ub=""):
    """lb / ub: a bound written with a binding ("id"@[?lo,?hi]); the binding is an input of the clause"""
    return {"c": c, "b": b, "as": as_, "id": id, "at": at, "pid": pid, "ab": ab, "bd": bd, "lo": lo, "hi": hi, "lb": lb, "ub": ub}


def O(cell=None, b="", as_="", ty="", id="", at="", pid=0, ab="", bd=False, lo=0, hi=0, lb="", ub=""):
    return {"ck": cell["k"] if cell else "", "cv": cell["v"] if cell else 0, "b": b, "as": as_, "ty": ty, "id": id,
            "at": at, "pid": pid, "ab": ab, "bd": bd, "lo": lo, "hi": hi, "lb": lb, "ub": ub}


def clause(s, p, o, opt=False):
    return {"opt": opt, "s": s, "p": p, "o": o}


def names_of(c):
    s, p, o = c["s"], c["p"], c["o"]
    ns = [s["b"], s["as"], s["ty"], s["id"], p["b"], p["as"], p["id"], p["at"], p["ab"],
          o["b"], o["as"], o["ty"], o["id"], o["at"], o["ab"]]
    return [n for n in ns if n]


def pattern_names(clauses):
    seen = []
    for c in clauses:
        for n in names_of(c):
            if n not in seen:
                seen.append(n)
    return seen


# ------------------------------------------------------------------------------------- rendering
def _bound(pid, lo, hi, alt, lb="", ub=""):
    return '"%s"@[%s,%s]' % (bqlu.STR[pid - 1], lb or (bqlu.time_text(lo, alt) if lo else ""), ub or (bqlu.time_text(hi, alt) if hi else ""))


def render_clause(c, alt=False):
    s, p, o = c["s"], c["p"], c["o"]
    out = []
    out.append(bqlu.node_text(s["c"]) if s["c"] else s["b"])
    if s["as"]:
        out.append("AS " + s["as"])
    if s["ty"]:
        out.append("TYPE " + s["ty"])
    if s["id"]:
        out.append("ID " + s["id"])
    if p["c"]:
        out.append(bqlu.pred_text(p["c"], alt))
    elif p["b"]:
        out.append(p["b"])
    elif p["bd"]:
        out.append(_bound(p["pid"], p["lo"], p["hi"], alt, p.get("lb", ""), p.get("ub", "")))
    else:
        out.append('"%s"@[%s]' % (bqlu.STR[p["pid"] - 1], p["ab"]))
    if p["as"]:
        out.append("AS " + p["as"])
    if p["id"]:
        out.append("ID " + p["id"])
    if p["at"]:
        out.append("AT " + p["at"])
    if o["ck"]:
        out.append(bqlu.cell_text({"k": o["ck"], "v": o["cv"]}, alt))
    elif o["b"]:
        out.append(o["b"])
    elif o["bd"]:
        out.append(_bound(o["pid"], o["lo"], o["hi"], alt, o.get("lb", ""), o.get("ub", "")))
    else:
        out.append('"%s"@[%s]' % (bqlu.STR[o["pid"] - 1], o["ab"]))
    if o["as"]:
        out.append("AS " + o["as"])
    if o["ty"]:
        out.append("TYPE " + o["ty"])
    if o["id"]:
        out.append("ID " + o["id"])
    if o["at"]:
        out.append("AT " + o["at"])
    txt = " ".join(out)
    return "OPTIONAL { %s }" % txt if c["opt"] else txt


def render_where(clauses, alt=False):
    return " . ".join(render_clause(c, alt) for c in clauses)


def render_select(q):
    """q: {proj:[(binding, outer_alias)], ngraphs, clauses, glo, ghi, alt, group:[..], aggs, order, having, limit}"""
    alt = q.get("alt", False)
    cols = []
    for item in q["select"]:
        cols.append(item)
    where = render_where(q["clauses"], alt)
    for f in q.get("filters") or []:
        where += " . FILTER %s(%s)" % (f["op"], f["b"])
    txt = "SELECT %s FROM %s WHERE { %s }" % (", ".join(cols), ", ".join(GNAMES[:q["ngraphs"]]), where)
    if q.get("group"):
        txt += " GROUP BY " + ", ".join(q["group"])
    if q.get("order"):
        txt += " ORDER BY " + ", ".join("%s %s" % (b, "DESC" if d else "ASC") for b, d in q["order"])
    if q.get("having"):
        txt += " HAVING " + q["having"]
    glo, ghi = q.get("glo", 0), q.get("ghi", 0)
    if glo and ghi:
        txt += " BETWEEN %s, %s" % (bqlu.time_text(glo, alt), bqlu.time_text(ghi, alt))
    elif glo:
        txt += " AFTER " + bqlu.time_text(glo, alt)
    elif ghi:
        txt += " BEFORE " + bqlu.time_text(ghi, alt)
    if q.get("limit") is not None:
        txt += " LIMIT " + q["limit"]
    return txt + ";"


# ------------------------------------------------------------------------------------- generation
NODE_CONSTS = [1, 2, 3]
PRED_CONSTS = [1, 2, 4, 5, 10, 7, 12, 14]
PIDS = [bqlu.sid("p"), bqlu.sid("q"), bqlu.sid("a"), bqlu.sid("r"), bqlu.sid("s")]
BOUNDS = [(0, 0), (2, 0), (0, 2), (2, 4), (4, 4), (1, 6), (3, 5)]
OBJ_CONSTS = [bqlu.N(2), bqlu.N(1), bqlu.I(-5), bqlu.X("a"), bqlu.P(2), bqlu.P(1), bqlu.F(5), bqlu.B(1), bqlu.I(2)]
VARS = ["?a", "?b", "?c", "?d", "?e"]


class Gen:
    def __init__(self, seed):
        self.rng = random.Random(seed)
        self.fresh = 0

    def var(self, pool):
        return self.rng.choice(pool)

    def alias(self, pool, p_shared=0.15):
        """an alias name: usually fresh, sometimes from the pool (creates repeated bindings)"""
        if self.rng.random() < p_shared:
            return self.rng.choice(pool)
        self.fresh += 1
        return "?x%d" % self.fresh

    def subj(self, pool, p_const=0.3, p_alias=0.25):
        r = self.rng
        s = S(c=r.choice(NODE_CONSTS)) if r.random() < p_const else S(b=self.var(pool))
        if r.random() < p_alias:
            s["as"] = self.alias(pool)
        if r.random() < p_alias:
            s["ty"] = self.alias(pool)
        if r.random() < p_alias:
            s["id"] = self.alias(pool)
        return s

    def pred(self, pool, p_alias=0.25):
        r = self.rng
        x = r.random()
        if x < 0.35:
            p = P(c=r.choice(PRED_CONSTS))
        elif x < 0.65:
            p = P(b=self.var(pool))
        elif x < 0.85:
            p = P(pid=r.choice(PIDS), ab=self.var(pool + ["?t", "?t2"]))
        else:
            lo, hi = r.choice(BOUNDS)
            p = P(pid=r.choice(PIDS), bd=True, lo=lo, hi=hi)
        if r.random() < p_alias:
            p["as"] = self.alias(pool)
        if r.random() < p_alias:
            p["id"] = self.alias(pool)
        if r.random() < p_alias and not p["bd"]:
            p["at"] = self.alias(pool + ["?t"])
        return p

    def obj(self, pool, p_alias=0.25):
        r = self.rng
        x = r.random()
        if x < 0.3:
            cell = r.choice(OBJ_CONSTS)
            o = O(cell=cell)
            kinds = {"N": ["as", "ty", "id"], "P": ["as", "id", "at"]}.get(cell["k"], ["as"])
        elif x < 0.8:
            o = O(b=self.var(pool))
            kinds = ["as", "ty", "id", "at"]
        elif x < 0.92:
            o = O(pid=r.choice(PIDS), ab=self.var(pool + ["?t", "?t2"]))
            kinds = ["as", "id", "at"]
        else:
            lo, hi = r.choice(BOUNDS)
            o = O(pid=r.choice(PIDS), bd=True, lo=lo, hi=hi)
            kinds = ["as", "id"]
        for k in kinds:
            if r.random() < p_alias:
                o[k] = self.alias(pool + (["?t"] if k == "at" else []))
        return o

    def clause(self, pool, opt=False, p_alias=0.25):
        return clause(self.subj(pool, p_alias=p_alias), self.pred(pool, p_alias=p_alias), self.obj(pool, p_alias=p_alias), opt)

    def seeded_clause(self, content, valvar, pool, opt=False, p_alias=0.15):
        """a clause obtained by abstracting a triple of the content: it is guaranteed to match that
        triple; equal values get the same variable (valvar: value-key -> name) so clauses join."""
        r = self.rng
        t = bqlu.TRIPLES[r.choice(content) - 1]
        s_, p_, o_ = t

        def var_for(key):
            if key in valvar and r.random() < 0.85:
                return valvar[key]
            free = [v for v in pool if v not in valvar.values()] or pool
            name = r.choice(free)
            valvar.setdefault(key, name)
            return name

        s = S(c=s_) if r.random() < 0.3 else S(b=var_for(("N", s_)))
        pid, tmp, n = bqlu.PREDS[p_ - 1][:3]
        x = r.random()
        if x < 0.4:
            p = P(c=p_)
        elif x < 0.7 or not tmp:
            p = P(b=var_for(("P", p_)))
        elif x < 0.85:
            p = P(pid=bqlu.sid(pid), ab=var_for(("T", n)))
        else:
            lo, hi = r.choice([(0, 0), (n, 0), (0, n), (n, n), (max(1, n - 1), min(len(bqlu.INSTANTS), n + 1))])
            p = P(pid=bqlu.sid(pid), bd=True, lo=lo, hi=hi)
        x = r.random()
        kinds = ["as", "ty", "id", "at"]
        if x < 0.3:
            o = O(cell=o_)
            kinds = {"N": ["as", "ty", "id"], "P": ["as", "id", "at"]}.get(o_["k"], ["as"])
        elif o_["k"] == "P" and bqlu.PREDS[o_["v"] - 1][1] and x < 0.45:
            opid, _, on = bqlu.PREDS[o_["v"] - 1][:3]
            o = O(pid=bqlu.sid(opid), ab=var_for(("T", on)))
            kinds = ["as", "id", "at"]
        else:
            o = O(b=var_for((o_["k"], o_["v"])))
        # aliases: a fresh name, or (value-consistently, so that the join is satisfiable) the variable that already
        # stands for the extracted value: AT for the instant, ID / TYPE for the string, AS for the value itself
        def al(key):
            if key is not None and r.random() < 0.35:
                return var_for(key)
            return self.alias(pool, 0.05)

        sty, sid_ = bqlu.NODES[s_ - 1]
        if r.random() < p_alias:
            s["as"] = al(("N", s_))
        if r.random() < p_alias:
            s["ty"] = al(("S", sty))
        if r.random() < p_alias:
            s["id"] = al(("S", sid_))
        if r.random() < p_alias:
            p["as"] = al(("P", p_))
        if r.random() < p_alias:
            p["id"] = al(("S", pid))
        if r.random() < p_alias and not p["bd"]:
            p["at"] = al(("T", n) if tmp else None)
        for k in kinds:
            if r.random() < p_alias:
                key = None
                if k == "as":
                    key = (o_["k"], o_["v"])
                elif o_["k"] == "N":
                    key = ("S", bqlu.NODES[o_["v"] - 1][0 if k == "ty" else 1]) if k in ("ty", "id") else None
                elif o_["k"] == "P":
                    oe = bqlu.PREDS[o_["v"] - 1]
                    key = ("S", oe[0]) if k == "id" else (("T", oe[2]) if k == "at" and oe[1] else None)
                o[k] = al(key)
        return clause(s, p, o, opt)

    def content(self, lo=5, hi=11):
        n = self.rng.randint(lo, hi)
        return sorted(self.rng.sample(range(1, len(bqlu.TRIPLES) + 1), n))

    def split(self, content, ngraphs, overlap=False):
        gs = [[] for _ in range(ngraphs)]
        for t in content:
            gs[self.rng.randrange(ngraphs)].append(t)
            if overlap and self.rng.random() < 0.25:
                g2 = self.rng.randrange(ngraphs)
                if t not in gs[g2]:
                    gs[g2].append(t)
        return [sorted(g) for g in gs]

    def bounds(self):
        return self.rng.choice([(0, 0), (0, 0), (0, 0), (2, 0), (0, 4), (2, 4), (4, 4), (3, 5)])

    def proj(self, clauses, p_all=0.6):
        ns = pattern_names(clauses)
        if not ns:
            return []
        if self.rng.random() < p_all:
            return ns
        k = self.rng.randint(1, len(ns))
        return self.rng.sample(ns, k)


def specific(c):
    """fully specified clause (constants in all three positions)"""
    return bool(c["s"]["c"] and c["p"]["c"] and c["o"]["ck"])


def clone(x):
    return copy.deepcopy(x)
