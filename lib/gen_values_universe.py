#!/usr/bin/env python3
"""Writes universe/values.json: the near-miss universe of the value family (C05, C06, C15).

Built to contain the pairs the properties name: node type/id boundary shifts; one predicate id as
immutable and temporal, at two instants, the same instant in two zones, instants 2^64 ns apart; the
same characters as bool/text/blob/int64/float64; predicate ids that spell a literal type tag or a node
type; int64 at the edges of the 8-byte varint buffer; -0/+0; ids with quotes, brackets, backslashes,
non-ASCII.  Deterministic (no randomness); values are listed components-first so that objects and
triples can refer to them by index.
"""
import json
import os
import sys

sys.path.insert(0, os.path.dirname(os.path.abspath(__file__)))
from valuesu import node, imm, tmp, lit, obj, triple, fbits, varint, unixnano, UNI  # noqa: E402

T1 = 1136239445  # 2006-01-02T22:04:05Z
T2 = 1483228799  # 2016-12-31T23:59:59Z
WRAP_S, WRAP_NS = 18446744073, 709551616  # 2^64 ns


def main():
    nodes = [
        node("/a/b", "c"), node("/a", "/bc"), node("/a", "b/c"), node("/ab", "/c"), node("/a", "b"),
        node("/a", "bimmutable"), node("/_", "x"), node("/t", "s"), node("/t", "o"), node("/t", "é\"@[]"),
        node("/a/b", "/c"), node("/a", "/b/c"), node("/text:x", "immutable"),
        # blank nodes whose ids are different SPELLINGS of one UUID (different strings, hence different nodes)
        node("/_", "4a56bf17-5b52-4d5c-9d3f-0a1b2c3d4e5f"), node("/_", "4A56BF17-5B52-4D5C-9D3F-0A1B2C3D4E5F"),
        node("/_", "urn:uuid:4a56bf17-5b52-4d5c-9d3f-0a1b2c3d4e5f"), node("/_", "{4a56bf17-5b52-4d5c-9d3f-0a1b2c3d4e5f}"),
    ]
    v16 = varint(unixnano(T1, 5))
    v16 = bytes(v16 + [0] * (16 - len(v16)))
    preds = [
        imm("p"), tmp("p", T1, 5), tmp("p", T1, 5, 3600), tmp("p", T1, 5, -25200), tmp("p", T2, 100000000, 19800),
        tmp("p", T1, 6), tmp("p", T1 + WRAP_S + (5 + WRAP_NS) // 10 ** 9, (5 + WRAP_NS) % 10 ** 9),
        imm("text:x"), imm("/ab"), imm("blob:x"), tmp("text:a", T1, 5), imm("pimmutable"), imm("int64:"),
        imm("bool:true"), imm("q\"@[x]\\"), imm("é"), tmp("é", T2), imm("/text:x"), imm("text:"),
        # near misses of PLAUSIBLE OTHER ENCODINGS (Identity.tla, Variants): the anchor written as an unpadded varint
        # (UnixNano -51 is the single byte 'e': "foo"+"immutable" = "fooimmutabl"+'e'), or as decimal text
        # ("k"+"123" = "k1"+"23")
        imm("foo"), tmp("fooimmutabl", -1, 999999949), tmp("k", 0, 123), tmp("k1", 0, 23),
        # one instant written in two zones so that it falls into two calendar YEARS, at the edges of the UnixNano range
        tmp("y", -9214561800), tmp("y", -9214561800, 0, 3600), tmp("y", 9214644600), tmp("y", 9214644600, 0, 3600),
    ]
    lits = [
        lit("bool", True), lit("bool", False), lit("text", b"true"), lit("text", b"false"), lit("blob", b"true"),
        lit("text", b"1"), lit("int64", 1), lit("float64", fbits(1.0)), lit("int64", 0), lit("int64", -1),
        lit("int64", 63), lit("int64", 64), lit("int64", -64), lit("int64", -65),
        lit("int64", 2 ** 55 - 1), lit("int64", 2 ** 55), lit("int64", -2 ** 55), lit("int64", -2 ** 55 - 1),
        lit("int64", 2 ** 63 - 1), lit("int64", -2 ** 63),
        lit("float64", fbits(0.0)), lit("float64", fbits(-0.0)), lit("float64", fbits(0.25)), lit("float64", fbits(float("inf"))),
        lit("float64", "0000000000000001"),
        lit("text", b"ximmutable"), lit("blob", b"ximmutable"), lit("text", b""), lit("blob", b""), lit("text", b"x"),
        lit("blob", b"x"), lit("text", b"a" + v16), lit("text", b"text:x"), lit("text", b"a"), lit("text", b"a\x00"),
        lit("text", b"immutable"), lit("text", b"\xff\xfe"), lit("blob", b"\xff\xfe"),
        lit("int64", 2 ** 56),      # with 2^55: varints that agree in their first eight bytes
    ]
    values = nodes + preds + lits
    objs = [obj(v) for v in values]
    s, o = node("/t", "s"), node("/t", "o")
    p = imm("p")
    P = {k: v for k, v in enumerate(preds)}
    triples = [
        triple(nodes[0], p, o), triple(nodes[1], p, o), triple(nodes[2], p, o), triple(nodes[3], p, o),  # boundary in the subject
        triple(s, p, nodes[0]), triple(s, p, nodes[1]),                                                    # ... in the object
        triple(s, p, preds[7]), triple(s, p, lits[25]),            # "text:x"@[] vs "ximmutable"^^type:text
        triple(s, p, preds[8]), triple(s, p, nodes[5]),            # "/ab"@[] vs /a<bimmutable>
        triple(s, p, preds[9]), triple(s, p, lits[26]),            # "blob:x"@[] vs blob
        triple(s, p, preds[10]), triple(s, p, lits[31]),           # "text:a"@[t1] vs text a+varint
        triple(s, P[1], o), triple(s, P[2], o), triple(s, P[5], o), triple(s, P[6], o), triple(s, p, o), triple(s, P[4], o),
        triple(s, p, lits[0]), triple(s, p, lits[2]), triple(s, p, lits[4]),   # true as bool / text / blob
        triple(s, p, lits[6]), triple(s, p, lits[7]), triple(s, p, lits[5]),   # 1 as int64 / float64 / text
        triple(s, p, lits[14]), triple(s, p, lits[15]), triple(s, p, lits[18]),  # int64 around 2^55
        triple(s, p, lits[20]), triple(s, p, lits[21]),                        # +0 / -0
        triple(s, P[14], lits[29]), triple(nodes[9], P[16], o),
        triple(s, p, P[1]), triple(s, p, P[2]),                                 # predicate-valued objects, same instant
        triple(s, P[19], o), triple(s, P[20], o), triple(s, P[21], o), triple(s, P[22], o),   # the other-encoding near misses
        triple(s, p, lits[15]), triple(s, p, lits[38]),
        triple(nodes[13], p, o), triple(nodes[14], p, o), triple(s, p, nodes[15]), triple(s, p, nodes[16]),   # blank node spellings
        triple(s, P[23], o), triple(s, P[24], o), triple(s, P[25], o), triple(s, P[26], o),                 # year-edge anchors
    ]
    allv = values + objs + triples
    # every component of a triple must itself be listed (Identity.tla refers to them by index)
    for t in triples:
        for c in (t["s"], t["p"], t["o"]):
            assert c in values, c
    with open(UNI, "w") as fh:
        json.dump({"_comment": "GENERATED by lib/gen_values_universe.py - near-miss universe of the value family",
                   "values": allv}, fh, indent=0, ensure_ascii=True)
    print("universe: %d values (%d nodes, %d predicates, %d literals, %d objects, %d triples)" % (
        len(allv), len(nodes), len(preds), len(lits), len(objs), len(triples)))


if __name__ == "__main__":
    main()
