"""C04: data and graph statements change the store exactly as stated (spec/Statements.tla,
spec/StatementTrace.tla).  Sequences of statements are executed as text on one live store by
harness/cmd/bqldrv (mode stmt); the full listing of every graph after each statement is validated by TLC."""
import concurrent.futures as cf
import json
import os

import bqlgen
import bqlu
import fam_bql
import vlib
from bqlgen import Gen
from vlib import Infra, Verdict

NAMES = ["?g1", "?g2", "?g3"]
UNKNOWN = "?gx"


def trec(i):
    s, p, o = bqlu.TRIPLES[i - 1]
    return {"s": s, "p": p, "o": o}


def triple_text(t):
    return "%s %s %s" % (bqlu.node_text(t["s"]), bqlu.pred_text(t["p"]), bqlu.cell_text(t["o"]))


# ------------------------------------------------------------------------------------ templates
def tpl_text(t):
    def subj(x):
        if x["c"] == 6:
            return "_:v"
        return bqlu.node_text(x["c"]) if x["c"] else x["b"]

    def pred(x):
        if x["c"]:
            return bqlu.pred_text(x["c"])
        if x["b"]:
            return x["b"]
        return '"%s"@[%s]' % (bqlu.STR[x["pid"] - 1], x["ab"])

    def obj(x):
        if x["ck"]:
            if x["ck"] == "N" and x["cv"] == 6:
                return "_:v"
            return bqlu.cell_text({"k": x["ck"], "v": x["cv"]})
        if x["b"]:
            return x["b"]
        return '"%s"@[%s]' % (bqlu.STR[x["pid"] - 1], x["ab"])

    return subj(t["s"]) + " " + " ; ".join("%s %s" % (pred(pr["p"]), obj(pr["o"])) for pr in t["pairs"])


def gen_tpl(g, names, kinds, npairs, allow_blank):
    """kinds: name -> set of cell kinds seen for that binding (from a dry run) or None"""
    r = g.rng

    def pick(want):
        good = [n for n in names if kinds.get(n) and kinds[n] <= want]
        if good and r.random() < 0.85:
            return r.choice(good)
        return r.choice(names) if names else ""

    s = {"c": 0, "b": ""}
    x = r.random()
    if x < 0.25 or not names:
        s["c"] = r.choice([1, 2, 3, 4] + ([6] if allow_blank else []))
    else:
        s["b"] = pick({"N"})
    pairs = []
    for _ in range(npairs):
        p = {"c": 0, "b": "", "pid": 0, "ab": ""}
        x = r.random()
        if x < 0.5 or not names:
            p["c"] = r.choice([1, 2, 4, 5, 10, 8, bqlu.pred_index("n", 0), bqlu.pred_index("n", 3)])
        elif x < 0.8:
            p["b"] = pick({"P"})
        else:
            p["pid"], p["ab"] = bqlu.sid(r.choice(["n", "p", "s"])), pick({"T"})
        o = {"ck": "", "cv": 0, "b": "", "pid": 0, "ab": ""}
        x = r.random()
        if x < 0.35 or not names:
            c = r.choice(bqlgen.OBJ_CONSTS + ([bqlu.N(6)] if allow_blank else []))
            o["ck"], o["cv"] = c["k"], c["v"]
        elif x < 0.9:
            o["b"] = pick({"N", "P", "I", "F", "X", "B"})
        else:
            o["pid"], o["ab"] = bqlu.sid(r.choice(["n", "q"])), pick({"T"})
        pairs.append({"p": p, "o": o})
    return {"s": s, "pairs": pairs}


# ------------------------------------------------------------------------------------ sequences
def gen_sequence(g, length):
    """returns list of statement dicts: kind, targets, sources, data, tpls, clauses, text"""
    r = g.rng
    stmts = []
    have = set(NAMES)   # what the generator believes exists (only used to keep sequences productive)
    for _ in range(length):
        x = r.random()
        missing = [n for n in NAMES if n not in have]
        if x < 0.05 or (missing and x < 0.45):
            t = r.sample(missing, 1) if missing and r.random() < 0.8 else r.sample(NAMES + [UNKNOWN], r.choice([1, 1, 2]))
            if r.random() < 0.2:
                t = t + r.sample([n for n in NAMES + [UNKNOWN] if n not in t], 1)
            have |= set(t)
            stmts.append({"kind": "create", "targets": t, "text": "CREATE GRAPH %s;" % ", ".join(t)})
        elif x < 0.09:
            t = r.sample(NAMES + [UNKNOWN], r.choice([1, 1, 2]))
            have -= set(t)
            stmts.append({"kind": "drop", "targets": t, "text": "DROP GRAPH %s;" % ", ".join(t)})
        elif x < 0.40:
            kind = "insert" if r.random() < 0.6 else "delete"
            t = r.sample(NAMES + ([UNKNOWN] if r.random() < 0.1 else []), r.choice([1, 1, 2, 3]))
            ids = [r.randint(1, len(bqlu.TRIPLES)) for _i in range(r.choice([1, 2, 3, 4]))]
            if r.random() < 0.3:
                # long lists that name some triples several times (a batch is a list, not a set), mostly into several graphs
                ids = [r.randint(1, len(bqlu.TRIPLES)) for _i in range(r.choice([12, 60, 400]))]
                ids = ids + r.sample(ids, len(ids) // 2) + ids[:3]
                r.shuffle(ids)
                if r.random() < 0.6:
                    # every triple of the universe, each two or three times in a row (removing the repeats moves almost
                    # every element of the list)
                    perm = r.sample(range(1, len(bqlu.TRIPLES) + 1), len(bqlu.TRIPLES))
                    ids = [x for tt in perm for x in [tt] * r.choice([2, 2, 3])]
                if len(t) < 2:
                    t = r.sample(NAMES, r.choice([2, 3]))
            data = [trec(i) for i in ids]
            body = " . ".join(triple_text(d) for d in data)
            text = ("INSERT DATA INTO %s { %s };" if kind == "insert" else "DELETE DATA FROM %s { %s };") % (", ".join(t), body)
            stmts.append({"kind": kind, "targets": t, "data": data, "text": text})
        else:
            kind = "construct" if r.random() < 0.65 else "deconstruct"
            reif = kind == "construct" and r.random() < 0.45
            base = fam_bql.clean_base(g, max_clauses=2, p_alias=0.15)
            if r.random() < 0.25:
                # one broad clause with many rows per statement (anchors, ids, numbers that differ only slightly):
                # the template is instantiated once per row
                base = fam_bql.broad_base(g)
            sources = r.sample(NAMES[:2], r.choice([1, 1, 2]))
            if r.random() < 0.06:
                sources = sources + [UNKNOWN]
            if reif:
                targets = ["?g3"]
            else:
                targets = r.sample(NAMES, r.choice([1, 1, 2]))
            if r.random() < 0.06:
                targets = targets + [UNKNOWN]
            stmts.append({"kind": kind, "targets": targets, "sources": sources, "clauses": base["clauses"],
                          "names": base["names"], "reif": reif})
    return stmts


def kinds_of(names, rows):
    ks = {}
    for i, n in enumerate(names):
        ks[n] = set(row[i]["k"] for row in rows)
    return ks


def conv_listing(lst, blanks):
    out = []
    for gl in lst:
        ts = []
        for t in gl["ts"]:
            s = t["s"]
            if t["sb"]:
                s = blanks.setdefault(t["sb"], 1000 + len(blanks))
            o = t["o"]
            if t["ob"]:
                o = {"k": "N", "v": blanks.setdefault(t["ob"], 1000 + len(blanks))}
            ts.append({"s": s, "p": t["p"], "o": o})
        out.append({"g": gl["g"], "x": gl["x"], "ts": ts})
    return out


def check(prop):
    tier = vlib.tier()
    v = Verdict(prop, tier, "model_checking")
    vlib.build_harness(["bqldrv"])
    d = vlib.scratch("stmt-")
    g = Gen(vlib.seed() * 7919 + 4)
    nseq, length = (160, 10) if tier == "quick" else (2500, 12)
    # Pass 1 (dry run, stateless): learn which kinds the bindings of each WHERE pattern take on a
    # typical content, so that templates mostly (not always) use bindings of the right kind.
    seqs = [gen_sequence(g, length) for _ in range(nseq)]
    b0 = fam_bql.Batch()
    hs = {}
    for si, seq in enumerate(seqs):
        for ti, st in enumerate(seq):
            if st["kind"] in ("construct", "deconstruct"):
                q = {"clauses": st["clauses"], "graphs": [list(range(1, len(bqlu.TRIPLES) + 1))], "glo": 0, "ghi": 0, "alt": False}
                hs[(si, ti)] = b0.add(q["graphs"], fam_bql.sel_text(q, st["names"]))
    b0.run(d, "C04dry")
    cases = []
    meta = []
    for si, seq in enumerate(seqs):
        # two source graphs (random triples plus one whole near-miss group each) and an empty one
        init = [sorted(set(g.rng.sample(range(1, len(bqlu.TRIPLES) + 1), g.rng.randint(3, 10))) | set(g.rng.choice(fam_bql.NEAR_GROUPS)))
                for _ in range(2)] + [[]]
        cases.append({"id": len(cases), "mode": "reset", "graphs": init, "text": ""})
        meta.append(None)
        for ti, st in enumerate(seq):
            if st["kind"] in ("construct", "deconstruct"):
                err, rows = b0.rows(hs[(si, ti)], st["names"])
                ks = kinds_of(st["names"], rows) if not err else {}
                ntpl = g.rng.choice([1, 1, 2])
                tpls = []
                for _ in range(ntpl):
                    npairs = g.rng.choice([2, 2, 3]) if st["reif"] else 1
                    tpls.append(gen_tpl(g, st["names"], ks, npairs, allow_blank=st["kind"] == "construct"))
                st["tpls"] = tpls
                where = bqlgen.render_where(st["clauses"])
                body = " . ".join(tpl_text(t) for t in tpls)
                if st["kind"] == "construct":
                    st["text"] = "CONSTRUCT { %s } INTO %s FROM %s WHERE { %s };" % (body, ", ".join(st["targets"]), ", ".join(st["sources"]), where)
                else:
                    st["text"] = "DECONSTRUCT { %s } IN %s FROM %s WHERE { %s };" % (body, ", ".join(st["targets"]), ", ".join(st["sources"]), where)
            cases.append({"id": len(cases), "mode": "stmt", "graphs": [], "text": st["text"]})
            meta.append(st)
    res = fam_bql.run_cases(cases, d, "C04")
    # build events, one trace chunk per group of sequences
    events, evmeta = [], []
    blanks = {}
    stats = {"stmts": 0, "by_kind": {}, "perr": 0, "err": 0, "reified": 0}
    big = False
    for c, st in zip(cases, meta):
        r = res[c["id"]]
        after = conv_listing(r["after"], blanks)
        if st is None:
            big = False
            events.append({"ev": "R", "after": after})
            evmeta.append((c, None, r))
            continue
        hf = fam_bql.hard_failure(r)
        if hf:
            v.reject(hf, {"text": c["text"], "panic": r["panic"][:300]}, {"case": c})
        if big or max([len(gl["ts"]) for gl in after] or [0]) > 2500:
            # a CONSTRUCT over a product of many solutions (with reification: several triples and a fresh blank node per
            # row) left tens of thousands of triples in a graph: TLC compares listings in quadratic time, so the rest of
            # this sequence (up to the next reset) is executed but not judged; counted in the evidence
            big = True
            stats["too_large"] = stats.get("too_large", 0) + 1
            continue
        stats["stmts"] += 1
        stats["by_kind"][st["kind"]] = stats["by_kind"].get(st["kind"], 0) + 1
        stats["perr"] += bool(r["perr"])
        stats["err"] += bool(r["err"])
        stats["reified"] += bool(st.get("reif"))
        events.append({"ev": "S", "kind": st["kind"], "targets": st["targets"], "sources": st.get("sources", []),
                       "data": st.get("data", []), "tpls": st.get("tpls", []), "clauses": st.get("clauses", []), "glo": 0, "ghi": 0,
                       "perr": bool(r["perr"]), "err": bool(r["err"] or r["panic"] or r["timeout"]), "after": after})
        evmeta.append((c, st, r))
    # split at reset events into chunks
    chunks, cur = [], []
    for i, e in enumerate(events):
        if e["ev"] == "R" and len(cur) >= 400:
            chunks.append(cur)
            cur = []
        cur.append(i)
    if cur:
        chunks.append(cur)
    gen = {"BqlU.tla": bqlu.bqlu_tla()}

    too_slow = []

    def tlc(idxs, timeout):
        path = os.path.join(d, "stmt.chunk%05d.ndjson" % idxs[0])
        with open(path, "w") as fh:
            for i in idxs:
                fh.write(json.dumps(events[i]) + "\n")
        r = vlib.run_tlc("StatementTrace", "StatementTrace.cfg", gen=gen, env={"TRACE_FILE": path}, workers=1, timeout=timeout, heap="3g")
        if r.violation:
            raise Infra("statement trace not consumed: %s\n%s" % (r.violation, r.out[-3000:]))
        return r

    def one(idxs):
        try:
            return [(idxs, tlc(idxs, 1500))]
        except Infra as e:
            if "TLC timeout" not in str(e):
                raise
        # a chunk (some thirty sequences) that TLC does not finish: its sequences one by one; a sequence that alone
        # takes more than ten minutes (a CONSTRUCT over a product of many solutions) is counted as not judged
        res, cur = [], []
        seqs = []
        for i in idxs:
            if events[i]["ev"] == "R" and cur:
                seqs.append(cur)
                cur = []
            cur.append(i)
        if cur:
            seqs.append(cur)
        for sq in seqs:
            try:
                res.append((sq, tlc(sq, 600)))
            except Infra as e:
                if "TLC timeout" not in str(e):
                    raise
                too_slow.append([evmeta[i][0]["text"][:200] for i in sq if evmeta[i][0]][:12])
        return res

    states, opens, nrej = 0, 0, 0
    with cf.ThreadPoolExecutor(max_workers=14) as ex:
        for idxs, r in (x for lst in ex.map(one, chunks) for x in lst):
            states += r.distinct
            opens += len(vlib.parse_printed(r.printed, "OPEN"))
            for rj in vlib.parse_printed(r.printed, "REJECT"):
                i = idxs[rj[1] - 1]
                c, st, rr = evmeta[i]
                nrej += 1
                prev = evmeta[i - 1][2]["after"] if i > 0 else []
                v.reject(rj[3], {"text": c["text"], "class": rj[3], "perr": rr["perr"][:200], "err": rr["err"][:200],
                                 "before": [(gl["g"], gl["x"], len(gl["ts"])) for gl in prev],
                                 "after": [(gl["g"], gl["x"], len(gl["ts"])) for gl in rr["after"]]},
                         {"case": c, "event": events[i], "previous_event": events[i - 1] if i > 0 else None})
    if len(too_slow) > max(3, nseq // 100):
        raise Infra("%d statement sequences are too expensive for TLC (more than ten minutes each)" % len(too_slow))
    v.cov.update({"states": states, "transitions": len(events), "traces_validated_against_impl": nseq - len(too_slow),
                  "statements_after_a_listing_of_more_than_2500_triples_not_judged": stats.get("too_large", 0),
                  "sequences_too_expensive_for_the_model_not_judged": len(too_slow), "sequences_too_expensive_samples": too_slow[:2],
                  "statements": stats["stmts"], "by_kind": stats["by_kind"], "rejected_by_parser": stats["perr"],
                  "failed_in_execution": stats["err"], "reification_constructs": stats["reified"],
                  "blank_nodes_seen": len(blanks), "open_not_judged": opens, "rejected_events": nrej,
                  "samples": [{"text": c["text"], "err": r["err"][:120]} for c, st, r in evmeta[1:6] if st]})
    v.assumptions += ["reification templates (';') write only INTO ?g3 and ?g3 is never a FROM graph, so blank nodes never flow through WHERE patterns",
                      "a statement that fails during execution may leave each target graph either way; only non-target graphs are required unchanged",
                      "each statement is judged against the listing recorded after the previous one"]
    return v.finish()
