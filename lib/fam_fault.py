"""Runtime family, C20: storage driver failures surface as errors - never success, hang or leak.

Layer B  spec/ExecPipeline.tla  goroutines/channels of simpleFetch, the errgroup fan-out, update(), CONSTRUCT's
                                bulk writer, SHOW - model checked for every fault of the model; the same module
                                (PlanSpec) enumerates the fault plans of the real corpus
Layer A  spec/FaultTrace.tla    monitor over what Executor.Execute really did under each fault plan
"""
import concurrent.futures as cf
import json
import os
import re

import vlib
import rtcommon
from vlib import VERIF, Verdict, Infra, log

CORPUS = os.path.join(VERIF, "universe", "fault_corpus.json")

# cfg -> property expected to be violated (None = everything holds)
MODEL_CFGS = (("ExecIdeal", None), ("ExecShow", "FailureSurfaces"), ("ExecOldDrop", "FailureSurfaces"),
              ("ExecOldLeak", "Temporal"), ("ExecStrict", "NoTableWithError"), ("ExecNoClose", "Temporal"), ("ExecMemoLeak", "Temporal"))


def model_check():
    gen = {"FaultU.tla": "---- MODULE FaultU ----\nStmts == <<>>\n====\n"}
    with cf.ThreadPoolExecutor(max_workers=7) as ex:
        runs = list(ex.map(lambda c: vlib.run_tlc("ExecPipeline", c[0] + ".cfg", gen=gen, workers=2, timeout=900, heap="1g",
                                                  env={"JAVA_TOOL_OPTIONS": rtcommon.JOPTS}), MODEL_CFGS))
    res, states, trans = {}, 0, 0
    for (cfg, expect), r in zip(MODEL_CFGS, runs):
        got = r.violation
        if (expect is None) != (got is None) or (expect and expect not in got and not (expect == "Temporal" and got == "violation")):
            raise Infra("ExecPipeline.tla/%s: expected %s, TLC says %s\n%s" % (cfg, expect or "no violation", got, r.out[-2500:]))
        res[cfg] = {"violated": expect or "", "distinct": r.distinct, "generated": r.generated,
                    "counterexample_steps": len(re.findall(r"^State \d+:", r.out, re.M))}
        states += r.distinct
        trans += r.generated
    return res, states, trans


# ---- generated statements (on top of the hand-written corpus) ---------------------------------------------------------
SUBJ = ["/u<joe>", "/u<mary>", "/u<peter>", "/c<mini>", "/u<zoe>", "/u<nobody>"]
PRED = ['"parent_of"@[]', '"bought"@[2016-02-01T00:00:00-08:00]', '"height_cm"@[]', '"is_a"@[]', '"knows"@[]',
        '"bought"@[2015-01-01T00:00:00-08:00,2017-01-01T00:00:00-08:00]', '"bought"@[,]']
OBJ = ["/u<mary>", "/u<peter>", "/t<car>", "/c<mini>", '"174"^^type:int64', "/u<john>"]


def gen_statements(rnd, n):
    """seeded statements over the vocabulary of the corpus' data: every clause shape (bound / unbound subject,
    predicate, object; anchor binding; aliases), 1-3 clauses joined through shared variables, OPTIONAL, FROM 1-3
    graphs, GROUP BY / ORDER BY / HAVING / LIMIT / global bounds / FILTER, CONSTRUCT / DECONSTRUCT with 1-2 templates,
    ';' and 1-3 targets, INSERT / DELETE with 1-3 targets. Candidates the parser or planner refuses are dropped by
    `faultdrv calls -skip-bad`."""
    out = []

    def clause(i, vs):
        s = rnd.choice(SUBJ) if rnd.random() < 0.3 else rnd.choice(vs["n"])
        x = rnd.random()
        if x < 0.5:
            p = rnd.choice(PRED)
        elif x < 0.65:
            p = '"bought"@[%s]' % rnd.choice(vs["t"])
        else:
            p = rnd.choice(vs["p"])
        o = rnd.choice(OBJ) if rnd.random() < 0.3 else rnd.choice(vs["n"] + vs["o"])
        names = [w for w in (s, o) if w.startswith("?")]
        if p.startswith("?"):
            names.append(p)
        if "@[?" in p:
            names.append(p[p.index("@[") + 2:-1])
        if rnd.random() < 0.15 and s.startswith("?"):
            s += " ID ?si%d" % i
            names.append("?si%d" % i)
        if rnd.random() < 0.15 and s.startswith("/"):
            s += " AS ?sa%d" % i
            names.append("?sa%d" % i)
        if rnd.random() < 0.15 and p.startswith("?"):
            p += " AT ?pt%d" % i
            names.append("?pt%d" % i)
        if rnd.random() < 0.12 and o.startswith("?"):
            o += " TYPE ?oy%d" % i
            names.append("?oy%d" % i)
        return "%s %s %s" % (s, p, o), names

    def where(k, opt_ok=True):
        vs = {"n": ["?x", "?y", "?z"], "p": ["?p", "?q"], "o": ["?v"], "t": ["?t", "?u"]}
        cls, names = [], []
        for i in range(k):
            c, ns = clause(i, vs)
            if i > 0 and opt_ok and rnd.random() < 0.25:
                c = "optional {%s}" % c
            cls.append(c)
            names += [x for x in ns if x not in names]
        if rnd.random() < 0.12 and any(x in ("?p", "?q") for x in names):
            cls.append("FILTER %s(%s)" % (rnd.choice(["latest", "isTemporal", "isImmutable"]), rnd.choice([x for x in names if x in ("?p", "?q")])))
        return " . ".join(cls), names

    def frm():
        return ", ".join(rnd.sample(["?a", "?b", "?c"], rnd.choice([1, 1, 2, 3])))

    for _ in range(n):
        x = rnd.random()
        if x < 0.6:
            w, names = where(rnd.choice([1, 1, 2, 2, 3]))
            if not names:
                continue
            sel = rnd.sample(names, rnd.randint(1, len(names)))
            txt = "select %s from %s where {%s}" % (", ".join(sel), frm(), w)
            y = rnd.random()
            if y < 0.2 and len(sel) >= 2:
                k, a = sel[0], sel[1]
                fn = rnd.choice(["count(%s)", "count(distinct %s)", "sum(%s)"]) % a
                txt = "select %s, %s as ?n from %s where {%s} group by %s" % (k, fn, frm(), w, k)
                if rnd.random() < 0.4:
                    txt += " order by ?n %s" % rnd.choice(["asc", "desc"])
                if rnd.random() < 0.3:
                    txt += ' having ?n > "1"^^type:int64'
            else:
                if rnd.random() < 0.3:
                    txt += " order by " + ", ".join("%s %s" % (b, rnd.choice(["asc", "desc"])) for b in rnd.sample(sel, min(len(sel), rnd.choice([1, 2]))))
                if rnd.random() < 0.15:
                    txt += " having %s = %s" % (sel[0], rnd.choice(OBJ))
                if rnd.random() < 0.15:
                    txt += rnd.choice([" before 2016-02-15T00:00:00-08:00", " after 2016-01-15T00:00:00-08:00",
                                       " between 2016-01-15T00:00:00-08:00, 2017-01-01T00:00:00-08:00"])
                if rnd.random() < 0.25:
                    txt += ' limit "%d"^^type:int64' % rnd.choice([0, 1, 2, 5])
            out.append(txt + ";")
        elif x < 0.85:
            w, names = where(rnd.choice([1, 1, 2]), opt_ok=False)
            nn = [v for v in names if v in ("?x", "?y", "?z")]
            if not nn:
                continue
            tpls = []
            for _t in range(rnd.choice([1, 1, 2])):
                s = rnd.choice(nn)
                p = rnd.choice(['"derived"@[]', '"knows"@[]'] + [v for v in names if v in ("?p", "?q")] + ['"seen"@[%s]' % v for v in names if v in ("?t", "?u")])
                o = rnd.choice(nn + ["/u<mary>", '"1"^^type:int64'] + [v for v in names if v == "?v"])
                t = "%s %s %s" % (s, p, o)
                if rnd.random() < 0.3:
                    t += '; "since"@[] /y<2016>'
                tpls.append(t)
            tgt = ", ".join(rnd.sample(["?a", "?b", "?c"], rnd.choice([1, 1, 2, 3])))
            if rnd.random() < 0.65:
                out.append("construct {%s} into %s from %s where {%s};" % (" . ".join(tpls), tgt, frm(), w))
            else:
                out.append("deconstruct {%s} in %s from %s where {%s};" % (" . ".join(t.split(";")[0] for t in tpls), tgt, frm(), w))
        else:
            tgt = ", ".join(rnd.sample(["?a", "?b", "?c"], rnd.choice([1, 2, 3])))
            data = " . ".join("%s %s %s" % (rnd.choice(SUBJ), rnd.choice(PRED[:5]), rnd.choice(OBJ)) for _d in range(rnd.choice([1, 2, 4])))
            out.append(("insert data into %s {%s};" if rnd.random() < 0.5 else "delete data from %s {%s};") % (tgt, data))
    return list(dict.fromkeys(out))


def build_corpus(d, rnd, tier):
    """the hand-written corpus plus the generated statements that the real parser and planner accept"""
    with open(CORPUS) as fh:
        corpus = json.load(fh)
    nbase = len(corpus["statements"])
    cand = gen_statements(rnd, 60 if tier == "quick" else 1500)
    probe = dict(corpus, statements=cand)
    pp, po = os.path.join(d, "candidates.json"), os.path.join(d, "candidates.calls")
    with open(pp, "w") as fh:
        json.dump(probe, fh)
    rtcommon.run_driver("faultdrv", ["calls", "-corpus", pp, "-out", po, "-skip-bad"], timeout=1800)
    good = sorted({r["stmt"] for r in vlib.read_ndjson(po) if r["cfg"] == "direct"})
    corpus["statements"] += [cand[i - 1] for i in good]
    path = os.path.join(d, "corpus.json")
    with open(path, "w") as fh:
        json.dump(corpus, fh)
    return path, corpus, nbase, len(cand)


def faultu(recs):
    items = []
    for r in recs:
        calls = ", ".join('[kind |-> "%s", n |-> %d]' % (c["kind"], c["n"]) for c in r["calls"])
        items.append('[stmt |-> %d, cfg |-> "%s", calls |-> <<%s>>]' % (r["stmt"], r["cfg"], calls))
    return "---- MODULE FaultU ----\n\\* GENERATED from the fault-free runs of harness/cmd/faultdrv - do not edit\nStmts == <<\n  %s\n>>\n====\n" % ",\n  ".join(items)


def short(ev):
    return {k: ev[k] for k in ("ev", "run", "stmt", "cfg", "ptype", "at", "mode", "j", "meth", "tbl", "rows", "err", "errt", "leaked", "where", "wst", "wpkg")
            if k in ev and ev[k] not in ("", [], 0, False) or k in ("tbl", "err")}


def check(prop):
    tier = vlib.tier()
    v = Verdict(prop, tier, "model_checking")
    vlib.build_harness(["faultdrv"])
    d = vlib.scratch("fault-")
    rnd = rtcommon.rng(20)
    cpath, corpus, nbase, ncand = build_corpus(d, rnd, tier)

    with cf.ThreadPoolExecutor(max_workers=2) as ex:
        f_mc = ex.submit(model_check)
        # fault-free runs: the driver calls each statement makes (direct and through the memoizing store)
        calls_path = os.path.join(d, "calls.ndjson")
        rtcommon.run_driver("faultdrv", ["calls", "-corpus", cpath, "-out", calls_path], timeout=1800)
        recs = vlib.read_ndjson(calls_path)
        if tier == "quick":
            # every statement directly; through the memoizer a seeded third of the corpus
            keep = set(rnd.sample(range(1, len(corpus["statements"]) + 1), len(corpus["statements"]) // 3))
            recs = [r for r in recs if r["cfg"] == "direct" or r["stmt"] in keep]
        # fault plans: enumerated by TLC (ExecPipeline.PlanSpec) from the recorded call sequences
        pr = vlib.run_tlc("ExecPipeline", "ExecPlans.cfg", gen={"FaultU.tla": faultu(recs)}, workers=1, timeout=900, heap="2g")
        if pr.violation:
            raise Infra("fault plan enumeration failed: %s" % pr.violation)
        mc, mstates, mtrans = f_mc.result()
    by = {(r["stmt"], r["cfg"]): r for r in recs}
    plans = []
    for ln in pr.printed:
        if not ln.startswith('"{'):
            continue
        p = json.loads(json.loads(ln))
        c = by[(p["stmt"], p["cfg"])]["calls"][p["at"] - 1]
        p.update({"key": c["key"], "occ": c["occ"], "meth": c["meth"], "kind": c["kind"]})
        plans.append(p)
    expected = sum((c["n"] + 1 if c["kind"] == "stream" else 1) for r in recs for c in r["calls"])
    if len(plans) != expected or pr.distinct != expected:
        raise Infra("fault plan enumeration: %d plans printed, %d states, %d expected from the call lists" % (len(plans), pr.distinct, expected))
    # plus one fault-free plan per statement (a statement must not leak or hang without faults either)
    for r in recs:
        plans.append({"stmt": r["stmt"], "cfg": r["cfg"], "at": 0, "mode": "none", "j": 0, "key": "", "occ": 0, "meth": "", "kind": ""})
    rnd.shuffle(plans)
    plans_path = os.path.join(d, "plans.ndjson")
    with open(plans_path, "w") as fh:
        for p in plans:
            fh.write(json.dumps(p) + "\n")
    tr = os.path.join(d, "fault.ndjson")
    stp = os.path.join(d, "fault.stats")
    rtcommon.run_driver("faultdrv", ["run", "-corpus", cpath, "-plans", plans_path, "-out", tr, "-stats", stp], timeout=6000)
    st = json.load(open(stp))
    res = rtcommon.validate_trace("FaultTrace", "FaultTrace.cfg", {}, tr, ('{"ev":"Start"',), prop_tags=("REJECT", "OPEN"),
                                  workers=4, max_events=150000, heap="3g")
    negative_control(tr, d)

    with open(tr) as fh:
        lines = fh.read().splitlines()
    for (ln, vals, ev) in res["rejects"]:
        j = ln - 1
        while j > 0 and not lines[j].startswith('{"ev":"Start"'):
            j -= 1
        evs = [json.loads(x) for x in lines[j:ln + 1]]
        start = evs[0]
        w = short(ev)
        w["statement"] = corpus["statements"][ev["stmt"] - 1]
        w["fault"] = {k: start[k] for k in ("at", "mode", "j", "meth")}
        v.reject(vals[3], w, {"trace_line": ln, "plan": next((p for p in plans if p["stmt"] == ev["stmt"] and p["cfg"] == ev["cfg"]
                                                                and p["at"] == ev["at"] and p["mode"] == ev["mode"] and p["j"] == ev["j"]), None),
                              "events_of_run": evs})
    # measured coverage
    hit = set()
    nhit = 0
    cur = None
    for x in lines:
        e = json.loads(x)
        if e["ev"] == "Start":
            cur = e
        elif e["ev"] == "Call" and e["fail"]:
            nhit += 1
            hit.add((cur["ptype"], e["meth"], cur["mode"], min(cur["j"], 2)))
    samples = [short(json.loads(x)) for x in lines[:6]] + [p for p in plans[:2]]
    v.cov.update({
        "states": mstates + pr.distinct + res["states"], "transitions": mtrans + pr.generated + res["generated"],
        "traces_validated_against_impl": st.get("runs", 0),
        "evaluations": st.get("runs", 0), "distinct_nontrivial": len(hit),
        "rule": "one evaluation = one (statement, store configuration, failing call position, mode, j) executed on a fresh store; "
                "the fault plans are ALL positions x modes of the fault-free call sequence of each statement, enumerated by TLC "
                "(ExecPipeline.PlanSpec); non-trivial = the fault was really injected; distinct = different (plan type, driver "
                "method, mode, min(j,2)) among those",
        "model": "ExecPipeline.tla: 8 execution shapes x channel sizes {0,1,2} x every fault of the shape",
        "model_configs": mc,
        "corpus_statements": len(corpus["statements"]), "corpus_hand_written": nbase, "corpus_generated_accepted": len(corpus["statements"]) - nbase,
        "corpus_generated_candidates": ncand, "statement_configurations": len(recs),
        "fault_plans_enumerated": expected, "faults_injected": nhit, "fault_free_runs": len(recs),
        "open_table_with_error": len(res["tagged"].get("OPEN", [])),
        "plan_types": {k[6:]: n for k, n in st.items() if k.startswith("ptype:")},
        "timeouts": st.get("timeouts", 0), "watchdog_fired": st.get("watchdog_fired", 0),
        "events_validated": res["events"], "rejected_events": len(res["rejects"]),
        "exhaustive": tier == "thorough", "samples": samples,
    })
    v.assumptions += [
        "a failing driver call still closes its result channel (as storage/memory does on its own error paths); "
        "ExecPipeline.tla/ExecNoClose shows that every range-over-channel of the planner hangs otherwise",
        "one failing call per execution; corpus of %d statements on a 3-graph store; chanSize=%d bulkSize=%d" % (
            len(corpus["statements"]), corpus["chan_size"], corpus["bulk_size"]),
        "a table returned together with the error is left open (INSERT/DELETE return their empty table)",
        "goroutines are attributed to the statement when a frame of github.com/google/badwolf/ is on their stack; "
        "settling bound 2 s, looked at twice"]
    if nhit != expected:
        v.notes.append("%d of %d planned faults were injected (the others designate a call the faulted run no longer makes)" % (nhit, expected))
    return v.finish()


def negative_control(trace, d):
    """Flip the error of one Return that follows an injected fault: FaultTrace must reject that line."""
    out = os.path.join(d, "negctl.ndjson")
    target = None
    failed = False
    with open(trace) as fh, open(out, "w") as oh:
        for i, ln in enumerate(fh, 1):
            if target is not None and ln.startswith('{"ev":"Start"'):
                break
            e = json.loads(ln)
            if e["ev"] == "Start":
                failed = False
            if e["ev"] == "Call" and e["fail"]:
                failed = True
            if target is None and e["ev"] == "Return" and failed and e["err"]:
                e["err"] = False
                ln = json.dumps(e, separators=(",", ":")) + "\n"
                target = i
            oh.write(ln)
    if target is None:
        raise Infra("negative control: no surfaced fault in the trace")
    r = rtcommon.validate_trace("FaultTrace", "FaultTrace.cfg", {}, out, ('{"ev":"Start"',), workers=1, max_events=10 ** 9, heap="1g")
    if target not in [ln for (ln, _, _) in r["rejects"]]:
        raise Infra("negative control failed: FaultTrace.tla accepted a lost error at line %d" % target)
