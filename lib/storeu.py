"""Generates StoreU.tla (universe tables for the store family) from universe/store.json."""
import json
import os

from vlib import VERIF, tla_val


def load():
    with open(os.path.join(VERIF, "universe", "store.json")) as fh:
        return json.load(fh)


def storeu_tla(u, nt, names):
    """nt: number of universe triples 'in play' for the exhaustive model; names: list of graph names."""
    pr = [{"id": p["id"], "kind": p["kind"], "n": p["n"]} for p in u["preds"]]
    ob = [{"kind": o["kind"], "ref": o.get("ref", 0), "ty": o.get("type", ""), "val": o.get("val", "")} for o in u["objs"]]
    ts = [{"s": t["s"], "p": t["p"], "o": t["o"]} for t in u["triples"]]
    cp = [c["abs"] for c in u["cpreds"]]
    return "\n".join([
        "---- MODULE StoreU ----",
        "\\* GENERATED from universe/store.json - do not edit",
        "NT == %d" % nt,
        "NTall == %d" % len(ts),
        "Names == %s" % tla_val(names),
        "TS == %s" % tla_val(ts),
        "PR == %s" % tla_val(pr),
        "OB == %s" % tla_val(ob),
        "CP == %s" % tla_val(cp),
        "NNodes == %d" % len(u["nodes"]),
        "NInstants == %d" % len(u["instants"]),
        "====", ""])
