"""Shared machinery for the /verif checks (python3 stdlib only).

Verdict rules (DESIGN 2.3):
  exit 0  property held on everything explored (KNOWN-FINDING lines allowed)
  exit 1  a line "VIOLATION property=<id> replay=<path>" was printed: the real code contradicted the
          Layer A specification on a concrete case that known_findings.json does not list
  exit 2  INFRA: the machinery itself failed (TLC crash/timeout, build failure, dead driver)
"""
import atexit
import json
import os
import re
import shutil
import subprocess
import sys
import tempfile
import time

VERIF = os.path.dirname(os.path.dirname(os.path.abspath(__file__)))
REPO = os.environ.get("VERIF_REPO", "/repo")
BUILD = os.path.join(VERIF, ".build")
OUT = os.path.join(VERIF, "out")
SPEC = os.path.join(VERIF, "spec")
T0 = time.time()
BUILD_DIR = BUILD  # where build_harness put the binaries of this run


class Infra(Exception):
    pass


def log(*a):
    print(*a, file=sys.stderr, flush=True)


def seed():
    try:
        return int(os.environ.get("VERIF_SEED", "1"))
    except ValueError:
        return 1


def go_env():
    e = dict(os.environ)
    e["GOFLAGS"] = "-mod=mod"
    e["GOPROXY"] = "off"
    e.pop("GOSUMDB", None)  # toolchain switch to go1.24 needs the default GOSUMDB
    e.setdefault("GOTOOLCHAIN", "auto")
    e["CGO_ENABLED"] = e.get("CGO_ENABLED", "1")
    return e


_scratch_dirs = []


def scratch(prefix="verif-"):
    d = tempfile.mkdtemp(prefix=prefix, dir=os.environ.get("VERIF_TMP", "/tmp"))
    _scratch_dirs.append(d)
    return d


def _cleanup():
    if os.environ.get("VERIF_KEEP"):
        return
    for d in _scratch_dirs:
        shutil.rmtree(d, ignore_errors=True)


atexit.register(_cleanup)


def build_harness(cmds, race=False, tags="verif"):
    """Build harness commands from /verif/harness against the CURRENT working tree of /repo."""
    h = os.path.join(VERIF, "harness")
    bdir = BUILD
    modfile = []
    if os.path.realpath(REPO) != "/repo":
        # VERIF_REPO=<scratch worktree>: build against that tree without touching /repo or the shared
        # go.mod (used to try the checks on seeded changes); binaries go to a private directory.
        d = scratch("modfile-")
        with open(os.path.join(h, "go.mod")) as fh:
            gm = fh.read().replace("=> /repo", "=> " + os.path.realpath(REPO))
        with open(os.path.join(d, "go.mod"), "w") as fh:
            fh.write(gm)
        shutil.copyfile(os.path.join(REPO, "go.sum"), os.path.join(d, "go.sum"))
        modfile = ["-modfile=" + os.path.join(d, "go.mod")]
        bdir = os.path.join(d, "bin")
    else:
        shutil.copyfile(os.path.join(REPO, "go.sum"), os.path.join(h, "go.sum"))
    os.makedirs(bdir, exist_ok=True)
    global BUILD_DIR
    BUILD_DIR = bdir
    outs = {}
    for c in cmds:
        out = os.path.join(bdir, c + ("-race" if race else ""))
        args = ["go", "build", "-tags", tags] + modfile
        if race:
            args.append("-race")
        args += ["-o", out, "./cmd/" + c]
        t = time.time()
        p = subprocess.run(args, cwd=h, env=go_env(), capture_output=True, text=True)
        if p.returncode != 0:
            raise Infra("go build %s failed:\n%s\n%s" % (c, p.stdout, p.stderr))
        log("[build] %s in %.1fs" % (c, time.time() - t))
        outs[c] = out
    return outs


def run(cmd, timeout=None, env=None, cwd=None, stdin=None, check=True):
    t = time.time()
    try:
        p = subprocess.run(cmd, cwd=cwd, env=env, capture_output=True, text=True, timeout=timeout,
                           input=stdin)
    except subprocess.TimeoutExpired:
        raise Infra("timeout after %ss: %s" % (timeout, " ".join(cmd)))
    if check and p.returncode != 0:
        raise Infra("command failed (%d): %s\n%s\n%s" % (p.returncode, " ".join(cmd), p.stdout[-4000:], p.stderr[-4000:]))
    log("[run] %s (%.1fs, rc=%d)" % (" ".join(cmd)[:150], time.time() - t, p.returncode))
    return p


TLC_JAR = "/opt/veriftools/tla/tla2tools.jar:/opt/veriftools/tla/CommunityModules-deps.jar"


class TLCResult:
    def __init__(self):
        self.rc = None
        self.out = ""
        self.generated = 0
        self.distinct = 0
        self.depth = 0
        self.printed = []  # values printed by PrintT, as raw text lines
        self.violation = None  # text of an invariant/property violation, if any
        self.wall = 0.0


def run_tlc(module, cfg, files=(), gen=None, env=None, workers=1, timeout=600, simulate=None, depth=None,
            extra=(), heap=None, dfs=False, keep=None):
    """Run TLC on spec/<module>.tla with spec/<cfg> in a scratch copy.

    files: extra files copied into the scratch dir (absolute paths); gen: dict name->content of
    generated modules written there. Returns TLCResult. Raises Infra on crash/timeout.
    """
    d = scratch("tlc-")
    for f in os.listdir(SPEC):
        if f.endswith(".tla") or f.endswith(".cfg"):
            shutil.copyfile(os.path.join(SPEC, f), os.path.join(d, f))
    for f in files:
        shutil.copyfile(f, os.path.join(d, os.path.basename(f)))
    for name, content in (gen or {}).items():
        with open(os.path.join(d, name), "w") as fh:
            fh.write(content)
    e = dict(os.environ)
    e.update(env or {})
    jopts = []
    if heap:
        jopts.append("-Xmx" + heap)
    jopts.append("-Xss64m")
    if dfs:
        jopts.append("-Dtlc2.tool.queue.IStateQueue=StateDeque")
    cmd = ["java", "-XX:+UseParallelGC"] + jopts + ["-cp", TLC_JAR, "tlc2.TLC", "-workers", str(workers),
           "-metadir", os.path.join(d, "md"), "-config", cfg]
    if simulate:
        cmd += ["-simulate", simulate]
    if depth:
        cmd += ["-depth", str(depth)]
    cmd += list(extra) + [module + ".tla"]
    t = time.time()
    try:
        p = subprocess.run(cmd, cwd=d, env=e, capture_output=True, text=True, timeout=timeout)
    except subprocess.TimeoutExpired:
        subprocess.run(["pkill", "-f", os.path.join(d, "md")])
        raise Infra("TLC timeout after %ss on %s/%s" % (timeout, module, cfg))
    r = TLCResult()
    r.rc, r.out, r.wall = p.returncode, p.stdout + p.stderr, time.time() - t
    r.dir = d
    m = re.search(r"(\d+) states generated, (\d+) distinct states found", r.out)
    if m:
        r.generated, r.distinct = int(m.group(1)), int(m.group(2))
    m = re.search(r"depth of the complete state graph search is (\d+)", r.out)
    if m:
        r.depth = int(m.group(1))
    r.printed = printed_values(r.out)
    if p.returncode in (12, 13):
        m = re.search(r"Error: (Invariant|Action property|Temporal properties|Postcondition|The postcondition)[^\n]*", r.out)
        r.violation = m.group(0) if m else "violation"
    elif p.returncode != 0:
        if keep:
            shutil.copytree(d, keep, dirs_exist_ok=True)
        raise Infra("TLC failed rc=%d on %s/%s:\n%s" % (p.returncode, module, cfg, r.out[-6000:]))
    log("[tlc] %s/%s: %d generated, %d distinct, %.1fs rc=%d" % (module, cfg, r.generated, r.distinct, r.wall, r.rc))
    return r


def printed_values(out):
    """The values TLC printed (PrintT), one per element. TLC breaks a tuple that is longer than its line width over
    several lines ('<< "TAG",' / '   elem,' / ... / '   last >>'): such a value is put back on one line and written
    like a short one ('<<"TAG", elem, ..., last>>'), otherwise it would be LOST by a line based reader."""
    res, cur, depth = [], None, 0
    for line in out.splitlines():
        if cur is None:
            if line.startswith("<<") or line.startswith('"') or line.startswith("["):
                depth = line.count("<<") - line.count(">>")
                if line.startswith("<<") and depth > 0:
                    cur = [line.strip()]
                else:
                    res.append(line)
            continue
        cur.append(line.strip())
        depth += line.count("<<") - line.count(">>")
        if depth <= 0:
            v = " ".join(cur)
            v = re.sub(r"<<\s+", "<<", v)      # written like a value that fitted on one line
            v = re.sub(r"\s+>>", ">>", v)
            v = re.sub(r"\{\s+", "{", v)
            v = re.sub(r"\s+\}", "}", v)
            res.append(v)
            cur = None
    if cur is not None:
        res.append(" ".join(cur))
    return res


def tla_str(s):
    return '"' + s.replace("\\", "\\\\").replace('"', '\\"') + '"'


def tla_val(v):
    """Python value -> TLA+ expression (dict->record, list->sequence, str, int, bool)."""
    if isinstance(v, bool):
        return "TRUE" if v else "FALSE"
    if isinstance(v, int):
        return str(v)
    if isinstance(v, str):
        return tla_str(v)
    if isinstance(v, (list, tuple)):
        return "<<" + ", ".join(tla_val(x) for x in v) + ">>"
    if isinstance(v, dict):
        if not v:
            raise ValueError("empty record")
        return "[" + ", ".join("%s |-> %s" % (k, tla_val(x)) for k, x in v.items()) + "]"
    raise ValueError("cannot render %r" % (v,))


# ------------------------------------------------------------------------------------------------
# known findings


class Findings:
    """known_findings.json: {"findings":[{"property","class","what","witness",...}], "fixed":[...]}.

    A rejected case carries a class computed mechanically by the trace spec / driver (the named
    Layer B deviation that predicts exactly the observed wrong answer).  Listed class -> KNOWN-FINDING;
    anything else (including class "unexplained") -> VIOLATION.  Never written at run time.
    """

    def __init__(self):
        self.by = {}
        files = [os.path.join(VERIF, "known_findings.json")]
        kd = os.path.join(VERIF, "known_findings.d")
        if os.path.isdir(kd):
            files += sorted(os.path.join(kd, f) for f in os.listdir(kd) if f.endswith(".json"))
        for p in files:
            with open(p) as fh:
                data = json.load(fh)
            for f in data.get("findings", []):
                self.by[(f["property"], f["class"])] = f

    def known(self, prop, cls):
        return self.by.get((prop, cls))


class Verdict:
    def __init__(self, prop, tier, level):
        self.prop, self.tier, self.level = prop, tier, level
        self.findings = Findings()
        self.known = {}  # class -> [count, first witness]
        self.violations = []  # (class, witness, replay)
        self.cov = {}
        self.assumptions = []
        self.notes = []

    def reject(self, cls, witness, replay_obj=None):
        """Record a real-code case that contradicts Layer A. cls: mechanical class name."""
        if self.findings.known(self.prop, cls):
            k = self.known.setdefault(cls, [0, witness])
            k[0] += 1
            return
        self.violations.append((cls, witness, replay_obj))

    def finish(self):
        os.makedirs(os.path.join(VERIF, "evidence"), exist_ok=True)
        rdir = os.path.join(OUT, "replay", self.prop)
        for cls, (n, w) in sorted(self.known.items()):
            f = self.findings.known(self.prop, cls)
            print("KNOWN-FINDING: property=%s %s: %s (%d case(s) this run; e.g. %s)" % (
                self.prop, cls, f.get("what", ""), n, json.dumps(w)[:300]))
        shown = {}
        for i, (cls, w, ro) in enumerate(self.violations):
            if shown.get(cls, 0) >= 5:
                continue
            shown[cls] = shown.get(cls, 0) + 1
            os.makedirs(rdir, exist_ok=True)
            path = os.path.join(rdir, "%s-%d-%d.json" % (cls.replace("/", "_"), seed(), i))
            with open(path, "w") as fh:
                json.dump({"property": self.prop, "class": cls, "seed": seed(), "tier": self.tier, "witness": w, "replay": ro}, fh, indent=1)
            print("VIOLATION property=%s replay=%s" % (self.prop, path))
            print("  class=%s witness=%s" % (cls, json.dumps(w)[:600]))
        ev = {
            "property_id": self.prop,
            "tier": self.tier,
            "seed": seed(),
            "level": self.level,
            "coverage": self.cov,
            "assumptions": self.assumptions,
            "wall_s": round(time.time() - T0, 2),
            "violations": len(self.violations),
            "known_findings_seen": {c: n for c, (n, _) in self.known.items()},
            "violation_classes": {c: sum(1 for x in self.violations if x[0] == c) for c in sorted(set(x[0] for x in self.violations))},
            "notes": self.notes,
        }
        # evidence of the registered checks describes /repo; a trial against another tree (VERIF_REPO=<scratch
        # worktree>, used to try seeded changes) writes next to the other scratch output instead
        edir = os.path.join(VERIF, "evidence") if REPO == "/repo" else os.path.join(OUT, "evidence-other-tree")
        os.makedirs(edir, exist_ok=True)
        ev["repo"] = REPO
        with open(os.path.join(edir, self.prop + ".json"), "w") as fh:
            json.dump(ev, fh, indent=1, sort_keys=True)
        sys.stdout.flush()
        return 1 if self.violations else 0


def tier():
    t = os.environ.get("VERIF_TIER", "quick")
    return t if t in ("quick", "thorough") else "quick"


def main_wrap(fn):
    try:
        rc = fn()
    except Infra as e:
        print("INFRA: %s" % e)
        sys.exit(2)
    sys.exit(rc)


def read_ndjson(path):
    with open(path) as fh:
        return [json.loads(l) for l in fh if l.strip()]


def parse_printed(lines, tag):
    """TLC PrintT(<<"TAG", a, b, ...>>) lines -> list of lists of python values (ints/strings)."""
    res = []
    pre = '<<"%s"' % tag
    for ln in lines:
        if not ln.startswith(pre):
            continue
        body = ln[2:-2] if ln.endswith(">>") else ln[2:]
        toks = re.findall(r'"((?:[^"\\]|\\.)*)"|(-?\d+)|(TRUE|FALSE)', body)
        vals = []
        for s, n, b in toks:
            if n:
                vals.append(int(n))
            elif b:
                vals.append(b == "TRUE")
            else:
                vals.append(s.replace('\\"', '"').replace("\\\\", "\\"))
        res.append(vals)
    return res
