#!/usr/bin/env python3
"""Writes universe/store.json: the finite universe shared by TLC (via a generated StoreU.tla) and the Go
drivers (concretisation table) for the store family (C01, C02, C09, C19, C07).

Abstract values are integers (indices, 1-based) into tables of flat records.  Two concrete spellings of
the same value (same instant written in another zone) are two *concrete* entries with the same `abs`.
Ordering information (instant ranks) is given here, by construction, never computed by the code under test.
"""
import json, os

instants = [  # rank = index+1 ; strictly increasing
    "0001-01-01T00:00:00Z",  # the zero value of time.Time (IsZero): a legal anchor; inserted FIRST, see SHIFT below
    "1492-10-12T08:00:00Z",  # before 1677-09-21: time.UnixNano() is not defined (wraps) for this instant
    "1970-01-01T00:00:00Z",  # the Unix epoch: UnixNano() = 0, the zero value of every encoding
    "2019-03-01T00:00:00Z",
    "2020-01-01T00:00:00Z",
    "2020-06-01T12:30:00.5Z",
    "2021-11-11T11:11:11.000000011Z",
    "2077-05-02T07:34:33.709551616Z",  # = the first instant + 2^64 ns: the two have the same (wrapped) UnixNano(); only looked up, never stored
    "2525-07-04T12:00:00.123456789Z",  # after 2262-04-11: UnixNano() not defined either
]
# the ranks written in the tables below were assigned before the zero instant was put in front: they are moved up by one
SHIFT = 1
# concrete spellings of instants: (rank, text). The first spelling of each rank is the canonical one.
spellings = [(i + 1, t) for i, t in enumerate(instants)] + [(rk + SHIFT, t) for rk, t in [
    (4, "2020-01-01T02:00:00+02:00"),  # same instant as rank 4, other zone
    (5, "2020-06-01T05:30:00.5-07:00"),
    (5, "2020-06-01T18:00:00.5+05:30"),  # a non-whole-hour offset of the same instant
    (1, "1492-10-12T10:00:00+02:00"),  # the out-of-range instants in another zone as well
    (8, "2525-07-04T05:00:00.123456789-07:00"),
]]

nodes = [  # abstract = concrete
    {"type": "/u", "id": "a"},
    {"type": "/u", "id": "b"},
    {"type": "/u", "id": "c"},
    {"type": "/v/w", "id": "a"},
]

# abstract predicates: id, kind, rank
preds = [
    {"id": "p", "kind": "imm", "n": 0},  # 1
    {"id": "p", "kind": "tmp", "n": 4},  # 2
    {"id": "p", "kind": "tmp", "n": 5},  # 3
    {"id": "q", "kind": "imm", "n": 0},  # 4
    {"id": "q", "kind": "tmp", "n": 4},  # 5
    {"id": "r", "kind": "tmp", "n": 3},  # 6
    {"id": "q", "kind": "tmp", "n": 6},  # 7
    {"id": "p", "kind": "tmp", "n": 3},  # 8
    {"id": "r", "kind": "imm", "n": 0},  # 9  never stored
    {"id": "p", "kind": "tmp", "n": 6},  # 10 never stored
    {"id": "zz", "kind": "imm", "n": 0},  # 11 never stored
    {"id": "p", "kind": "tmp", "n": 2},  # 12 anchored at the Unix epoch
    {"id": "p", "kind": "tmp", "n": 1},  # 13 anchored in 1492 (outside the UnixNano range)
    {"id": "q", "kind": "tmp", "n": 8},  # 14 anchored in 2525 (outside the UnixNano range)
    {"id": "p", "kind": "tmp", "n": 7},  # 15 never stored: 2^64 ns after predicate 13 (same wrapped UnixNano, a different instant)
]
for _p in preds:
    if _p["n"] > 0:
        _p["n"] += SHIFT
preds.append({"id": "p", "kind": "tmp", "n": 1})  # 16 never stored: anchored at the zero time.Time (an anchor like any other)
preds.append({"id": "/ub", "kind": "imm", "n": 0})  # 17 its identifier spells the node /u<b> (type followed by id): the hashed bytes of the two coincide
# concrete predicate spellings: abs index + spelling index (0 for immutable)
cpreds = []
for i, p in enumerate(preds):
    if p["kind"] == "imm":
        cpreds.append({"abs": i + 1, "id": p["id"], "anchor": ""})
    else:
        for (rk, txt) in spellings:
            if rk == p["n"]:
                cpreds.append({"abs": i + 1, "id": p["id"], "anchor": txt})

# abstract objects
objs = [
    {"kind": "node", "ref": 2},  # 1  /u<b>
    {"kind": "node", "ref": 3},  # 2  /u<c>
    {"kind": "lit", "type": "bool", "val": "true"},  # 3
    {"kind": "lit", "type": "text", "val": "true"},  # 4
    {"kind": "pred", "ref": 2},  # 5  "p"@[i2] as object
    {"kind": "pred", "ref": 1},  # 6  "p"@[] as object
    {"kind": "lit", "type": "int64", "val": "1"},  # 7
    {"kind": "node", "ref": 1},  # 8  /u<a>
    {"kind": "pred", "ref": 3},  # 9  "p"@[i3] as object
    {"kind": "lit", "type": "float64", "val": "1"},  # 10
    {"kind": "lit", "type": "text", "val": "1"},  # 11
    {"kind": "node", "ref": 4},  # 12 never stored
    {"kind": "pred", "ref": 4},  # 13 "q"@[] never stored as object
    {"kind": "lit", "type": "float64", "val": "0.3"},  # 14
    {"kind": "lit", "type": "float64", "val": "0.30000000000000004"},  # 15 = 0.1+0.2: equal to 14 in the first 16 decimals
    {"kind": "pred", "ref": 13},  # 16 "p"@[1492] as object
]

# triples (s, p, o) by abstract index. The tour universes are prefixes (quick: 4, thorough: 6).
triples = [
    (1, 1, 1),  # 1  a p@[]   b
    (1, 12, 1),  # 2  a p@[epoch] b   (near-miss of 1: same id, immutable vs anchored at the zero instant)
    (1, 3, 1),  # 3  a p@[i3] b
    (1, 4, 3),  # 4  a q@[]   true^^bool
    (1, 4, 4),  # 5  a q@[]   "true"^^text
    (2, 5, 5),  # 6  b q@[i2] p@[i2]
    (1, 3, 2),  # 7  a p@[i3] c      (tie with 3 for latest of p)
    (2, 8, 8),  # 8  b p@[i1] a
    (2, 4, 6),  # 9  b q@[]   p@[]
    (2, 7, 9),  # 10 b q@[i4] p@[i3]
    (2, 6, 7),  # 11 b r@[i1] 1^^int64
    (1, 5, 1),  # 12 a q@[i2] b
    (1, 4, 10),  # 13 a q@[] 1^^float64
    (1, 4, 11),  # 14 a q@[] "1"^^text
    (2, 1, 1),  # 15 b p@[] b
    (3, 2, 5),  # 16 c p@[i2] p@[i2]
    (1, 2, 1),  # 17 a p@[i2] b
    (1, 13, 1),  # 18 a p@[1492] b    stored in the +02:00 spelling
    (2, 14, 7),  # 19 b q@[2525] 1^^int64
    (1, 4, 14),  # 20 a q@[] 0.3
    (1, 4, 15),  # 21 a q@[] 0.30000000000000004   (same subject and predicate, objects that agree in 16 decimals)
    (3, 14, 16),  # 22 c q@[2525] p@[1492]
    (1, 1, 5),  # 23 a p@[]   p@[i2]   an IMMUTABLE triple whose object is a temporal predicate (filters on the object field)
    (2, 4, 9),  # 24 b q@[]   p@[i3]   ... and a second one, later anchor (latest on the object field)
    (1, 17, 2),  # 25 a "/ub"@[] c   a predicate whose identifier spells a node that is the object of other triples of a
]
# triples stored with a non-canonical spelling of their predicate's anchor: triple index -> spelling text
stored_spelling = {7: "2020-06-01T05:30:00.5-07:00", 12: "2020-01-01T02:00:00+02:00", 18: "1492-10-12T10:00:00+02:00"}

u = {
    "instants": instants,
    "spellings": [{"n": r, "text": t} for r, t in spellings],
    "nodes": nodes,
    "preds": preds,
    "cpreds": cpreds,
    "objs": objs,
    "triples": [{"s": s, "p": p, "o": o, "cp": 0} for s, p, o in triples],
    "graphs": ["?g1", "?g2", "?g3"],
}
for ti, text in stored_spelling.items():
    t = u["triples"][ti - 1]
    idx = [i + 1 for i, c in enumerate(cpreds) if c["abs"] == t["p"] and c["anchor"] == text]
    assert idx, (ti, text)
    t["cp"] = idx[0]
out = os.path.join(os.path.dirname(os.path.dirname(os.path.abspath(__file__))), "universe", "store.json")
with open(out, "w") as fh:
    json.dump(u, fh, indent=1)
print("wrote", out, len(cpreds), "concrete predicates")
