#!/usr/bin/env python3
"""Negative controls of the trace specifications of the grammar family (DESIGN 2.4): small traces are
recorded from the real code, ONE logged field is corrupted, and the trace spec must reject exactly
that event with the expected class.   usage: cd /verif && python3 lib/grammar_controls.py"""
import copy
import json
import os
import subprocess
import sys

sys.path.insert(0, os.path.dirname(os.path.abspath(__file__)))
import vlib
import fam_grammar as fg

FAILED = []


def run(module, gen, events, label, expect):
    d = vlib.scratch("controls-")
    p = os.path.join(d, "t.ndjson")
    fg.write_ndjson(p, events)
    res = fg.validate(module, gen, p, workers=1)
    classes = sorted(set(c for _, _, c, _ in res["rejects"]))
    ok = expect(classes, len(res["rejects"]))
    if not ok:
        FAILED.append(label)
    print("%-12s %-44s rejects=%d %s -> %s" % (module, label, len(res["rejects"]), classes, "ok" if ok else "NOT DETECTED"))


def only(cls):
    return lambda classes, n: classes == [cls] and n == 1


def none(classes, n):
    return n == 0


def main():
    vlib.build_harness(["grammardump", "parsedrv", "lexdrv", "rundrv"])
    d = vlib.scratch("controls-")
    g, gen = fg.grammar_data(d)
    sents, _ = fg.corpus(gen, 20, 40, per_context=1)
    sp = os.path.join(d, "s.ndjson")
    fg.write_ndjson(sp, sents[:200])
    B = vlib.BUILD_DIR

    def drv(name, args, out):
        p = subprocess.run([os.path.join(B, name)] + args + ["-out", out], capture_output=True, text=True)
        if p.returncode != 0:
            raise vlib.Infra("%s %s: %s" % (name, args, p.stderr[-1000:]))
        return [json.loads(x) for x in fg.nd_lines(out)]

    w = [e for e in drv("parsedrv", ["witness", "-in", sp], os.path.join(d, "w")) if e["acc"] and e["want"] == e["kinds"]][:20]
    run("ParserTrace", gen, w, "W unmodified", none)
    c = copy.deepcopy(w); c[3]["acc"] = False
    run("ParserTrace", gen, c, "W acc flipped", only("witness-accept-mismatch"))
    c = copy.deepcopy(w); del c[5]["fir"][2]
    run("ParserTrace", gen, c, "W one alternative firing dropped", only("witness-alternatives-mismatch"))
    c = copy.deepcopy(w); c[7]["fir"][1]["i"] += 1
    run("ParserTrace", gen, c, "W alternative index changed", only("witness-alternatives-mismatch"))
    p = drv("parsedrv", ["parse", "-in", sp, "-enum", "1"], os.path.join(d, "p"))
    good = [e for e in p if e["plain"] and e["sem"]][:5] + [e for e in p if not e["plain"]][:5]
    run("ParserTrace", gen, good, "P unmodified", none)
    c = copy.deepcopy(good); c[0]["plain"] = False
    run("ParserTrace", gen, c, "P plain flipped to reject", only("unexplained-plain"))
    c = copy.deepcopy(good); c[7]["sem"] = True
    run("ParserTrace", gen, c, "P sem accepts a non-statement", only("semantic-accepts-more"))
    c = copy.deepcopy(good); c[1]["kinds"] = c[1]["kinds"][:-1]
    run("ParserTrace", gen, c, "P last token dropped from kinds", only("unexplained-plain"))
    a = [e for e in drv("parsedrv", ["history", "-in", sp, "-bases", "3", "-probes", "3", "-random", "5"], os.path.join(d, "a"))
         if e["reused"] == e["fresh"] and e["fresh"]["acc"]][:6]
    run("ParserTrace", gen, a, "A unmodified", none)
    c = copy.deepcopy(a); c[2]["reused"]["m"][0] += "x"
    run("ParserTrace", gen, c, "A one meaning line changed", only("history-changes-meaning"))
    c = copy.deepcopy(a); c[4]["reused"] = {"acc": False, "m": []}
    run("ParserTrace", gen, c, "A reused outcome rejected", only("history-changes-acceptance"))

    l = [e for e in drv("lexdrv", ["random", "-n", "80", "-in", sp], os.path.join(d, "l"))
         if e["toks"] and e["toks"][-1]["k"] == "EOF" and len(e["toks"]) >= 4][:20]
    run("LexerTrace", {}, l, "Lex unmodified", none)
    c = copy.deepcopy(l); c[0]["toks"][0]["t"][0] = (c[0]["toks"][0]["t"][0] + 1) % 256
    run("LexerTrace", {}, c, "Lex one byte of a token text changed", only("token-text-not-an-ordered-substring"))
    c = copy.deepcopy(l); c[5]["toks"].append({"k": "COMMA", "t": []})
    run("LexerTrace", {}, c, "Lex token appended after EOF", only("token-after-terminal-token"))
    c = copy.deepcopy(l); c[6]["toks"] = c[6]["toks"][:-1]
    run("LexerTrace", {}, c, "Lex terminal token dropped", only("no-terminal-token"))
    c = copy.deepcopy(l); c[7]["closed"] = False
    run("LexerTrace", {}, c, "Lex closed=false", only("channel-not-closed"))
    c = copy.deepcopy(l); c[8]["toks"][0], c[8]["toks"][1] = c[8]["toks"][1], c[8]["toks"][0]
    run("LexerTrace", {}, c, "Lex two tokens swapped", only("token-text-not-an-ordered-substring"))
    c = copy.deepcopy(l); c[9]["timeout"] = True
    run("LexerTrace", {}, c, "Lex timeout=true", only("lexer-did-not-terminate"))
    v = [e for e in drv("lexdrv", ["values"], os.path.join(d, "v")) if len(e["toks"]) == 2][:10]
    run("LexerTrace", {}, v, "One unmodified", none)
    c = copy.deepcopy(v); c[2]["toks"][0]["k"] = "LITERAL" if c[2]["kind"] != "LITERAL" else "NODE"
    run("LexerTrace", {}, c, "One kind of the token changed", only("printed-value-not-one-token"))
    pr = [e for e in drv("lexdrv", ["pairs", "-in", sp], os.path.join(d, "pr")) if e["a"]["toks"][-1]["k"] == "EOF"][:12]
    run("LexerTrace", {}, pr, "Pair unmodified", none)
    c = copy.deepcopy(pr); e = next(x for x in c if x["var"] == "case"); e["b"]["toks"][0]["k"] = "BINDING"
    run("LexerTrace", {}, c, "Pair kind in case variant changed", only("letter-case-changes-tokens"))
    c = copy.deepcopy(pr); e = next(x for x in c if x["var"] == "ws"); del e["b"]["toks"][1]
    run("LexerTrace", {}, c, "Pair token removed from ws variant", only("amount-of-white-space-changes-tokens"))

    cases = os.path.join(d, "cases")
    subprocess.run([os.path.join(B, "rundrv"), "cases", "-in", sp, "-out", cases, "-enum", "1", "-random", "20"], check=True, capture_output=True)
    r0 = [e for e in drv("rundrv", ["run", "-cases", cases, "-to", "300"], os.path.join(d, "r"))
          if e["outcome"] in ("Table", "Error") and e["g_after"] == e["g_before"]][:10]
    run("RunTrace", gen, r0, "Run unmodified", none)
    c = copy.deepcopy(r0); c[1]["outcome"] = "Panic"
    run("RunTrace", gen, c, "Run outcome=Panic", only("panic"))
    c = copy.deepcopy(r0); c[2]["outcome"] = "Timeout"
    run("RunTrace", gen, c, "Run outcome=Timeout", only("no-return-within-watchdog"))
    c = copy.deepcopy(r0); c[3]["outcome"] = "Neither"
    run("RunTrace", gen, c, "Run neither table nor error", only("neither-table-nor-error"))
    c = copy.deepcopy(r0); c[4]["g_after"] += 1
    run("RunTrace", gen, c, "Run one goroutine more afterwards", only("goroutine-left-behind"))
    c = copy.deepcopy(r0); c[5]["ev"] = "Crash"
    run("RunTrace", gen, c, "Run replaced by Crash", only("process-killed"))
    print("FAILED: %s" % FAILED if FAILED else "all controls detected")
    return 1 if FAILED else 0


if __name__ == "__main__":
    vlib.main_wrap(main)
