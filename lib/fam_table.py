"""Table algebra (bql/table) bound to spec/TableAlg.tla: the operations the planner builds C10 (LeftOptionalJoin,
DotProduct), C11 (Reduce), C12 (Sort, Limit) and C13 (Filter) from, executed on REAL tables by harness/cmd/tabledrv
(seeded sequences on live tables + every pair of tables of a small scope) and validated event by event by TLC
(spec/TableTrace.tla).  Called by the checks of those properties as an additional, lower-level binding: a rejected
operation is a violation of the property whose clause it implements; operations the planner never performs
(joins over shared bindings, DeleteRow) only count as drift."""
import concurrent.futures as cf
import json
import os

import vlib
from vlib import Infra

OPS_OF = {"C10": ["LeftOptionalJoin", "DotProduct", "AppendTable", "AddRow", "AddBindings", "ProjectBindings", "Truncate"],
          "C11": ["Reduce"], "C12": ["Sort", "Limit"], "C13": ["Filter"]}


def run(v, tier, d, prop):
    vlib.build_harness(["tabledrv"])
    drv = os.path.join(vlib.BUILD_DIR, "tabledrv")
    quick = tier == "quick"
    tr1, tr2 = os.path.join(d, "table-random.ndjson"), os.path.join(d, "table-exh.ndjson")
    st1, st2 = tr1 + ".stats", tr2 + ".stats"
    seed = str(vlib.seed() * 131 + 7)
    vlib.run([drv, "random", "-seed", seed, "-seqs", "250" if quick else "4000", "-ops", "40", "-out", tr1, "-stats", st1], timeout=1800)
    vlib.run([drv, "exhaustive", "-seed", seed, "-keep", "0.05" if quick else "1", "-out", tr2, "-stats", st2], timeout=3600)
    events = vlib.read_ndjson(tr1) + vlib.read_ndjson(tr2)
    mine = set(OPS_OF[prop])
    keep = [e for e in events if e["op"] in mine or e["panic"]]
    per = 6000
    chunks = []
    for i in range(0, len(keep), per):
        p = os.path.join(d, "table-chunk%03d.ndjson" % (i // per))
        with open(p, "w") as fh:
            for e in keep[i:i + per]:
                fh.write(json.dumps(e) + "\n")
        chunks.append((i, p))

    def one(ch):
        base, path = ch
        r = vlib.run_tlc("TableTrace", "TableTrace.cfg", env={"TRACE_FILE": path}, workers=1, timeout=3000, heap="3g")
        if r.violation:
            raise Infra("table trace not consumed: %s\n%s" % (r.violation, r.out[-3000:]))
        return base, r

    # the lemmas the query properties rest on, model-checked for every pair of tables of a small scope
    mc = vlib.run_tlc("TableAlgMC", "TableAlgMC.cfg", workers=4, timeout=900)
    if mc.violation:
        raise Infra("TableAlg.tla: a lemma fails in the small scope: %s\n%s" % (mc.violation, mc.out[-2500:]))
    rejects, opens, drift, states = [], 0, {}, 0
    with cf.ThreadPoolExecutor(max_workers=8) as ex:
        for base, r in ex.map(one, chunks):
            states += r.distinct
            opens += len(vlib.parse_printed(r.printed, "OPEN"))
            for x in vlib.parse_printed(r.printed, "REJECT"):
                ev = keep[base + x[1] - 1]
                if x[3].startswith("overlap:") or ev["op"] not in mine and not ev["panic"]:
                    drift[x[3]] = drift.get(x[3], 0) + 1
                    continue
                rejects.append((ev, x[3]))
    for ev, cls in rejects:
        w = {"op": ev["op"], "class": cls, "t": ev["t"], "t2": ev["t2"] if ev["op"] in ("LeftOptionalJoin", "DotProduct", "AppendTable") else None,
             "args": {k: ev[k] for k in ("cfg", "keys", "aaps", "n", "b", "c", "bsarg") if ev.get(k)}, "after": ev["after"], "err": ev["errt"]}
        v.reject("table:%s:%s" % (ev["op"], cls), w, {"event": ev})
    byop = {}
    for e in keep:
        byop[e["op"]] = byop.get(e["op"], 0) + 1
    v.cov["table_algebra"] = {"model": "TableAlg.tla operators; TableTrace.tla validates every operation of harness/cmd/tabledrv",
                              "operations_validated": len(keep), "by_operation": byop, "open_not_judged": opens,
                              "trace_states": states, "rejected": len(rejects),
                              "lemmas_model_checked": "TableAlgMC.cfg: JoinKeepsLeft, JoinIsProductWhenDisjoint, ProductSize, ProductFailsOnSharedBindings, LimitLemmas, FilterLemmas, GroupsPartition, SortKeyLemma",
                              "lemma_states": mc.distinct, "layer_b_drift_not_judged": drift,
                              "small_scope": "all pairs of tables with <= 2 rows over {2, 7, NULL}, bindings {?a},{?a,?b} x {?b},{?c},{?b,?c},{?a,?b}"
                                             + ("" if not quick else " (seeded 5% sample in the quick tier)")}
    v.assumptions.append("table level: operations are judged only where bql/table documents them and the planner uses them "
                         "(rows with all bindings, key columns of one kind; joins over shared bindings are drift only)")
    return len(keep)
