"""Store family: C01 (store = map name -> set), C02 (lookups = scans), C09 (lookup options)."""
import json
import os
import re
import concurrent.futures as cf

import vlib
import storeu
from vlib import VERIF, Verdict, Infra, log

NAMES2 = ["?g1", "?g2"]
NAMES3 = ["?g1", "?g2", "?g3"]
UNI = os.path.join(VERIF, "universe", "store.json")


def model_check(u, nt):
    """Exhaustive TLC run of Layer A with its action properties; returns TLCResult."""
    r = vlib.run_tlc("Store", "Store.cfg", gen={"StoreU.tla": storeu.storeu_tla(u, nt, NAMES2)}, workers=8,
                     timeout=1200)
    if r.violation:
        raise Infra("Layer A model Store.tla violates its own properties: %s\n%s" % (r.violation, r.out[-3000:]))
    return r


def emit_edges(u, nt, path):
    r = vlib.run_tlc("Store", "StoreEmit.cfg", gen={"StoreU.tla": storeu.storeu_tla(u, nt, NAMES2)}, workers=1,
                     timeout=1800)
    n = 0
    with open(path, "w") as fh:
        for ln in r.printed:
            if not ln.startswith('<<"EDGE"'):
                continue
            m = re.match(r'<<"EDGE", <<(.*?)>>, "(\w+)", "([^"]*)", <<(.*?)>>, (TRUE|FALSE), <<(.*?)>>>>', ln)
            if not m:
                raise Infra("cannot parse edge line: " + ln)
            ints = lambda s: [int(x) for x in s.split(",") if x.strip()]
            fh.write(json.dumps({"from": ints(m.group(1)), "op": m.group(2), "g": m.group(3), "b": ints(m.group(4)),
                                 "ok": m.group(5) == "TRUE", "to": ints(m.group(6))}) + "\n")
            n += 1
    if n != r.generated - 1:
        log("[edges] note: %d edges for %d generated states" % (n, r.generated))
    return n, r


def split_trace(path, outdir, max_events=30000):
    """Split a trace at Anchor/Reset lines into chunks of <= max_events (each chunk starts with one)."""
    chunks, cur, cnt = [], None, 0
    idx = 0
    base = []  # global line offset of each chunk
    with open(path) as fh:
        lineno = 0
        for ln in fh:
            lineno += 1
            is_anchor = ln.startswith('{"ev":"Anchor"') or ln.startswith('{"ev":"Reset"')
            if cur is None or (is_anchor and cnt >= max_events):
                if cur:
                    cur.close()
                p = os.path.join(outdir, "chunk%04d.ndjson" % idx)
                idx += 1
                cur = open(p, "w")
                chunks.append(p)
                base.append(lineno - 1)
                cnt = 0
            cur.write(ln)
            cnt += 1
    if cur:
        cur.close()
    return chunks, base


def validate(u, names, trace_path, workers=8):
    """Validate a storedrv trace with StoreTrace.tla. Returns (rejects, opens, states, nevents).

    rejects: list of (global_line, prop, cls, event)."""
    d = vlib.scratch("chunks-")
    chunks, base = split_trace(trace_path, d)
    gen = {"StoreU.tla": storeu.storeu_tla(u, len(u["triples"]), names)}

    def one(i):
        r = vlib.run_tlc("StoreTrace", "StoreTrace.cfg", gen=gen, env={"TRACE_FILE": chunks[i]}, workers=1,
                         timeout=1800, heap="3g")
        if r.violation:
            raise Infra("trace not consumed (chunk %d): %s\n%s" % (i, r.violation, r.out[-3000:]))
        return i, r

    rejects, opens, states = [], 0, 0
    with cf.ThreadPoolExecutor(max_workers=workers) as ex:
        results = list(ex.map(one, range(len(chunks))))
    nevents = 0
    for i, r in results:
        states += r.distinct
        lines = open(chunks[i]).read().splitlines()
        nevents += len(lines)
        for v in vlib.parse_printed(r.printed, "REJECT"):
            ln = v[1]
            rejects.append((base[i] + ln, v[2], v[3], json.loads(lines[ln - 1])))
        opens += len(vlib.parse_printed(r.printed, "OPEN"))
    return rejects, opens, states, nevents


def refine_class(u, prop, cls, ev):
    """Mechanical class of a rejected event (see DESIGN 8): names the Layer B deviation that predicts
    exactly the observed wrong answer, else 'unexplained'."""
    if ev.get("ev") == "L":
        if cls == "dev":
            if ev["fop"] == "" and not ev["la"]:
                return "predicate-kind-blind"
            if not ev["canon"]:
                return "filter-compares-printed-predicate"
            return "predicate-kind-blind+filter"
        return cls
    return cls


def short(ev):
    e = dict(ev)
    for k in ("obs",):
        if k in e:
            e[k] = [{"g": o["g"], "x": o["x"], "ls": o["ls"], "ex": o["ex"]} for o in e[k]]
    return e


def run_driver(args, out, stats):
    drv = os.path.join(vlib.BUILD_DIR, "storedrv")
    p = vlib.run([drv] + args + ["-universe", UNI, "-out", out, "-stats", stats, "-seed", str(vlib.seed()), "-anchor-every", "10000"],
                 timeout=3600, check=False)
    if p.returncode != 0:
        raise Infra("storedrv failed rc=%d: %s" % (p.returncode, p.stderr[-2000:]))
    return json.load(open(stats))


def check(prop):
    tier = vlib.tier()
    v = Verdict(prop, tier, "model_checking")
    u = storeu.load()
    cov = v.cov
    try:
        vlib.build_harness(["storedrv"])
    except Infra as e:
        if "verif_dump.go" not in str(e):
            raise
        # the hook that reads the index maps does not compile against this tree (the maps were renamed or merged): the
        # driver is built without hooks; index dumps are not validated, indexed lookups are still compared with scans
        vlib.build_harness(["storedrv"], tags="verif_hooks_off")
        cov["index_dump_hook"] = "storage/memory/verif_dump.go does not compile against this tree; built without hooks: no index dumps"
        v.notes.append(cov["index_dump_hook"])
    d = vlib.scratch("store-")
    samples = []
    total_rejects = []
    if prop in ("C01", "C02"):
        nt = 4 if tier == "quick" else 6
        mc = model_check(u, nt)
        mi = None
        if prop == "C02":
            # Layer B: the seven index maps; IndexesAreProjections and LookupsRefine (bucket + post-filter
            # = Layer A comprehension) for every reachable state of one graph
            mi = vlib.run_tlc("MemIndex", "MemIndex.cfg", gen={"StoreU.tla": storeu.storeu_tla(u, 6 if tier == "quick" else 9, ["?g1"])},
                              workers=8, timeout=1800)
            if mi.violation:
                raise Infra("Layer B model MemIndex.tla does not refine Layer A: %s\n%s" % (mi.violation, mi.out[-3000:]))
        edges = os.path.join(d, "edges.ndjson")
        nedges, er = emit_edges(u, nt, edges)
        tr = os.path.join(d, "tour.ndjson")
        args = ["tour", "-edges", edges, "-names", ",".join(NAMES2)]
        if prop == "C02":
            args += ["-lookups", "-sample-lookups", "700" if tier == "quick" else "200"]
            if tier == "quick":
                args += ["-one-graph"]
        st = run_driver(args, tr, os.path.join(d, "tour.stats"))
        if st["edges_taken"] != nedges:
            v.notes.append("tour covered %d of %d edges (desync %d)" % (st["edges_taken"], nedges, st["desync"]))
        rej, opens, states, nev = validate(u, NAMES2, tr, workers=12)
        total_rejects += rej
        # seeded random histories over 3 graphs x 16 triples x batches <= 5
        tr2 = os.path.join(d, "random.ndjson")
        steps = 3000 if tier == "quick" else 60000
        args = ["random", "-names", ",".join(NAMES3), "-steps", str(steps)]
        if prop == "C02":
            args += ["-lookups", "-lookup-every", "80" if tier == "quick" else "25"]
        st2 = run_driver(args, tr2, os.path.join(d, "random.stats"))
        rej2, opens2, states2, nev2 = validate(u, NAMES3, tr2, workers=12)
        total_rejects += rej2
        # ... and histories in which the store is looked at only now and then (one operation in five): what is only
        # brought up to date by being read (a cached listing, a lazily rebuilt index) shows between two observations
        tr3 = os.path.join(d, "sparse.ndjson")
        st3 = run_driver(["random", "-names", ",".join(NAMES3), "-steps", str(steps), "-sparse", "5"]
                         + (["-lookups", "-lookup-every", "60"] if prop == "C02" else []), tr3, os.path.join(d, "sparse.stats"))
        rej3, opens3, states3, nev3 = validate(u, NAMES3, tr3, workers=12)
        total_rejects += rej3
        cov["sparse_history"] = {"steps": steps, "operations_not_followed_by_an_observation": st3.get("unobserved", 0), "events_validated": nev3}
        cov.update({
            "states": mc.distinct, "transitions": mc.generated,
            "traces_validated_against_impl": 2,
            "model": "Store.tla exhaustive: %d triples x 2 graphs, batches <= 2 (dups, empty)" % nt,
            "tour_edges": nedges, "tour_edges_taken": st["edges_taken"], "tour_steps": st["steps"],
            "tour_states_visited": st["states_visited"], "tour_desync": st["desync"],
            "random_steps": steps, "events_validated": nev + nev2, "trace_states": states + states2,
            "lookup_events": sum(n for k, n in list(st.items()) + list(st2.items()) if k.startswith("lookup:")),
            "exhaustive": st["edges_taken"] == nedges,
        })
        if mi:
            cov.update({"layer_b_model": "MemIndex.tla: IndexesAreProjections, LookupsRefine", "layer_b_states": mi.distinct,
                        "layer_b_transitions": mi.generated, "index_dumps_validated": st.get("index_dumps", 0) + st2.get("index_dumps", 0)})
        for p in (tr, tr2):
            with open(p) as fh:
                lines = fh.read().splitlines()
            picks = [lines[min(len(lines) - 1, i)] for i in (1, len(lines) // 2)]
            samples += [short(json.loads(x)) for x in picks]
        v.assumptions += [
            "universe of %d triples / 3 graph names; tour model restricted to the first %d triples and 2 names" % (len(u["triples"]), nt),
            "abstraction function (harness/uni) uses only constructors and accessors",
            "single goroutine (concurrency is C07)"]
    elif prop == "C09":
        mc = vlib.run_tlc("LookupsLemmas", "LookupsLemmas.cfg", gen={"StoreU.tla": storeu.storeu_tla(u, 4, NAMES2)}, workers=4)
        if mc.violation:
            raise Infra("Lookups.tla lemmas fail: %s" % mc.violation)
        tr = os.path.join(d, "options.ndjson")
        if tier == "quick":
            args = ["options", "-contents", "6", "-budget", "150000"]
        else:
            args = ["options", "-contents", "20", "-budget", "1500000"]
        st = run_driver(args, tr, os.path.join(d, "options.stats"))
        rej, opens, states, nev = validate(u, ["?g1"], tr, workers=14)
        total_rejects += rej
        cov.update({
            "states": states, "transitions": nev, "traces_validated_against_impl": 1,
            "model": "Lookups.tla Page lemmas exhaustive (%d states); options trace validated event by event" % mc.distinct,
            "events_validated": nev, "open_cases_not_judged": opens, "contents": st.get("contents", 0),
            "page_events": st.get("page", 0),
        })
        with open(tr) as fh:
            lines = fh.read().splitlines()
        samples += [json.loads(lines[i]) for i in (3, len(lines) // 2, len(lines) - 1)]
        v.assumptions += ["LatestAnchor combined with a window, and requests the driver may reject, are not judged (counted as open)",
                          "pages are judged against the recorded unpaged sequence of the same call in the same state"]
        # second part: the same filter functions reached through BQL FILTER clauses (bql/planner/filter + planner),
        # judged by BQLSemantics.tla (FilteredData) on SELECTs executed by the real engine
        import fam_bql
        vlib.build_harness(["bqldrv"])
        fam_bql.check_bqlfilter(v, tier, vlib.scratch("bqlfilter-"))
    mine = [r for r in total_rejects if r[1] == prop]
    other = [r for r in total_rejects if r[1] != prop]
    if other:
        v.notes.append("%d rejected events belong to other properties (%s) and are reported by their checks" % (
            len(other), sorted(set(r[1] for r in other))))
    for (ln, p, cls, ev) in mine:
        v.reject(refine_class(u, p, cls, ev), short(ev), {"trace_line": ln, "event": ev})
    cov["samples"] = samples
    cov["rejected_events"] = len(mine)
    return v.finish()
