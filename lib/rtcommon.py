"""Helpers shared by the runtime family (C19 fam_memo, C07 fam_conc, C20 fam_fault)."""
import concurrent.futures as cf
import json
import os
import random

import vlib
from vlib import Infra, log


# keep the many short-lived TLC JVMs of a check from grabbing every core for JIT/GC threads
JOPTS = "-XX:ParallelGCThreads=2 -XX:CICompilerCount=2"


def split_at(path, outdir, starts, max_events=40000, prefix="chunk"):
    """Split an ndjson trace into chunks of <= max_events that begin at a line starting with one of
    `starts` (tuple of prefixes). Returns (chunk paths, global line offset of each chunk)."""
    chunks, base = [], []
    cur, cnt, idx, lineno = None, 0, 0, 0
    with open(path) as fh:
        for ln in fh:
            lineno += 1
            if cur is None or (cnt >= max_events and ln.startswith(starts)):
                if cur:
                    cur.close()
                p = os.path.join(outdir, "%s%05d.ndjson" % (prefix, idx))
                idx += 1
                cur = open(p, "w")
                chunks.append(p)
                base.append(lineno - 1)
                cnt = 0
            cur.write(ln)
            cnt += 1
    if cur:
        cur.close()
    return chunks, base


def validate_trace(module, cfg, gen, trace_path, starts, prop_tags=("REJECT",), workers=12, max_events=40000,
                   heap="3g", dfs=False, timeout=1800, jopts=JOPTS):
    """Run a *Trace spec over a (chunked) trace. Returns dict: rejects [(global line, [printed values], event)],
    tagged {tag: [[values]]}, states, events. The whole trace must be consumed, else Infra."""
    d = vlib.scratch("chunks-")
    chunks, base = split_at(trace_path, d, starts, max_events)

    def one(i):
        env = {"TRACE_FILE": chunks[i]}
        if jopts:
            env["JAVA_TOOL_OPTIONS"] = jopts
        r = vlib.run_tlc(module, cfg, gen=gen, env=env, workers=1, timeout=timeout, heap=heap, dfs=dfs)
        if r.violation:
            raise Infra("%s: trace chunk %d not consumed: %s\n%s" % (module, i, r.violation, r.out[-3000:]))
        return i, r

    out = {"rejects": [], "tagged": {}, "states": 0, "generated": 0, "events": 0, "chunks": len(chunks)}
    if not chunks:
        return out
    with cf.ThreadPoolExecutor(max_workers=workers) as ex:
        results = list(ex.map(one, range(len(chunks))))
    for i, r in results:
        out["states"] += r.distinct
        out["generated"] += r.generated
        with open(chunks[i]) as fh:
            lines = fh.read().splitlines()
        out["events"] += len(lines)
        for tag in prop_tags:
            for v in vlib.parse_printed(r.printed, tag):
                if tag == "REJECT":
                    ln = v[1]
                    out["rejects"].append((base[i] + ln, v, json.loads(lines[ln - 1])))
                else:
                    out["tagged"].setdefault(tag, []).append((base[i], v))
    return out


def rng(salt=0):
    return random.Random(vlib.seed() * 1000003 + salt)


def hook_present(relpath, needle):
    p = os.path.join(vlib.REPO, relpath)
    if not os.path.exists(p):
        return False
    with open(p) as fh:
        return needle in fh.read()


def run_driver(name, args, timeout=3600, ok_codes=(0,), env=None):
    drv = os.path.join(vlib.BUILD_DIR, name)
    p = vlib.run([drv] + args, timeout=timeout, check=False, env=env)
    if p.returncode not in ok_codes:
        err = p.stderr or ""
        if len(err) > 7000:   # the head names the panic / fatal error and the dying goroutine, the tail the exit status
            err = err[:4000] + "\n[...]\n" + err[-3000:]
        raise Infra("%s failed rc=%d: %s" % (name, p.returncode, err))
    return p
