"""Runtime family, C07: concurrent use of a store - linearisable, race-free, dead-lock-free.

Layer B  spec/ConcStore.tla  Go RW-mutex (writer preference), batch-atomic add, per-triple remove, lookups that stream
                             under the read lock, the store's own lock, the shared LookupOptions cell of LatestAnchor -
                             model checked: refinement to the sequential store, dead-lock freedom, close-exactly-once
Layer A  spec/ConcTrace.tla  recorded invoke/return histories of the real store (built with -race): TLC places the silent
                             linearisation steps and rejects a history iff no placement explains the results; race
                             detector reports, panics, watchdog, channel and options observers are events Layer A
                             has no action for
"""
import concurrent.futures as cf
import json
import os
import re

import vlib
import storeu
import rtcommon
from vlib import VERIF, Verdict, Infra, log

UNI = os.path.join(VERIF, "universe", "store.json")
NAMES = ["?g1", "?g2", "?g3", "?gb"]
BW = "github.com/google/badwolf/"

# cfg -> invariant expected to be violated (None = everything holds)
MODEL_CFGS = [("ConcRepaired2", None), ("ConcRepaired3", None), ("ConcStoreOps", None), ("ConcCurrentRest", None),
              ("ConcCurrent", "Refines"), ("ConcCurrentPanic", "NoPanic"), ("ConcCurrentTouched", "OptionsUntouched"),
              ("ConcMutantBatch", "Refines")]


def model_check(u, tier):
    gen = {"StoreU.tla": storeu.storeu_tla(u, 3, ["?g1", "?g2"])}
    cfgs = list(MODEL_CFGS) + ([("ConcBig", None)] if tier == "thorough" else [])
    with cf.ThreadPoolExecutor(max_workers=5) as ex:
        runs = list(ex.map(lambda c: vlib.run_tlc("ConcStore", c[0] + ".cfg", gen=gen, workers=8 if c[0] == "ConcBig" else 2,
                                                  timeout=3000, heap="6g" if c[0] == "ConcBig" else "2g",
                                                  env={"JAVA_TOOL_OPTIONS": rtcommon.JOPTS}), cfgs))
    res, states, trans = {}, 0, 0
    for (cfg, expect), r in zip(cfgs, runs):
        got = r.violation
        if (expect is None) != (got is None) or (expect and expect not in got):
            raise Infra("ConcStore.tla/%s: expected %s, TLC says %s\n%s" % (cfg, expect or "no violation", got, r.out[-2500:]))
        res[cfg] = {"violated": expect or "", "distinct": r.distinct, "generated": r.generated,
                    "counterexample_steps": len(re.findall(r"^State \d+:", r.out, re.M))}
        states += r.distinct
        trans += r.generated
    return res, states, trans


def split_fn(f):
    """'storage/memory.(*memory).Objects.func1' -> ('Objects', 'storage/memory')"""
    i = f.rfind("/")
    k = f.find(".", i if i >= 0 else 0)
    if k < 0:
        return f, ""
    pkg, rest = f[:k], f[k + 1:]
    for x in rest.split("."):
        if not x or x.startswith("(") or x.startswith("func") or x[0].isdigit():
            continue
        return x, pkg
    return "", pkg


def parse_races(text):
    """Race detector reports -> list of dicts (top frame of both accesses, the source lines they are on)."""
    races = []
    for blk in text.split("=================="):
        if "WARNING: DATA RACE" not in blk:
            continue
        acc = []
        lines = blk.splitlines()
        for i, ln in enumerate(lines):
            if re.match(r"^(Read|Write|Previous read|Previous write|Atomic|Previous atomic)", ln.strip()) and " by " in ln:
                fn = lines[i + 1].strip() if i + 1 < len(lines) else ""
                loc = lines[i + 2].strip().split(" ")[0] if i + 2 < len(lines) else ""
                acc.append((ln.strip().split(" at ")[0], fn.rstrip("()"), loc))
        if len(acc) < 2:
            acc += [("", "", "")] * (2 - len(acc))
        rec = {"kind": acc[0][0] + " / " + acc[1][0]}
        for n, (_, fn, loc) in ((1, acc[0]), (2, acc[1])):
            f, pk = split_fn(fn[len(BW):]) if fn.startswith(BW) else (fn, "")
            src = ""
            m = re.match(r"(.*):(\d+)$", loc)
            if m and os.path.exists(m.group(1)):
                try:
                    with open(m.group(1)) as fh:
                        src = fh.read().splitlines()[int(m.group(2)) - 1].strip()
                except (IndexError, OSError):
                    src = ""
            rec["f%d" % n], rec["pk%d" % n], rec["loc%d" % n], rec["src%d" % n] = f, pk, loc, src
        races.append(rec)
    return races


BLANK = {"ev": "", "run": 0, "len": 0, "p": 0, "op": "", "g": "", "b": [], "t": 0,
         "q": {"m": "", "c": "", "s": 0, "p": 0, "cp": 0, "canon": False, "o": 0, "lo": 0, "hi": 0, "fop": "", "ff": "", "la": False,
               "max": 0, "off": 0},
         "so": 0, "res": [], "names": [], "ok": False, "err": False, "c": [], "gs": [], "f1": "", "f2": "", "pk1": "", "pk2": "", "s1": "", "s2": "",
         "shared": False, "info": ""}


def touches(src):
    if "lo.FilterOptions" in src:
        return "lo.FilterOptions"
    if "filterOptions." in src:
        return "filterOptions."
    return ""


def race_events(races, run, path):
    """One history made of Race events (Layer A accepts none)."""
    evs = []
    for r in races:
        e = json.loads(json.dumps(BLANK))
        e.update({"ev": "Race", "run": run, "f1": r["f1"], "f2": r["f2"], "pk1": r["pk1"], "pk2": r["pk2"],
                  # what each racing statement touches: the caller's options value, or the filter options it points to
                  "s1": touches(r["src1"]), "s2": touches(r["src2"]),
                  "shared": "lo.FilterOptions" in r["src1"] and "lo.FilterOptions" in r["src2"],
                  "info": "%s: %s %s | %s %s" % (r["kind"], r["loc1"].split("/")[-1], r["src1"][:60], r["loc2"].split("/")[-1], r["src2"][:60])})
        evs.append(e)
    with open(path, "w") as fh:
        h = json.loads(json.dumps(BLANK))
        h.update({"ev": "Reset", "run": run, "len": len(evs), "gs": ["?g1"]})
        fh.write(json.dumps(h, separators=(",", ":")) + "\n")
        for e in evs:
            fh.write(json.dumps(e, separators=(",", ":")) + "\n")
    return len(evs)


class EngineCrash(Exception):
    """the driver process was killed by the code under test (a panic or a runtime fatal error such as 'concurrent map
    iteration and map write' in a goroutine whose innermost frames are the engine's): an observation, not INFRA"""

    def __init__(self, mode, msg, site, frames):
        Exception.__init__(self, msg)
        self.mode, self.msg, self.site, self.frames = mode, msg, site, frames


def engine_crash(stderr):
    """(message, innermost badwolf function, first frames) when the dying goroutine's innermost non-runtime frame belongs
    to github.com/google/badwolf (and not to the harness); None otherwise"""
    m = re.search(r"(panic: .*|fatal error: .*)$", stderr, re.M)
    if not m:
        return None
    tail = stderr[m.start():]
    blocks = re.split(r"\n\ngoroutine ", tail)
    first = blocks[1] if len(blocks) > 1 else tail
    funcs = [ln.strip() for ln in first.splitlines() if re.match(r"^[\w./*()\[\]-]+\(", ln.strip()) and not ln.startswith("\t")]
    funcs = [f for f in funcs if not f.startswith(("runtime.", "panic(", "internal/", "sync.", "sort.", "reflect."))]
    if not funcs or "github.com/google/badwolf/" not in funcs[0]:
        return None
    site = funcs[0].split("github.com/google/badwolf/", 1)[1].rsplit("(", 1)[0]
    return m.group(1)[:200], site, funcs[:5]


def drive(mode, d, extra, timeout=3000):
    """Run concdrv-race <mode> as a child process; returns (trace path, stats, race reports)."""
    tr = os.path.join(d, mode + ".ndjson")
    stp = os.path.join(d, mode + ".stats")
    rl = os.path.join(d, mode + ".race")
    env = dict(os.environ)
    env["GORACE"] = "log_path=%s halt_on_error=0 history_size=2" % rl
    try:
        p = rtcommon.run_driver("concdrv-race", [mode, "-universe", UNI, "-out", tr, "-stats", stp, "-seed", str(vlib.seed())] + extra,
                                timeout=timeout, ok_codes=(0, 66), env=env)
    except Infra as e:
        crash = engine_crash(str(e))
        if crash:
            raise EngineCrash(mode, *crash)
        raise
    text = ""
    for f in os.listdir(d):
        if f.startswith(mode + ".race"):
            with open(os.path.join(d, f)) as fh:
                text += fh.read()
    if p.stderr and ("fatal error:" in p.stderr or "panic:" in p.stderr):
        crash = engine_crash(p.stderr)
        if crash:
            raise EngineCrash(mode, *crash)
        raise Infra("concdrv %s died: %s" % (mode, p.stderr[-3000:]))
    return tr, json.load(open(stp)), parse_races(text)


def histories(path):
    """reset line (1-based) -> (run, len)"""
    res = {}
    with open(path) as fh:
        for i, ln in enumerate(fh, 1):
            if ln.startswith('{"ev":"Reset"'):
                e = json.loads(ln)
                res[i] = (e["run"], e["len"])
    return res


def lin_check(gen, path, cfg="ConcTrace.cfg", workers=5, max_events=60000):
    """TLC linearisation search over every history of the trace. Returns (rejected reset lines, bad events, states, transitions)."""
    r = rtcommon.validate_trace("ConcTrace", cfg, gen, path, ('{"ev":"Reset"',), prop_tags=("REJECT", "HWM"), workers=workers,
                                max_events=max_events, heap="4g", dfs=True, timeout=3000)
    hist = histories(path)
    seen = set()
    rejected = []
    for base, v in r["tagged"].get("HWM", []):
        line = base + v[2]
        if line not in hist:
            raise Infra("HWM line %d is not a Reset line" % line)
        seen.add(line)
        if v[4] - v[2] != v[3] + 1:   # furthest line reached (chunk relative) is not the line after the history's last event
            rejected.append((line, v[4] - v[2]))
    if seen != set(hist):
        raise Infra("ConcTrace reported %d of %d histories" % (len(seen), len(hist)))
    bad = {}
    for (ln, vals, ev) in r["rejects"]:
        bad[ln] = (vals[3], ev)
    return rejected, bad, r["states"], r["generated"], r["events"]


def extract(path, starts, out):
    """Write the histories starting at the given reset lines to `out`; returns map new reset line -> old reset line."""
    with open(path) as fh:
        lines = fh.read().splitlines()
    m = {}
    n = 0
    with open(out, "w") as oh:
        for s in sorted(starts):
            e = json.loads(lines[s - 1])
            m[n + 1] = s
            for x in lines[s - 1:s + e["len"]]:
                oh.write(x + "\n")
                n += 1
    return m, lines


def short_hist(lines, start):
    e = json.loads(lines[start - 1])
    res = []
    for x in lines[start - 1:start + e["len"]]:
        v = json.loads(x)
        if v["ev"] == "Reset":
            res.append({"ev": "Reset", "run": v["run"], "c": v["c"], "gs": v["gs"]})
        elif v["ev"] == "inv":
            o = {"ev": "inv", "p": v["p"], "op": v["op"]}
            for k in ("g", "b", "t", "so", "res", "names", "ok", "err"):
                if v[k] not in ("", 0, [], False) or k in ("ok", "err"):
                    o[k] = v[k]
            if v["op"] == "Lookup":
                o["q"] = {k: x2 for k, x2 in v["q"].items() if x2 not in (0, "", False)}
            res.append(o)
        elif v["ev"] == "ret":
            res.append({"ev": "ret", "p": v["p"]})
        else:
            res.append({k: v[k] for k in ("ev", "p", "f1", "f2", "pk1", "pk2", "s1", "s2", "shared", "info")})
    return res


def full_hist(lines, start):
    e = json.loads(lines[start - 1])
    return [json.loads(x) for x in lines[start - 1:start + e["len"]]]


def replay(prop, rec):
    """A concurrent history cannot be forced again without hooks: the RECORDED history (real-code observation) is
    judged again by TLC - strictly, and with the named Layer B deviation switched on - and the check is then re-run
    with the recorded seed so that the targeted schedules and the stress runs are repeated on the current tree."""
    ro = rec.get("replay") or {}
    evs = ro.get("history_events") or ([ro["event"]] if ro.get("event") else None)
    u = storeu.load()
    gen = {"StoreU.tla": storeu.storeu_tla(u, len(u["triples"]), NAMES)}
    if evs:
        d = vlib.scratch("concreplay-")
        path = os.path.join(d, "replay.ndjson")
        if evs[0]["ev"] != "Reset":
            h = json.loads(json.dumps(BLANK))
            h.update({"ev": "Reset", "run": evs[0]["run"], "len": len(evs), "gs": ["?g1"]})
            evs = [h] + evs
        with open(path, "w") as fh:
            for e in evs:
                fh.write(json.dumps(e, separators=(",", ":")) + "\n")
        rej, bad, _, _, _ = lin_check(gen, path, workers=1)
        rej2, _, _, _, _ = lin_check(gen, path, "ConcTraceDev.cfg", workers=1) if rej else ([], None, 0, 0, 0)
        print("recorded history: %s under Layer A%s; events Layer A never accepts: %s" % (
            "NO linearisation" if rej else "linearisable",
            (" (%s with the shared-options deviation)" % ("still none" if rej2 else "explained")) if rej else "",
            sorted({c for c, _ in bad.values()})))
    os.environ["VERIF_SEED"] = str(rec.get("seed", 1))
    os.environ["VERIF_TIER"] = rec.get("tier", "quick")
    return check(prop)


def negative_control(gen, path, rejected_lines, d):
    """Corrupt the logged answer of one operation of an ACCEPTED history: the search must now reject it."""
    hist = histories(path)
    with open(path) as fh:
        lines = fh.read().splitlines()
    for s in sorted(hist):
        if s in rejected_lines:
            continue
        run, ln = hist[s]
        evs = [json.loads(x) for x in lines[s - 1:s + ln]]
        idx = next((i for i, e in enumerate(evs) if e["ev"] == "inv" and e["op"] == "Exist"), None)
        if idx is None or any(e["ev"] not in ("Reset", "inv", "ret") for e in evs):
            continue
        evs[idx]["ok"] = not evs[idx]["ok"]
        out = os.path.join(d, "negctl.ndjson")
        with open(out, "w") as oh:
            for e in evs:
                oh.write(json.dumps(e, separators=(",", ":")) + "\n")
        rej, _, _, _, _ = lin_check(gen, out, workers=1)
        if not rej:
            raise Infra("negative control failed: ConcTrace.tla found a linearisation for a history with a flipped Exist answer (run %d)" % run)
        return run
    raise Infra("negative control: no accepted history with an Exist operation")


def check(prop):
    tier = vlib.tier()
    v = Verdict(prop, tier, "model_checking")
    u = storeu.load()
    vlib.build_harness(["concdrv"], race=True)
    d = vlib.scratch("conc-")
    gen = {"StoreU.tla": storeu.storeu_tla(u, len(u["triples"]), NAMES)}
    nsmall, nstress, nhammer, nbatch = (700, 6, 4, 80) if tier == "quick" else (12000, 60, 40, 1500)

    try:
        return check_body(prop, tier, v, u, d, gen, nsmall, nstress, nhammer, nbatch)
    except EngineCrash as e:
        v.reject("process-killed:" + e.site, {"part": e.mode, "message": e.msg, "frames": e.frames},
                 {"mode": e.mode, "seed": vlib.seed(), "message": e.msg, "frames": e.frames})
        v.notes.append("the %s driver was killed by the code under test; the other parts of this run were not evaluated" % e.mode)
        return v.finish()


def check_body(prop, tier, v, u, d, gen, nsmall, nstress, nhammer, nbatch):
    with cf.ThreadPoolExecutor(max_workers=4) as ex:
        f_mc = ex.submit(model_check, u, tier)
        f_small = ex.submit(drive, "small", d, ["-runs", str(nsmall)])
        f_targ = ex.submit(drive, "targeted", d, [])
        f_stress = ex.submit(drive, "stress", d, ["-runs", str(nstress)])
        f_hammer = ex.submit(drive, "hammer", d, ["-runs", str(nhammer)])
        f_batch = ex.submit(drive, "batch", d, ["-runs", str(nbatch)])
        tr_small, st_small, races_small = f_small.result()
        tr_targ, st_targ, races_targ = f_targ.result()
        tr_stress, st_stress, races_stress = f_stress.result()
        tr_hammer, st_hammer, races_hammer = f_hammer.result()
        tr_batch, st_batch, races_batch = f_batch.result()
        # races: one history of Race events
        tr_race = os.path.join(d, "races.ndjson")
        races = races_small + races_targ + races_stress + races_hammer + races_batch
        nraces = race_events(races, 1, tr_race)
        # linearisation search (strict Layer A) over the small and the targeted histories; monitor over stress + races
        f_ls = ex.submit(lin_check, gen, tr_small)
        f_lt = ex.submit(lin_check, gen, tr_targ, "ConcTrace.cfg", 1)
        f_lx = ex.submit(lin_check, gen, tr_stress, "ConcTrace.cfg", 1)
        f_lr = ex.submit(lin_check, gen, tr_race, "ConcTrace.cfg", 1)
        f_lh = ex.submit(lin_check, gen, tr_hammer, "ConcTrace.cfg", 1)
        f_lb = ex.submit(lin_check, gen, tr_batch, "ConcTrace.cfg", 1)
        parts = {"small": (tr_small, f_ls.result()), "targeted": (tr_targ, f_lt.result()), "stress": (tr_stress, f_lx.result()),
                 "hammer": (tr_hammer, f_lh.result()), "batch": (tr_batch, f_lb.result()), "races": (tr_race, f_lr.result())}
        mc, mstates, mtrans = f_mc.result()

    # classification of the rejected histories: does the named Layer B deviation (shared options cell) explain them?
    tstates, ttrans, tevents = 0, 0, 0
    nrej = 0
    samples = []
    for name, (path, (rejected, bad, st, tr_, nev)) in parts.items():
        tstates += st
        ttrans += tr_
        tevents += nev
        explained = set()
        lines = None
        if rejected:
            sub = os.path.join(d, name + ".rejected.ndjson")
            m, lines = extract(path, [s for s, _ in rejected], sub)
            rej2, _, st2, tr2, _ = lin_check(gen, sub, "ConcTraceDev.cfg", workers=2)
            tstates += st2
            ttrans += tr2
            still = {m[s] for s, _ in rej2}
            explained = {s for s, _ in rejected} - still
        for s, hw in rejected:
            nrej += 1
            cls = "shared-lookupoptions-spurious-answer" if s in explained else "unexplained"
            h = short_hist(lines, s)
            v.reject(cls, {"part": name, "run": h[0]["run"], "first_unexplained_event": h[min(hw - 1, len(h) - 1)] if hw >= 1 else h[0],
                           "events": len(h) - 1}, {"history": h, "trace_reset_line": s, "history_events": full_hist(lines, s)})
        for ln, (cls, ev) in sorted(bad.items()):
            nrej += 1
            w = {k: ev[k] for k in ("ev", "run", "p", "f1", "f2", "pk1", "pk2", "s1", "s2", "shared", "info")}
            if ev["ev"] == "BatchObs":
                w = {"ev": "BatchObs", "run": ev["run"], "reader": ev["p"], "observes": ev["op"], "batch_size": ev["t"],
                     "legal_values": ev["b"], "observed_in_order": ev["res"][:40]}
            if ev["ev"] == "OptionsChanged":
                w["q"] = {k: x for k, x in ev["q"].items() if x not in (0, "", False)}
            v.reject(cls, w, {"event": ev, "part": name, "trace_line": ln})
        if name == "small":
            with open(path) as fh:
                hl = fh.read().splitlines()
            first = sorted(histories(path))[:2]
            samples += [short_hist(hl, s) for s in first]
    neg_run = negative_control(gen, tr_small, {s for s, _ in parts["small"][1][0]}, d)

    for st in (st_small, st_stress, st_hammer):
        if st.get("timeouts"):
            v.notes.append("watchdog fired: %s" % st)
    cov = v.cov
    cov.update({
        "states": mstates + tstates, "transitions": mtrans + ttrans,
        "traces_validated_against_impl": st_small.get("runs", 0) + st_targ.get("runs", 0) + st_stress.get("runs", 0) + st_hammer.get("runs", 0) + st_batch.get("runs", 0),
        "hammer_runs": st_hammer.get("runs", 0), "hammer_lookups": st_hammer.get("hammer_lookups", 0),
        "hammer_spurious_errors": st_hammer.get("hammer_spurious_errors", 0), "hammer_other_answers": st_hammer.get("hammer_other_answers", 0),
        "model": "ConcStore.tla: 2 processes x <=2 operations and 3 processes x 1 operation over 3 triples / 2 graph names",
        "model_configs": mc,
        "small_histories": st_small.get("runs", 0), "small_history_ops": {k[3:]: n for k, n in st_small.items() if k.startswith("op:")},
        "targeted_histories": st_targ.get("runs", 0), "targeted_options_changed": st_targ.get("t1_options_changed", 0),
        "targeted_spurious_errors": st_targ.get("t2_spurious_error", 0), "targeted_methods_skipped": st_targ.get("targeted_methods_skipped", 0),
        "stress_runs": st_stress.get("runs", 0), "stress_ops": st_stress.get("stress_ops", 0), "stress_lookups": st_stress.get("stress_lookups", 0),
        "stress_bql_statements": st_stress.get("stress_bql", 0), "stress_goroutines": st_stress.get("stress_goroutines", 0),
        "batch_runs": st_batch.get("runs", 0), "batch_max_size": st_batch.get("batch_max", 0), "batch_triples_added": st_batch.get("batch_triples", 0),
        "batch_observations": st_batch.get("batch_observations", 0), "batch_readers_overlapping_the_add": st_batch.get("batch_readers_overlapping_the_add", 0),
        "race_reports": nraces, "histories_rejected": sum(len(p[1][0]) for p in parts.values()),
        "events_validated": tevents, "rejected_cases": nrej, "negative_control_run": neg_run,
        "watchdog_fired": st_small.get("watchdog_fired", 0), "timeouts": st_small.get("timeouts", 0) + st_stress.get("timeouts", 0),
        "samples": samples,
    })
    v.assumptions += [
        "clients drain the result channels (a lookup that is never drained keeps the read lock by design)",
        "data-race freedom is the Go race detector's judgement on the executions that were run, not TLC's",
        "graph operations use ?g1 (never dropped); store operations create/get/drop other names; lookups are unpaged",
        "real-time order is taken from a global atomic counter read before each call and after its return"]
    return v.finish()
