#!/bin/sh
# Builds the verification harness from files on disk only (offline). Checks rebuild what they need
# from /repo's current working tree on every run; this only warms the Go build cache and verifies
# the tool chain (go, java/TLC) is usable.
set -e
cd "$(dirname "$0")"
export GOFLAGS=-mod=mod GOPROXY=off
unset GOSUMDB
mkdir -p .build out evidence
cp /repo/go.sum harness/go.sum
(cd harness && go build -tags verif -o ../.build/ ./cmd/...)
java -cp /opt/veriftools/tla/tla2tools.jar tlc2.TLC -h >/dev/null 2>&1 || true
echo "setup ok"
