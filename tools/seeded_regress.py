#!/usr/bin/env python3
"""tools/seeded_regress.py [--tier quick] [--seed N] [--only PREFIX] [--jobs K]
Re-runs every seeded breaking change under /verif/seeded against the check(s) of the property it breaks:
scratch worktree of /repo (removed afterwards), git apply, VERIF_REPO=<worktree> ./check <id>.
Prints one line per (change, check): CAUGHT (exit 1 + VIOLATION line) / MISSED (exit 0) / INFRA / STALE (patch no longer applies).
Writes out/seeded_regress.json. Never touches /repo's working tree."""
import concurrent.futures as cf
import json, os, re, subprocess, sys, shutil, tempfile

VERIF = os.path.dirname(os.path.dirname(os.path.abspath(__file__)))
args = sys.argv[1:]
def opt(name, default):
    return args[args.index(name) + 1] if name in args else default
tier, seed, only, jobs = opt("--tier", "quick"), opt("--seed", "1"), opt("--only", ""), int(opt("--jobs", "3"))

def one(name):
    d = os.path.join(VERIF, "seeded", name)
    meta = json.load(open(os.path.join(d, "meta.json")))
    if meta.get("stale"):
        return [(name, meta["property"], "STALE", "recorded: " + meta["stale"][:150])]
    checks = meta.get("checks") or [meta["property"]]
    wt = tempfile.mkdtemp(prefix="seedwt-%s-" % name)
    os.rmdir(wt)
    res = []
    try:
        subprocess.run(["git", "-C", "/repo", "worktree", "add", "-q", "--detach", wt, "HEAD"], check=True, capture_output=True)
        p = subprocess.run(["git", "-C", wt, "apply", os.path.join(d, "patch.diff")], capture_output=True, text=True)
        if p.returncode != 0:
            return [(name, c, "STALE", p.stderr.strip()[:200]) for c in checks]
        env = dict(os.environ, VERIF_REPO=wt, VERIF_SEED=seed)
        for c in checks:
            q = subprocess.run(["./check", c, "--tier", tier], cwd=VERIF, env=env, capture_output=True, text=True)
            nv = len(re.findall(r"^VIOLATION property=%s " % c, q.stdout, re.M))
            classes = sorted(set(re.findall(r"^  class=(\S+)", q.stdout, re.M)))
            st = "CAUGHT" if q.returncode == 1 and nv else ("MISSED" if q.returncode == 0 else "INFRA rc=%d" % q.returncode)
            res.append((name, c, st, ",".join(classes)[:160]))
    finally:
        subprocess.run(["git", "-C", "/repo", "worktree", "remove", "--force", wt], capture_output=True)
        shutil.rmtree(wt, ignore_errors=True)
    return res

names = sorted(n for n in os.listdir(os.path.join(VERIF, "seeded")) if n.startswith(only) and os.path.exists(os.path.join(VERIF, "seeded", n, "meta.json")))
out = []
with cf.ThreadPoolExecutor(max_workers=jobs) as ex:
    for rs in ex.map(one, names):
        for r in rs:
            print("%-34s %-4s %-8s %s" % r, flush=True)
            out.append({"change": r[0], "check": r[1], "result": r[2], "classes": r[3]})
os.makedirs(os.path.join(VERIF, "out"), exist_ok=True)
json.dump({"tier": tier, "seed": int(seed), "results": out}, open(os.path.join(VERIF, "out", "seeded_regress.json"), "w"), indent=1)
caught = {}
for o in out:
    caught[o["change"]] = caught.get(o["change"], False) or o["result"] == "CAUGHT"
print("changes: %d, caught by at least one of their checks: %d, not caught: %s" % (len(caught), sum(caught.values()), sorted(k for k, v in caught.items() if not v)))
