#!/bin/bash
# tools/try_mutant.sh <worktree> <mutant-dir> <tier> <check-id>...   : confirm a seeded change and run checks on it
# (worktree = scratch git worktree of /repo at HEAD; never /repo itself). Prints a summary; leaves the worktree clean.
wt=$1; md=$2; tier=$3; shift 3
export GOFLAGS=-mod=mod GOPROXY=off; unset GOSUMDB
cd $wt || exit 2
git checkout -q -- . ; git clean -fdq
name=$(basename $(dirname $md))-$(basename $md)
log=/tmp/try-$name.log; : > $log
if [ -d $md/demo ]; then
  sed -i "s#=> /tmp/wt-[A-Za-z0-9_-]*#=> $wt#" $md/demo/go.mod
  tagflag=""; grep -qs "go:build verif" $md/demo/*.go && tagflag="-tags verif"
  (cd $md/demo && cp $wt/go.sum . && go run $tagflag . >>$log 2>&1); d0=$?
else d0=NA; fi
git apply $md/patch.diff || { echo "$name: PATCH DOES NOT APPLY"; exit 2; }
go build ./... >>$log 2>&1 || { echo "$name: build fails"; git checkout -q -- .; exit 2; }
go test -vet=off -count=1 ./... > /tmp/try-$name.suite 2>&1; s=$?
if [ -d $md/demo ]; then (cd $md/demo && go run $tagflag . >>$log 2>&1); d1=$?; else d1=NA; fi
echo "$name: suite rc=$s ($(grep -c '^ok' /tmp/try-$name.suite) ok)  demo without=$d0 with=$d1"
for c in "$@"; do
  (cd ${VDIR:-/verif} && VERIF_REPO=$wt ./check $c --tier $tier > /tmp/try-$name.$c.out 2>&1); rc=$?
  echo "  check $c tier=$tier rc=$rc violations=$(grep -c '^VIOLATION' /tmp/try-$name.$c.out) known=$(grep -c '^KNOWN-FINDING' /tmp/try-$name.$c.out) infra=$(grep -c '^INFRA' /tmp/try-$name.$c.out)"
  grep '^VIOLATION' /tmp/try-$name.$c.out | head -3 | cut -c1-300
done
git checkout -q -- . ; git clean -fdq
