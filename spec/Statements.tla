----------------------------- MODULE Statements -----------------------------
(* Layer A - what the data and graph statements of BQL do to a store (C04).                        *)
(*                                                                                                  *)
(* State: the set of existing graph names and, per name, a SET of triples.  A triple is a record    *)
(* [s, p, o]: s = index in NODE, or a number >= BlankBase for a blank node created by reification;  *)
(* p = index in PRED (the universe lists every identifier x {immutable, instant} a template can     *)
(* build); o = cell (see BQLSemantics).                                                             *)
(*                                                                                                  *)
(*   INSERT / DELETE DATA   every target graph gets / loses exactly the listed triples              *)
(*   CREATE / DROP GRAPH    exactly the named graphs appear / disappear                             *)
(*   CONSTRUCT/DECONSTRUCT  every template is instantiated once per solution row of the WHERE       *)
(*                          pattern over the FROM graphs and the resulting triples are added to /   *)
(*                          removed from every target graph; a template with ';' adds per row the   *)
(*                          three reification triples and the extra facts on ONE blank node that is *)
(*                          fresh for that row and used nowhere else                                *)
(*   rejected before execution (parse/semantic error; CONSTRUCT/DECONSTRUCT naming a graph that     *)
(*                          does not exist)  =>  nothing changes                                    *)
(* A statement that fails DURING execution may leave each target graph either way; non-target       *)
(* graphs never change.                                                                             *)
EXTENDS BQLSemantics

BlankBase == 1000
IsBlank(n) == n >= BlankBase

PredIdx(id, n) == CHOOSE i \in DOMAIN PRED : PRED[i].id = id /\ PRED[i].n = n /\ PRED[i].tmp = (n > 0)
Bad == [s |-> 0, p |-> 0, o |-> Null]     \* a template that cannot be instantiated for a row

\* ---- template instantiation ---------------------------------------------------------------------
\* template = [s |-> [c, b], pairs |-> sequence of [p |-> [c, b, pid, ab], o |-> [ck, cv, b, pid, ab]]]
TplSubj(x, a) == IF x.c # 0 THEN x.c
                 ELSE IF x.b \in DOMAIN a /\ a[x.b].k = "N" THEN a[x.b].v ELSE 0
TplPred(x, a) == IF x.c # 0 THEN x.c
                 ELSE IF x.b # "" THEN (IF x.b \in DOMAIN a /\ a[x.b].k = "P" THEN a[x.b].v ELSE 0)
                 ELSE IF x.ab \in DOMAIN a /\ a[x.ab].k = "T" THEN PredIdx(x.pid, a[x.ab].v) ELSE 0
TplObj(x, a) == IF x.ck # "" THEN Cell(x.ck, x.cv)
                ELSE IF x.b # "" THEN (IF x.b \in DOMAIN a /\ a[x.b].k \in {"N", "P", "I", "F", "X", "B"} THEN a[x.b] ELSE Null)
                ELSE IF x.ab \in DOMAIN a /\ a[x.ab].k = "T" THEN Cell("P", PredIdx(x.pid, a[x.ab].v)) ELSE Null
Inst(s, pr, a) == LET ss == TplSubj(s, a)  pp == TplPred(pr.p, a)  oo == TplObj(pr.o, a)
                  IN  IF ss = 0 \/ pp = 0 \/ oo = Null THEN Bad ELSE [s |-> ss, p |-> pp, o |-> oo]

\* the plain triples of a template without ';' for the solutions S
PlainTriples(tpl, S) == {Inst(tpl.s, tpl.pairs[1], x.a) : x \in S}

\* reification: the facts hanging off the blank node of one row, as a set of [p, o]
ReifPred(name, p) == PredIdx(name, PRED[p].n)     \* same anchor as the reified predicate, else immutable
Group(tpl, a) ==
    LET t == Inst(tpl.s, tpl.pairs[1], a)
        extra == {Inst(tpl.s, tpl.pairs[k], a) : k \in 2..Len(tpl.pairs)}
    IN  IF t = Bad \/ Bad \in extra THEN {}
        ELSE {[p |-> ReifPred(STRID_SUBJECT, t.p), o |-> Cell("N", t.s)],
              [p |-> ReifPred(STRID_PREDICATE, t.p), o |-> Cell("P", t.p)],
              [p |-> ReifPred(STRID_OBJECT, t.p), o |-> t.o]} \cup {[p |-> e.p, o |-> e.o] : e \in extra}
InstFails(tpl, S) == \E x \in S : \E k \in DOMAIN tpl.pairs : Inst(tpl.s, tpl.pairs[k], x.a) = Bad

\* ---- effect of a statement on one target graph ---------------------------------------------------
\* old, new: sets of triples of the graph before and after; allBlanksBefore: blank nodes anywhere before
PlainPart(T) == {t \in T : ~IsBlank(t.s)}
BlankSubjects(T) == {t.s : t \in {u \in T : IsBlank(u.s)}}
FactsOf(T, b) == {[p |-> t.p, o |-> t.o] : t \in {u \in T : u.s = b}}
NoBlankObjects(T) == \A t \in T : ~(t.o.k = "N" /\ IsBlank(t.o.v))

\* CONSTRUCT on one target: plain triples added exactly; old blank nodes keep exactly their facts;
\* every new blank node is fresh (never seen before anywhere), is only ever a subject, and carries
\* exactly the facts of one (template, row); per distinct group of facts the number of blank nodes
\* lies between the number of distinct solutions and the number of witness tuples producing it.
ConstructOK(old, new, tpls, S, allBlanksBefore) ==
    LET plainT == {i \in DOMAIN tpls : Len(tpls[i].pairs) = 1}
        reifT  == {i \in DOMAIN tpls : Len(tpls[i].pairs) > 1}
        addPlain == UNION {PlainTriples(tpls[i], S) : i \in plainT}
        newB == BlankSubjects(new) \ BlankSubjects(old)
        groups == {<<i, Group(tpls[i], x.a)>> : i \in reifT, x \in S}
        up(i, g) == Cardinality({x \in S : Group(tpls[i], x.a) = g})
        lo(i, g) == Cardinality({x.a : x \in {y \in S : Group(tpls[i], y.a) = g}})
        have(g) == Cardinality({b \in newB : FactsOf(new, b) = g})
    IN  /\ PlainPart(new) = PlainPart(old) \cup addPlain
        /\ NoBlankObjects(new)
        /\ \A b \in BlankSubjects(old) : FactsOf(new, b) = FactsOf(old, b)
        /\ newB \cap allBlanksBefore = {}
        /\ \A b \in newB : \E gr \in groups : gr[2] = FactsOf(new, b)
        /\ \A gr \in groups : gr[2] # {} => have(gr[2]) >= lo(gr[1], gr[2])
        /\ \A b \in newB : LET g == FactsOf(new, b)
                               cap == LET is == {i \in reifT : <<i, g>> \in groups}
                                      IN  IF is = {} THEN 0 ELSE
                                          LET sum[J \in SUBSET is] == IF J = {} THEN 0
                                                  ELSE LET j == CHOOSE j \in J : TRUE IN up(j, g) + sum[J \ {j}]
                                          IN  sum[is]
                           IN  have(g) <= cap

DeconstructOK(old, new, tpls, S) ==
    new = old \ UNION {PlainTriples(tpls[i], S) : i \in DOMAIN tpls}
=============================================================================
