SPECIFICATION MSpec
CONSTANTS
  DevKeyNoOffset = FALSE
  DevPerHandle = FALSE
  DevUnguardedFill = TRUE
  DevFillOnError = FALSE
  DevKeyNoMethod = FALSE
  NR = 2
  MaxFaults = 0
VIEW MView
INVARIANT Transparent
CHECK_DEADLOCK FALSE
