SPECIFICATION Spec
CONSTANTS MaxTok = 9
 Cap = 2
 LookAhead = 2
 Drain = TRUE
INVARIANTS TypeOK LeakIff ParserAlwaysReturns
PROPERTIES LexerDone
CHECK_DEADLOCK FALSE
