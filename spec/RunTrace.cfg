SPECIFICATION TraceSpec
POSTCONDITION Consumed
CHECK_DEADLOCK FALSE
