SPECIFICATION SpecParse
INVARIANT ReportParse
CHECK_DEADLOCK FALSE
