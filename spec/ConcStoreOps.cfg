SPECIFICATION CSpec
CONSTANTS
  NP = 2
  MaxOps = 2
  Alphabet = {"NEW", "DEL", "GET", "NAMES", "A3", "L"}
  DevSharedOptionsCell = FALSE
  DevAddPerTriple = FALSE
VIEW CView
INVARIANTS Refines NoPartialBatch NoDeadlock NoPanic LocksFree OptionsKept OptionsUntouched
CHECK_DEADLOCK FALSE
