SPECIFICATION CSpec
CONSTANTS
  NP = 3
  MaxOps = 2
  Alphabet = {"A12", "R12", "L", "LA"}
  DevSharedOptionsCell = FALSE
  DevAddPerTriple = FALSE
VIEW CView
INVARIANTS Refines NoPartialBatch NoDeadlock NoPanic LocksFree OptionsKept OptionsUntouched
CHECK_DEADLOCK FALSE
