------------------------------ MODULE Identity ------------------------------
(* Layer B (implementation-shaped, design level) for C06: the BYTE STRINGS the code feeds to SHA1.  *)
(*                                                                                                  *)
(*   node       type bytes ++ id bytes                              (triple/node/node.go  UUID)     *)
(*   predicate  id ++ "immutable"  |  id ++ PutVarint(UnixNano) in a zeroed 16-byte buffer          *)
(*   literal    type name ++ ":" ++ payload, payload = "true"/"false" | PutVarint(v) padded with    *)
(*              zeros to 8 bytes, in full when it needs 9 or 10 bytes | IEEE-754 bits little endian *)
(*              | the text | the blob                                                               *)
(*   object     the byte string of the boxed node or literal; "predicate:" ++ UUID(p) for a boxed   *)
(*              predicate (a tag no node or literal byte string starts with: modelled by -1)        *)
(* IdentityU.Repaired = FALSE gives the design as first read: the int64 varint written into an      *)
(* 8-byte buffer (UNDEFINED when it needs 9 or 10 bytes: the code panicked) and objects without any *)
(* tag; its counterexamples were confirmed on the real code and repaired there (fixed: entries).    *)
(*   triple     UUID(subject) ++ UUID(predicate) ++ UUID(object)                                    *)
(*                                                                                                  *)
(* SHA1 is assumed injective, so UUID(v) is represented by Bytes(v) itself and a triple by the      *)
(* sequence of its three component byte strings.  The property the stores rely on is                *)
(*     Injective == equal bytes => SameValue       (and Total: every value has a byte string)       *)
(* TLC evaluates it for ALL pairs of the near-miss universe (IdentityU, generated from              *)
(* universe/values.json).  Every failing pair is printed   *)
(* (the node type/id boundary and the UnixNano wrap-around still fail);                            *)
(* printed as a candidate <<"COLLIDE", i, j>> / <<"UNDEF", i>> and becomes a finding only after the *)
(* Go driver has confirmed it on the real code (UUID(), Triple.Equal, Graph.Exist) and the recorded  *)
(* events were rejected by the Layer A monitor ValueTrace.tla.  Unconfirmed candidates are model     *)
(* drift, never a violation.                                                                         *)
(* Numbers and instants are opaque tokens (TLC has 32-bit integers): `num` is compared for equality, *)
(* `enc` is its encoding computed by lib/valuesu.py from the definitions of encoding/binary; the     *)
(* TLA+ definition of Varint below is cross-checked against it for every universe number that fits.  *)
EXTENDS Integers, Sequences, FiniteSets, TLC, IdentityU

N == Len(U)

\* ---- encoding/binary.PutVarint, for numbers that fit TLC integers ------------------------------
ZigZag(n) == IF n >= 0 THEN 2 * n ELSE -2 * n - 1
RECURSIVE Uvarint(_)
Uvarint(u) == IF u < 128 THEN <<u>> ELSE <<128 + (u % 128)>> \o Uvarint(u \div 128)
Varint(n) == Uvarint(ZigZag(n))
Pad(s, k) == s \o [i \in 1..(k - Len(s)) |-> 0]

VarintAgrees == \A i \in 1..N : U[i].hasSmall => U[i].enc = Varint(U[i].small)

\* ---- the byte strings ---------------------------------------------------------------------------
IMMUTABLE == <<105, 109, 109, 117, 116, 97, 98, 108, 101>>   \* "immutable"
COLON == 58

IsInt(v)   == v.k = "lit" /\ v.a = <<105, 110, 116, 54, 52>>                \* "int64"
IsFloat(v) == v.k = "lit" /\ v.a = <<102, 108, 111, 97, 116, 54, 52>>        \* "float64"

RECURSIVE Defined(_)
Defined(i) == LET v == U[i] IN
    CASE IsInt(v)        -> Repaired \/ Len(v.enc) <= 8     \* as first read: binary.PutVarint into make([]byte, 8)
      [] v.k = "obj"     -> Defined(v.ref[1])
      [] v.k = "triple"  -> Defined(v.ref[1]) /\ Defined(v.ref[2]) /\ Defined(v.ref[3])
      [] OTHER           -> TRUE

Payload(v) == IF IsInt(v) THEN (IF Len(v.enc) < 8 THEN Pad(v.enc, 8) ELSE v.enc)
              ELSE IF IsFloat(v) THEN v.enc
              ELSE v.b

RECURSIVE Bytes(_)
Bytes(i) == LET v == U[i]
                \* the value in OBJECT position: a boxed predicate carries the "predicate:" tag (modelled by -1)
                ObjBytes(r) == IF Repaired /\ U[r].k = "pred" THEN <<-1>> \o Bytes(r) ELSE Bytes(r)
            IN
    CASE v.k = "node"   -> v.a \o v.b
      [] v.k = "pred"   -> v.a \o (IF v.imm THEN IMMUTABLE ELSE Pad(v.enc, 16))
      [] v.k = "lit"    -> v.a \o <<COLON>> \o Payload(v)
      [] v.k = "obj"    -> ObjBytes(v.ref[1])
      [] v.k = "triple" -> <<Bytes(v.ref[1]), Bytes(v.ref[2]), ObjBytes(v.ref[3])>>

\* ---- Layer A value equality on the universe (components; instants zone-free) -------------------
RECURSIVE SameValue(_, _)
SameValue(i, j) == LET v == U[i]  w == U[j] IN
    /\ v.k = w.k
    /\ CASE v.k \in {"node", "pred", "lit"} -> v.a = w.a /\ v.b = w.b /\ v.imm = w.imm /\ v.num = w.num
         [] v.k = "obj"    -> SameValue(v.ref[1], w.ref[1])
         [] v.k = "triple" -> \A c \in 1..3 : SameValue(v.ref[c], w.ref[c])

\* objects are compared across the kinds they box; everything else within its kind
Collides(i, j) == /\ U[i].k = U[j].k
                  /\ Defined(i) /\ Defined(j)
                  /\ Bytes(i) = Bytes(j)
                  /\ ~SameValue(i, j)
Splits(i, j)   == /\ U[i].k = U[j].k
                  /\ Defined(i) /\ Defined(j)
                  /\ SameValue(i, j)
                  /\ Bytes(i) # Bytes(j)

Injective  == \A i, j \in 1..N : i < j => ~Collides(i, j)
Functional == \A i, j \in 1..N : i < j => ~Splits(i, j)
Total      == \A i \in 1..N : Defined(i)

\* ---- plausible OTHER encodings (sensitivity of the universe) --------------------------------------
\* A change of the code that swaps the current encoding for another one is only noticed if the universe holds
\* a pair of different values that the OTHER encoding maps to one byte string.  Each variant below is such an
\* encoding (some are the design as first read, some are simplifications a maintainer might make); TLC lists,
\* for every variant, the pairs that collide under it but not under the current design.  The check fails as
\* INFRA (not as a violation) when some variant has no such pair: the universe would be blind to it.
Variants == {"pred-varint-unpadded",      \* id ++ PutVarint(UnixNano) without the zero padding to 16 bytes
             "pred-decimal-nanos",        \* id ++ decimal text of UnixNano
             "literal-without-type",      \* payload only (as first read)
             "object-untagged-predicate", \* boxed predicate = its own bytes (as first read)
             "int64-varint-cut-to-8",     \* the varint of an int64 cut to its first eight bytes
             "node-with-separator"}       \* type ++ 0 ++ id : a REPAIR of the recorded node finding, must split the pairs
Cut8(s) == IF Len(s) > 8 THEN SubSeq(s, 1, 8) ELSE Pad(s, 8)
PayloadV(v, var) == IF IsInt(v) THEN (IF var = "int64-varint-cut-to-8" THEN Cut8(v.enc)
                                      ELSE IF Len(v.enc) < 8 THEN Pad(v.enc, 8) ELSE v.enc)
                    ELSE IF IsFloat(v) THEN v.enc ELSE v.b
RECURSIVE BytesV(_, _)
BytesV(i, var) ==
    LET v == U[i]
        ObjB(r) == IF var # "object-untagged-predicate" /\ U[r].k = "pred" THEN <<-1>> \o BytesV(r, var) ELSE BytesV(r, var)
    IN
    CASE v.k = "node"   -> IF var = "node-with-separator" THEN v.a \o <<0>> \o v.b ELSE v.a \o v.b
      [] v.k = "pred"   -> v.a \o (IF v.imm THEN IMMUTABLE
                                   ELSE CASE var = "pred-varint-unpadded" -> v.enc
                                          [] var = "pred-decimal-nanos"   -> v.dec
                                          [] OTHER                        -> Pad(v.enc, 16))
      [] v.k = "lit"    -> IF var = "literal-without-type" THEN PayloadV(v, var) ELSE v.a \o <<COLON>> \o PayloadV(v, var)
      [] v.k = "obj"    -> ObjB(v.ref[1])
      [] v.k = "triple" -> <<BytesV(v.ref[1], var), BytesV(v.ref[2], var), ObjB(v.ref[3])>>
\* a pair that tells the variant from the current design: different values, one byte string under the variant only
\* (for the repair variant: one byte string under the current design only)
Tells(i, j, var) == /\ U[i].k = U[j].k /\ ~SameValue(i, j) /\ Defined(i) /\ Defined(j)
                    /\ (BytesV(i, var) = BytesV(j, var)) # (Bytes(i) = Bytes(j))

\* ---- exhaustive evaluation, one state per pair; reports instead of stopping ---------------------
VARIABLE pr
Pairs == {<<i, j>> \in (1..N) \X (1..N) : i <= j /\ U[i].k = U[j].k}
Init == pr \in Pairs
Next == UNCHANGED pr
Spec == Init /\ [][Next]_pr

Report == LET i == pr[1]  j == pr[2] IN
    /\ (i < j /\ Collides(i, j)) => PrintT(<<"COLLIDE", i, j>>)
    /\ (i < j /\ Splits(i, j))   => PrintT(<<"SPLIT", i, j>>)
    /\ (i = j /\ ~Defined(i))    => PrintT(<<"UNDEF", i>>)
    /\ (Repaired /\ i < j) => \A var \in Variants : Tells(i, j, var) => PrintT(<<"TELLS", var, i, j>>)

ASSUME VarintAgrees
=============================================================================
