---------------------------- MODULE ExecPipeline ----------------------------
(* C20 - storage driver failures surface as errors: never success, hang or leak.                        *)
(*                                                                                                      *)
(* Layer B: the goroutines and channels that bql/planner starts while executing one statement, with a   *)
(* fault-injecting driver.  One sub-model per execution shape of planner.go / data_access.go:           *)
(*   fetch3     simpleFetch, SP/SO/PO branch: driver goroutine -> os -> main loop -> ts -> addTriples    *)
(*              goroutine; errors are looked at only after wg.Wait(); addTriples drains                  *)
(*   fetch2     simpleFetch, S/P/O/full branch: driver goroutine -> ts -> addTriples in the caller       *)
(*   fanout     specifyClauseWithTable: errgroup + weighted semaphore, one worker per row, the first     *)
(*              error cancels the group context, Wait returns the first error                            *)
(*   update     update(): one goroutine per target graph (store.Graph, then the write), errors joined;   *)
(*              INSERT/DELETE return (table, error)                                                      *)
(*   createdrop CREATE/DROP: sequential store calls, errors joined                                       *)
(*   construct  constructPlan.Execute: query, then tripChan (cap 2*bulk) -> background bulk writer that  *)
(*              calls update() per bulk; `done` rendez-vous; an error while building a triple takes the  *)
(*              fail() path                                                                              *)
(*   show       showPlan.Execute: goroutine { errs <- GraphNames(names); close(errs) }, main ranges over  *)
(*              names and then reads errs                                                                *)
(*   memo       a lookup of the fan-out made through storage/memoization: the memoizer starts the        *)
(*              forwarded read in its own goroutine (unbuffered channel c) and relays c to the caller    *)
(*              under select { <-ctx.Done(); objs <- o }; a failing sibling cancels the group context    *)
(* A fault is (failAt, mode, j): the failAt-th driver call of the statement fails before delivering      *)
(* anything, after delivering j elements, or instead of writing (FaultModes).  TLC enumerates every      *)
(* plan x channel size x fault and checks                                                               *)
(*   FailureSurfaces   a failed driver call => Execute returns a non-nil error            (Layer A)     *)
(*   Termination       Execute returns                                                    (Layer A)     *)
(*   NoGoroutineLeft   eventually no goroutine started for the statement remains          (Layer A)     *)
(* The named deviations are switches (TRUE = the behaviour named):                                      *)
(*   DevShowWrongErrVar          showPlan returns the outer (nil) `err` when GraphNames failed           *)
(*   DevConstructDropsWriteError the bulk writer's update() result is discarded     (repaired in /repo)  *)
(*   DevConstructLeavesWriter    the error path returns without closing tripChan    (repaired in /repo)  *)
(*   DevMemoNoDrainOnCancel      on ctx.Done() the memoized lookup returns without draining c: the       *)
(*                               goroutine of the forwarded read stays blocked on its send for ever       *)
(*   DevUpdateReturnsTable       INSERT/DELETE return the (empty) table together with the error - the    *)
(*                               property does not forbid it; FaultTrace counts it as `open`             *)
(* Environment assumption DriverCloses: a failing lookup still closes its channel (as storage/memory     *)
(* does on its own error paths); with FALSE every range-over-channel of the planner hangs.               *)
(*                                                                                                      *)
(* The second specification of this module, PlanSpec, enumerates the fault plans of the REAL corpus:      *)
(* FaultU (generated from the fault-free runs of harness/cmd/faultdrv) lists, per statement, the driver   *)
(* calls it makes; every position x FaultModes of the call is printed as one JSON line for the driver.    *)
EXTENDS Integers, Sequences, FiniteSets, TLC, Json, FaultU

CONSTANTS DevShowWrongErrVar, DevConstructDropsWriteError, DevConstructLeavesWriter, DevUpdateReturnsTable,
          DevMemoNoDrainOnCancel,
          DriverCloses,
          Plans,        \* sub-models to explore
          ChanSizes     \* channel capacities to explore (chanSize of planner.New)

\* ---- the fault domain (shared by the model and by the enumeration of real fault plans) ----------------
\* kind of a driver call: "store" (NewGraph/Graph/DeleteGraph), "exist", "write" (Add/RemoveTriples),
\* "stream" (the 11 lookups, GraphNames) delivering n elements when nothing fails
FaultModes(kind, n) ==
    CASE kind = "stream" -> {[mode |-> "before", j |-> 0]} \cup {[mode |-> "after", j |-> j] : j \in 1..n}
      [] kind = "write"  -> {[mode |-> "write", j |-> 0]}
      [] OTHER           -> {[mode |-> "before", j |-> 0]}

\* ---- model constants ----------------------------------------------------------------------------------
K == 2          \* elements a lookup delivers when it does not fail
R == 3          \* rows of the fan-out
SemCap == 2     \* weight of the semaphore (GOMAXPROCS in the code)
NG == 2         \* target graphs of update / names of create-drop
NT == 3         \* triples CONSTRUCT builds
Bulk == 2       \* bulkSize

Procs == {"main", "drv", "add", "spawn", "w1", "w2", "w3", "u1", "u2", "bw", "gn", "mz"}
Worker(r) == CASE r = 1 -> "w1" [] r = 2 -> "w2" [] OTHER -> "w3"
Updater(g) == IF g = 1 THEN "u1" ELSE "u2"

\* driver calls of each sub-model: sequence of [kind, n]
CallsOf(pl) ==
    CASE pl = "fetch3" -> <<[kind |-> "stream", n |-> K]>>
      [] pl = "fetch2" -> <<[kind |-> "stream", n |-> K]>>
      [] pl = "fanout" -> [r \in 1..R |-> [kind |-> "exist", n |-> 0]]
      [] pl = "update" -> [i \in 1..(2 * NG) |-> IF i % 2 = 1 THEN [kind |-> "store", n |-> 0] ELSE [kind |-> "write", n |-> 0]]
      [] pl = "createdrop" -> [i \in 1..NG |-> [kind |-> "store", n |-> 0]]
      [] pl = "construct" -> <<[kind |-> "stream", n |-> 0], [kind |-> "store", n |-> 0], [kind |-> "write", n |-> 0],
                               [kind |-> "store", n |-> 0], [kind |-> "write", n |-> 0]>>
      [] pl = "show" -> <<[kind |-> "stream", n |-> K]>>
      [] pl = "memo" -> <<[kind |-> "stream", n |-> K], [kind |-> "exist", n |-> 0]>>   \* #2: a sibling's call

VARIABLES plan, cs,           \* sub-model and channel size of this behaviour
          fat, fmode, fj,     \* the fault: call number (0 = none), mode, elements delivered before failing
          lerrAt,             \* construct: building the lerrAt-th triple fails (0 = never) - not a driver failure
          pc, chans,
          sent, oerr,         \* streaming driver: elements sent, error returned
          sem, cancelled, gerr, si,   \* fan-out
          uerr, ci, cn, buf, fin,     \* update / create-drop / construct
          failed,             \* some driver call failed
          lfailed,            \* building a triple failed
          returned, ret       \* Execute returned [tbl, err]

vars == <<plan, cs, fat, fmode, fj, lerrAt, pc, chans, sent, oerr, sem, cancelled, gerr, si, uerr, ci, cn, buf, fin,
          failed, lfailed, returned, ret>>

\* ---- channels -------------------------------------------------------------------------------------------
Chan(cap) == [q |-> <<>>, cap |-> cap, closed |-> FALSE]
Room(c) == ~chans[c].closed /\ Len(chans[c].q) < (IF chans[c].cap = 0 THEN 1 ELSE chans[c].cap)
Taken(c) == chans[c].cap > 0 \/ chans[c].q = <<>>      \* an unbuffered send completes when the element was taken
Has(c) == chans[c].q # <<>>
Drained(c) == chans[c].q = <<>> /\ chans[c].closed
Put(c, x) == chans' = [chans EXCEPT ![c].q = Append(@, x)]
Take(c) == chans' = [chans EXCEPT ![c].q = Tail(@)]
Close(c) == chans' = [chans EXCEPT ![c].closed = TRUE]

Goto(p, l) == pc' = [pc EXCEPT ![p] = l]
Done(p) == pc[p] \in {"off", "done"}
Return(t, e) == returned' = TRUE /\ ret' = [tbl |-> t, err |-> e]
Fault(n, m) == fat = n /\ fmode = m

\* ---- initial states: every sub-model x channel size x fault -------------------------------------------------
FaultChoices(pl) == {[at |-> 0, mode |-> "none", j |-> 0]} \cup
                    UNION {{[at |-> i, mode |-> f.mode, j |-> f.j] : f \in FaultModes(CallsOf(pl)[i].kind, CallsOf(pl)[i].n)}
                           : i \in DOMAIN CallsOf(pl)}

Init == \E pl \in Plans, c \in ChanSizes, le \in 0..NT : \E f \in FaultChoices(pl) :
          /\ (le # 0 => pl = "construct")
          /\ plan = pl /\ cs = c /\ fat = f.at /\ fmode = f.mode /\ fj = f.j /\ lerrAt = le
          /\ pc = [p \in Procs |-> IF p = "main" THEN "start" ELSE "off"]
          /\ chans = [n \in {"os", "ts", "trip", "done", "names", "errs", "c"} |->
                         CASE n \in {"os", "ts"} -> Chan(c) [] n = "trip" -> Chan(2 * Bulk) [] OTHER -> Chan(0)]
          /\ sent = 0 /\ oerr = FALSE
          /\ sem = SemCap /\ cancelled = FALSE /\ gerr = FALSE /\ si = 1
          /\ uerr = FALSE /\ ci = 1 /\ cn = 2 /\ buf = 0 /\ fin = FALSE
          /\ failed = FALSE /\ lfailed = FALSE /\ returned = FALSE /\ ret = [tbl |-> FALSE, err |-> FALSE]

\* ---- the streaming driver call, run by process p into channel out; `next` = pc after it returned ----------
Drv(p, out, next) ==
    \/ /\ pc[p] = "d.loop"
       /\ IF Fault(1, "before") \/ (Fault(1, "after") /\ sent = fj)
          THEN /\ oerr' = TRUE /\ failed' = TRUE
               /\ IF DriverCloses THEN Close(out) ELSE UNCHANGED chans
               /\ Goto(p, next) /\ UNCHANGED sent
          ELSE IF sent < K
          THEN Room(out) /\ Put(out, "x") /\ sent' = sent + 1 /\ Goto(p, "d.sent") /\ UNCHANGED <<oerr, failed>>
          ELSE Close(out) /\ Goto(p, next) /\ UNCHANGED <<sent, oerr, failed>>
    \/ /\ pc[p] = "d.sent" /\ Taken(out) /\ Goto(p, "d.loop") /\ UNCHANGED <<chans, sent, oerr, failed>>

\* ---- fetch3 -------------------------------------------------------------------------------------------------
Fetch3 ==
    /\ plan = "fetch3"
    /\ \/ /\ pc["main"] = "start"
          /\ pc' = [pc EXCEPT !["main"] = "f3.recv", !["drv"] = "d.loop", !["add"] = "a.recv"]
          /\ UNCHANGED <<chans, sent, oerr, failed, returned, ret>>
       \/ /\ pc["main"] = "f3.recv"
          /\ \/ Has("os") /\ Take("os") /\ Goto("main", "f3.send")
             \/ Drained("os") /\ Close("ts") /\ Goto("main", "f3.wait")
          /\ UNCHANGED <<sent, oerr, failed, returned, ret>>
       \/ /\ pc["main"] = "f3.send" /\ Room("ts") /\ Put("ts", "t") /\ Goto("main", "f3.sent")
          /\ UNCHANGED <<sent, oerr, failed, returned, ret>>
       \/ /\ pc["main"] = "f3.sent" /\ Taken("ts") /\ Goto("main", "f3.recv")
          /\ UNCHANGED <<chans, sent, oerr, failed, returned, ret>>
       \/ /\ pc["main"] = "f3.wait" /\ Done("drv") /\ Done("add")       \* wg.Wait(), then the errors are looked at
          /\ Return(~oerr, oerr) /\ Goto("main", "done")
          /\ UNCHANGED <<chans, sent, oerr, failed>>
       \/ Drv("drv", "os", "done") /\ UNCHANGED <<returned, ret>>
       \/ /\ pc["add"] = "a.recv"
          /\ \/ Has("ts") /\ Take("ts") /\ UNCHANGED pc
             \/ Drained("ts") /\ Goto("add", "done") /\ UNCHANGED chans
          /\ UNCHANGED <<sent, oerr, failed, returned, ret>>
    /\ UNCHANGED <<sem, cancelled, gerr, si, uerr, ci, cn, buf, fin, lfailed>>

\* ---- fetch2 -------------------------------------------------------------------------------------------------
Fetch2 ==
    /\ plan = "fetch2"
    /\ \/ /\ pc["main"] = "start"
          /\ pc' = [pc EXCEPT !["main"] = "f2.recv", !["drv"] = "d.loop"]
          /\ UNCHANGED <<chans, sent, oerr, failed, returned, ret>>
       \/ /\ pc["main"] = "f2.recv"
          /\ \/ Has("ts") /\ Take("ts") /\ UNCHANGED pc
             \/ Drained("ts") /\ Goto("main", "f2.wait") /\ UNCHANGED chans
          /\ UNCHANGED <<sent, oerr, failed, returned, ret>>
       \/ /\ pc["main"] = "f2.wait" /\ Done("drv")
          /\ Return(~oerr, oerr) /\ Goto("main", "done")
          /\ UNCHANGED <<chans, sent, oerr, failed>>
       \/ Drv("drv", "ts", "done") /\ UNCHANGED <<returned, ret>>
    /\ UNCHANGED <<sem, cancelled, gerr, si, uerr, ci, cn, buf, fin, lfailed>>

\* ---- fanout ---------------------------------------------------------------------------------------------------
Fanout ==
    /\ plan = "fanout"
    /\ \/ /\ pc["main"] = "start"
          /\ pc' = [pc EXCEPT !["main"] = "fo.wait", !["spawn"] = "s.loop"]
          /\ UNCHANGED <<sem, cancelled, gerr, si, failed, returned, ret>>
       \/ /\ pc["spawn"] = "s.loop"
          /\ IF si > R \/ cancelled
             THEN Goto("spawn", "done") /\ UNCHANGED <<sem, si>>          \* loop ended, or gCtx.Err() / Acquire failed
             ELSE /\ sem > 0 /\ sem' = sem - 1 /\ si' = si + 1
                  /\ pc' = [pc EXCEPT ![Worker(si)] = "w.call"]
          /\ UNCHANGED <<cancelled, gerr, failed, returned, ret>>
       \/ \E r \in 1..R :
             \/ /\ pc[Worker(r)] = "w.call"
                /\ IF fat = r
                   THEN failed' = TRUE /\ gerr' = TRUE /\ cancelled' = TRUE   \* errOnce: first error kept, context cancelled
                   ELSE UNCHANGED <<failed, gerr, cancelled>>
                /\ Goto(Worker(r), "w.rel") /\ UNCHANGED <<sem, si, returned, ret>>
             \/ /\ pc[Worker(r)] = "w.rel" /\ sem' = sem + 1 /\ Goto(Worker(r), "done")
                /\ UNCHANGED <<cancelled, gerr, si, failed, returned, ret>>
       \/ /\ pc["main"] = "fo.wait" /\ Done("spawn") /\ \A r \in 1..R : Done(Worker(r))
          /\ Return(~gerr, gerr) /\ Goto("main", "done")
          /\ UNCHANGED <<sem, cancelled, gerr, si, failed>>
    /\ UNCHANGED <<chans, sent, oerr, uerr, ci, cn, buf, fin, lfailed>>

\* ---- update (INSERT / DELETE) ------------------------------------------------------------------------------------
Update ==
    /\ plan = "update"
    /\ \/ /\ pc["main"] = "start"
          /\ pc' = [pc EXCEPT !["main"] = "up.wait", !["u1"] = "u.graph", !["u2"] = "u.graph"]
          /\ UNCHANGED <<uerr, failed, returned, ret>>
       \/ \E g \in 1..NG :
             \/ /\ pc[Updater(g)] = "u.graph"
                /\ IF fat = 2 * g - 1
                   THEN failed' = TRUE /\ uerr' = TRUE /\ Goto(Updater(g), "done")
                   ELSE Goto(Updater(g), "u.write") /\ UNCHANGED <<failed, uerr>>
                /\ UNCHANGED <<returned, ret>>
             \/ /\ pc[Updater(g)] = "u.write"
                /\ IF fat = 2 * g THEN failed' = TRUE /\ uerr' = TRUE ELSE UNCHANGED <<failed, uerr>>
                /\ Goto(Updater(g), "done") /\ UNCHANGED <<returned, ret>>
       \/ /\ pc["main"] = "up.wait" /\ \A g \in 1..NG : Done(Updater(g))
          /\ Return(IF DevUpdateReturnsTable THEN TRUE ELSE ~uerr, uerr) /\ Goto("main", "done")
          /\ UNCHANGED <<uerr, failed>>
    /\ UNCHANGED <<chans, sent, oerr, sem, cancelled, gerr, si, ci, cn, buf, fin, lfailed>>

\* ---- create / drop -----------------------------------------------------------------------------------------------
CreateDrop ==
    /\ plan = "createdrop"
    /\ \/ /\ pc["main"] = "start" /\ Goto("main", "cd.loop") /\ UNCHANGED <<uerr, ci, failed, returned, ret>>
       \/ /\ pc["main"] = "cd.loop"
          /\ IF ci > NG
             THEN Return(~uerr, uerr) /\ Goto("main", "done") /\ UNCHANGED <<uerr, ci, failed>>
             ELSE /\ IF fat = ci THEN failed' = TRUE /\ uerr' = TRUE ELSE UNCHANGED <<failed, uerr>>
                  /\ ci' = ci + 1 /\ UNCHANGED <<pc, returned, ret>>
    /\ UNCHANGED <<chans, sent, oerr, sem, cancelled, gerr, si, cn, buf, fin, lfailed>>

\* ---- construct / deconstruct ----------------------------------------------------------------------------------------
Construct ==
    /\ plan = "construct"
    /\ \/ /\ pc["main"] = "start"                          \* the query part (its own pipeline is fetch*/fanout)
          /\ IF fat = 1
             THEN failed' = TRUE /\ Return(FALSE, TRUE) /\ Goto("main", "done")
             ELSE pc' = [pc EXCEPT !["main"] = "c.prod", !["bw"] = "b.recv"] /\ UNCHANGED <<failed, returned, ret>>
          /\ UNCHANGED <<chans, uerr, ci, cn, buf, fin, lfailed>>
       \/ /\ pc["main"] = "c.prod"
          /\ IF ci > NT
             THEN Close("trip") /\ Goto("main", "c.waitdone") /\ UNCHANGED <<ci, lfailed, returned, ret>>
             ELSE IF lerrAt = ci
             THEN /\ lfailed' = TRUE /\ UNCHANGED ci
                  /\ IF DevConstructLeavesWriter
                     THEN Return(FALSE, TRUE) /\ Goto("main", "done") /\ UNCHANGED chans
                     ELSE Close("trip") /\ Goto("main", "c.failwait") /\ UNCHANGED <<returned, ret>>
             ELSE Room("trip") /\ Put("trip", "t") /\ ci' = ci + 1 /\ UNCHANGED <<pc, lfailed, returned, ret>>
          /\ UNCHANGED <<uerr, cn, buf, fin, failed>>
       \/ /\ pc["main"] = "c.failwait" /\ Has("done") /\ Take("done")
          /\ Return(FALSE, TRUE) /\ Goto("main", "done")
          /\ UNCHANGED <<uerr, ci, cn, buf, fin, failed, lfailed>>
       \/ /\ pc["main"] = "c.waitdone" /\ Has("done") /\ Take("done")
          /\ LET e == uerr /\ ~DevConstructDropsWriteError IN Return(~e, e)
          /\ Goto("main", "done")
          /\ UNCHANGED <<uerr, ci, cn, buf, fin, failed, lfailed>>
       \* the background bulk writer
       \/ /\ pc["bw"] = "b.recv"
          /\ \/ /\ Has("trip") /\ Take("trip") /\ buf' = buf + 1
                /\ IF buf + 1 >= Bulk THEN Goto("bw", "b.graph") ELSE UNCHANGED pc
                /\ UNCHANGED fin
             \/ /\ Drained("trip") /\ fin' = TRUE
                /\ IF buf > 0 THEN Goto("bw", "b.graph") ELSE Goto("bw", "b.done")
                /\ UNCHANGED <<chans, buf>>
          /\ UNCHANGED <<uerr, ci, cn, failed, lfailed, returned, ret>>
       \/ /\ pc["bw"] = "b.graph"                           \* update(): store.Graph of the target graph
          /\ IF fat = cn
             THEN /\ failed' = TRUE /\ uerr' = TRUE /\ cn' = cn + 2 /\ buf' = 0
                  /\ Goto("bw", IF fin THEN "b.done" ELSE "b.recv")
             ELSE cn' = cn + 1 /\ Goto("bw", "b.write") /\ UNCHANGED <<failed, uerr, buf>>
          /\ UNCHANGED <<chans, ci, fin, lfailed, returned, ret>>
       \/ /\ pc["bw"] = "b.write"                           \* update(): AddTriples / RemoveTriples
          /\ IF fat = cn THEN failed' = TRUE /\ uerr' = TRUE ELSE UNCHANGED <<failed, uerr>>
          /\ cn' = cn + 1 /\ buf' = 0
          /\ Goto("bw", IF fin THEN "b.done" ELSE "b.recv")
          /\ UNCHANGED <<chans, ci, fin, lfailed, returned, ret>>
       \/ /\ pc["bw"] = "b.done" /\ Room("done") /\ Put("done", "d") /\ Goto("bw", "b.sent")
          /\ UNCHANGED <<uerr, ci, cn, buf, fin, failed, lfailed, returned, ret>>
       \/ /\ pc["bw"] = "b.sent" /\ Taken("done") /\ Goto("bw", "done")
          /\ UNCHANGED <<chans, uerr, ci, cn, buf, fin, failed, lfailed, returned, ret>>
    /\ UNCHANGED <<sent, oerr, sem, cancelled, gerr, si>>

\* ---- show graphs --------------------------------------------------------------------------------------------------------
Show ==
    /\ plan = "show"
    /\ \/ /\ pc["main"] = "start"
          /\ pc' = [pc EXCEPT !["main"] = "sh.recv", !["gn"] = "d.loop"]
          /\ UNCHANGED <<chans, sent, oerr, failed, returned, ret>>
       \/ /\ pc["main"] = "sh.recv"
          /\ \/ Has("names") /\ Take("names") /\ UNCHANGED pc
             \/ Drained("names") /\ Goto("main", "sh.err") /\ UNCHANGED chans
          /\ UNCHANGED <<sent, oerr, failed, returned, ret>>
       \/ /\ pc["main"] = "sh.err" /\ Has("errs")
          /\ LET e == Head(chans["errs"].q) IN
                IF e THEN (IF DevShowWrongErrVar THEN Return(FALSE, FALSE) ELSE Return(FALSE, TRUE))
                ELSE Return(TRUE, FALSE)
          /\ Take("errs") /\ Goto("main", "done")
          /\ UNCHANGED <<sent, oerr, failed>>
       \/ Drv("gn", "names", "g.err") /\ UNCHANGED <<returned, ret>>
       \/ /\ pc["gn"] = "g.err" /\ Room("errs") /\ Put("errs", oerr) /\ Goto("gn", "g.sent")
          /\ UNCHANGED <<sent, oerr, failed, returned, ret>>
       \/ /\ pc["gn"] = "g.sent" /\ Taken("errs") /\ Close("errs") /\ Goto("gn", "done")
          /\ UNCHANGED <<sent, oerr, failed, returned, ret>>
    /\ UNCHANGED <<sem, cancelled, gerr, si, uerr, ci, cn, buf, fin, lfailed>>

\* ---- a memoized lookup inside the fan-out ------------------------------------------------------------------------------
\* call #1 = the forwarded read (process drv, started by the memoizer mz), call #2 = a sibling's call whose
\* failure cancels the errgroup context at an arbitrary moment.
Memo ==
    /\ plan = "memo"
    /\ \/ /\ pc["main"] = "start"
          /\ pc' = [pc EXCEPT !["main"] = "mm.recv", !["mz"] = "m.recv", !["drv"] = "d.loop"]
          /\ UNCHANGED <<chans, sent, oerr, failed, cancelled, gerr, returned, ret>>
       \/ /\ fat = 2 /\ ~cancelled /\ ~returned                  \* the sibling fails: errOnce keeps its error, cancels
          /\ cancelled' = TRUE /\ gerr' = TRUE /\ failed' = TRUE
          /\ UNCHANGED <<pc, chans, sent, oerr, returned, ret>>
       \/ Drv("drv", "c", "done") /\ UNCHANGED <<cancelled, gerr, returned, ret>>
       \/ /\ pc["mz"] = "m.recv"
          /\ \/ Has("c") /\ Take("c") /\ Goto("mz", "m.fwd")
             \/ Drained("c") /\ Done("drv") /\ Close("os") /\ Goto("mz", "done")     \* wg.Wait(); defer close(objs)
          /\ UNCHANGED <<sent, oerr, failed, cancelled, gerr, returned, ret>>
       \/ /\ pc["mz"] = "m.fwd"                                  \* select { case <-ctx.Done(): ... case objs <- o: ... }
          /\ \/ /\ cancelled /\ Close("os")
                /\ Goto("mz", IF DevMemoNoDrainOnCancel THEN "done" ELSE "m.drain")
             \/ Room("os") /\ Put("os", "o") /\ Goto("mz", "m.sent")
          /\ UNCHANGED <<sent, oerr, failed, cancelled, gerr, returned, ret>>
       \/ /\ pc["mz"] = "m.sent" /\ Taken("os") /\ Goto("mz", "m.recv")
          /\ UNCHANGED <<chans, sent, oerr, failed, cancelled, gerr, returned, ret>>
       \/ /\ pc["mz"] = "m.drain"                                \* the repair: keep receiving until the driver closes c
          /\ \/ Has("c") /\ Take("c") /\ UNCHANGED pc
             \/ Drained("c") /\ Goto("mz", "done") /\ UNCHANGED chans
          /\ UNCHANGED <<sent, oerr, failed, cancelled, gerr, returned, ret>>
       \/ /\ pc["main"] = "mm.recv"
          /\ \/ Has("os") /\ Take("os") /\ UNCHANGED pc
             \/ Drained("os") /\ Goto("main", "mm.wait") /\ UNCHANGED chans
          /\ UNCHANGED <<sent, oerr, failed, cancelled, gerr, returned, ret>>
       \/ /\ pc["main"] = "mm.wait" /\ Done("mz")
          /\ LET e == oerr \/ gerr \/ cancelled IN Return(~e, e)
          /\ Goto("main", "done")
          /\ UNCHANGED <<chans, sent, oerr, failed, cancelled, gerr>>
    /\ UNCHANGED <<sem, si, uerr, ci, cn, buf, fin, lfailed>>

Next == /\ (Fetch3 \/ Fetch2 \/ Fanout \/ Update \/ CreateDrop \/ Construct \/ Show \/ Memo)
        /\ UNCHANGED <<plan, cs, fat, fmode, fj, lerrAt>>

\* every goroutine that can take a step eventually does (the Go scheduler is fair)
Spec == Init /\ [][Next]_vars /\ WF_vars(Next)

\* ---- properties -----------------------------------------------------------------------------------------------------------
TypeOK == /\ pc \in [Procs -> STRING] /\ sem \in 0..SemCap /\ returned \in BOOLEAN

\* a failed driver call (or a failure to build a triple) is reported by a non-nil error
FailureSurfaces == returned => ((failed \/ lfailed) => ret.err)
\* never (nil, nil), and success means a table
ReturnsSomething == returned => (ret.err \/ ret.tbl)
\* stricter than the property (see DevUpdateReturnsTable): no table next to the error
NoTableWithError == returned => ~(ret.tbl /\ ret.err)
\* no driver call fails after Execute returned (nothing keeps running behind the caller's back)
NoLateFailure == [][returned => (failed' = failed)]_vars

Termination == <>returned
NoGoroutineLeft == <>[](\A p \in Procs \ {"main"} : Done(p))

\* ======================================================================================================================
\* Enumeration of the fault plans of the real corpus (cfg ExecPlans.cfg, SPECIFICATION PlanSpec).
\* Stmts (module FaultU) == sequence of [stmt, cfg, calls]; calls == sequence of [kind, n].
PlanSet == UNION {UNION {{[i |-> i, at |-> a, mode |-> f.mode, j |-> f.j] : f \in FaultModes(Stmts[i].calls[a].kind, Stmts[i].calls[a].n)}
                         : a \in DOMAIN Stmts[i].calls} : i \in DOMAIN Stmts}

PlanInit == /\ \E p \in PlanSet :
                  /\ plan = p
                  /\ PrintT(ToJson([stmt |-> Stmts[p.i].stmt, cfg |-> Stmts[p.i].cfg, at |-> p.at, mode |-> p.mode, j |-> p.j]))
            /\ cs = 0 /\ fat = 0 /\ fmode = "" /\ fj = 0 /\ lerrAt = 0 /\ pc = <<>> /\ chans = <<>> /\ sent = 0 /\ oerr = FALSE
            /\ sem = 0 /\ cancelled = FALSE /\ gerr = FALSE /\ si = 0 /\ uerr = FALSE /\ ci = 0 /\ cn = 0 /\ buf = 0 /\ fin = FALSE
            /\ failed = FALSE /\ lfailed = FALSE /\ returned = FALSE /\ ret = <<>>
PlanSpec == PlanInit /\ [][UNCHANGED vars]_vars
=============================================================================
