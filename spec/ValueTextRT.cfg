SPECIFICATION SpecRT
INVARIANT ReportRT
CHECK_DEADLOCK FALSE
