----------------------------- MODULE ValueTrace -----------------------------
(* Layer A monitor of the value family: what C05, C06 and C15 promise about node / predicate /      *)
(* literal / object / triple values, judged on events recorded from the REAL code by               *)
(* harness/cmd/valuedrv.  This module is the only oracle that produces verdicts for these           *)
(* properties; Identity.tla and ValueText.tla (Layer B) only generate candidates.                   *)
(*                                                                                                  *)
(* A value is logged as a sequence of component records [k, a, b, c, z] (all strings), obtained     *)
(* with accessors only (Type(), ID(), TimeAnchor(), Interface(), Subject()...):                     *)
(*    node  k="node" a=type       b=id                                                              *)
(*    pred  k="pred" a=id         b="imm"|"tmp"   c="<unix s>.<ns>" (the instant)   z=zone offset s  *)
(*    lit   k="lit"  a=type name  b=value token (true|false, decimal int64, hex float bits, text,    *)
(*                                               hex blob)                                          *)
(* a node/predicate/literal/object is one record, a triple three.  Numbers and instants are opaque   *)
(* canonical tokens: the specification only compares them for equality.                              *)
(*                                                                                                  *)
(* The monitor never blocks: each event is judged on its own; a rejected event prints                *)
(*     <<"REJECT", line, property, class>>      (an event the property leaves open: "OPEN")          *)
(* and the whole trace must be consumed (POSTCONDITION), otherwise the run is an INFRA error.        *)
EXTENDS Integers, Sequences, FiniteSets, TLC, Json, IOUtils

Trace == ndJsonDeserialize(IOEnv.TRACE_FILE)

VARIABLE l
e == Trace[l]
Range(s) == {s[i] : i \in DOMAIN s}
B2S(b) == IF b THEN "true" ELSE "false"

\* ---- value equality ---------------------------------------------------------------------------
\* C06 / graph membership: same kind and equal components, anchors compared as instants (the zone
\* offset z is ignored).  C05 additionally wants the same offset: plain record equality.
SameRec(r, s) == r.k = s.k /\ r.a = s.a /\ r.b = s.b /\ r.c = s.c
SameValue(v, w) == Len(v) = Len(w) /\ \A i \in DOMAIN v : SameRec(v[i], w[i])

\* +0 and -0 are distinct float64 bit patterns that compare equal in Go; the properties do not say
\* whether they are "equal components", so a pair that differs only there is left open.
PZ == "0000000000000000"
NZ == "8000000000000000"
Norm(r) == IF r.k = "lit" /\ r.a = "float64" /\ r.b = NZ THEN [r EXCEPT !.b = PZ] ELSE r
SameUpToZeroSign(v, w) == Len(v) = Len(w) /\ \A i \in DOMAIN v : SameRec(Norm(v[i]), Norm(w[i]))

\* ---- C05: RoundTrip(kind, value, printed, parsed | error, reprinted) -----------------------------
\* dom lists the features of the value that lie outside (or not clearly inside) the documented
\* domain; the verdict is then left open.
RTVerdict ==
    IF e.dom # <<>> THEN "open"
    ELSE IF e.out \in {"print-panic", "panic", "reprint-panic", "timeout"} THEN e.out
    ELSE IF e.out = "nil" THEN "nil-without-error"
    ELSE IF e.out = "invalid" THEN "ill-formed-value"
    ELSE IF e.out = "error" THEN "printed-form-rejected"
    ELSE IF e.out # "value" THEN "harness"
    ELSE IF e.pv # e.v THEN (IF SameValue(e.pv, e.v) THEN "zone-offset-changed" ELSE "parsed-value-differs")
    ELSE IF e.reprinted # e.printed THEN "reprint-differs"
    ELSE "ok"

\* GraphRoundTrip: g = Triples(source graph), g2 = Triples(graph read back from the written text);
\* read = written = Triples(g), and both operations report |Triples(g)|.
GRTVerdict ==
    IF e.dom # <<>> THEN "open"
    ELSE IF e.out # "ok" THEN e.out
    ELSE IF Cardinality(Range(e.g)) # Len(e.g) THEN "listing-repeats-a-triple"
    ELSE IF e.werr THEN "write-error"
    ELSE IF e.wcount # Len(e.g) THEN "write-count"
    ELSE IF e.rerr THEN "read-error"
    ELSE IF Range(e.g2) # Range(e.g) \/ Len(e.g2) # Len(e.g) THEN "graph-differs"
    ELSE IF e.rcount # Len(e.g) THEN "read-count"
    ELSE "ok"

\* ---- C06: UUIDPair(v1, v2, sameValue, uuidEqual, tripleEqual, exist) -----------------------------
\* `same` is the driver's own component comparison (time.Equal for instants); it must agree with
\* SameValue computed here from the logged components, otherwise the harness is broken.
UPVerdict ==
    LET same == SameValue(e.v1, e.v2) IN
    IF same # e.same THEN "harness-oracle-disagrees"
    ELSE IF e.panic THEN "uuid-panic"
    \* both are promised to hold "exactly when" the values are equal, hence exactly together -
    \* whatever one takes "equal components" to mean for +0/-0
    ELSE IF e.kind = "triple" /\ e.teq \in {"true", "false"} /\ e.teq # B2S(e.ueq) THEN "triple-equal-disagrees-with-uuid"
    ELSE IF ~same /\ SameUpToZeroSign(e.v1, e.v2) THEN "open"
    ELSE IF e.ueq /\ ~same THEN "uuid-collision"
    ELSE IF ~e.ueq /\ same THEN "uuid-differs-for-equal-values"
    ELSE IF e.kind = "triple" /\ e.teq # B2S(same) THEN "triple-equal-disagrees"
    ELSE IF e.kind = "triple" /\ e.exist # B2S(same) THEN "graph-exist-disagrees"
    ELSE "ok"

\* UUIDStable: the same token on every call, in every goroutine and in a child process; no panic.
USVerdict ==
    IF e.panic THEN "uuid-panic"
    ELSE IF \E i \in DOMAIN e.u : e.u[i] # e.u[1] THEN "uuid-unstable"
    ELSE IF e.child # e.u[1] THEN "uuid-differs-across-processes"
    ELSE "ok"

\* ---- C15: Parse(kind, chars) ---------------------------------------------------------------------
\* ends in Value(wellformed) or Error; never Panic / Timeout / NilWithoutError / a value with a
\* missing component; whatever is accepted prints to a text that is accepted again as an equal value.
PVerdict ==
    IF e.out = "error" THEN "ok"
    ELSE IF e.out \in {"panic", "timeout"} THEN e.out
    ELSE IF e.out = "nil" THEN "nil-without-error"
    ELSE IF e.out = "invalid" THEN "ill-formed-value"
    ELSE IF e.out # "value" THEN "harness"
    ELSE IF e.re # "value" THEN "reprint-not-accepted"
    ELSE IF ~SameValue(e.rv, e.pv) THEN "reprint-parses-to-other-value"
    ELSE IF ~e.ctor THEN "open"      \* e.g. a predicate with an empty id, which NewImmutable refuses: the
                                     \* property does not say whether that is "well-formed"; left open
    ELSE "ok"

\* Reader(lines, lout, ltrip, loaded, count, err): lout[i] is what the real triple.Parse does with
\* line i on its own ("blank" for lines that are empty after trimming).  With k the first line it
\* does not turn into a triple, the graph holds exactly the triples of the lines before k, the
\* reported count is the number of non-blank lines before k, and an error is returned iff k exists.
RDVerdict ==
    LET n == Len(e.lout)
        Bad(i) == e.lout[i] \notin {"value", "blank"}
        k == IF \E i \in 1..n : Bad(i)
             THEN CHOOSE i \in 1..n : Bad(i) /\ \A j \in 1..(i - 1) : ~Bad(j)
             ELSE n + 1
        Before == {i \in 1..(k - 1) : e.lout[i] = "value"}
        Expected == {e.ltrip[i] : i \in Before}
    IN  IF e.out # "ok" THEN e.out
        ELSE IF Range(e.loaded) # Expected \/ Len(e.loaded) # Cardinality(Expected) THEN "loaded-set"
        ELSE IF e.count # Cardinality(Before) THEN "count"
        ELSE IF e.err # (k <= n) THEN "error-flag"
        ELSE "ok"

\* ---- the monitor -----------------------------------------------------------------------------------
Judge(prop, v) == IF v = "ok" THEN TRUE
                  ELSE PrintT(<<IF v = "open" THEN "OPEN" ELSE "REJECT", l, prop, v>>)

Init == l = 1

Next == /\ l <= Len(Trace)
        /\ CASE e.ev = "RT"  -> Judge("C05", RTVerdict)
             [] e.ev = "GRT" -> Judge("C05", GRTVerdict)
             [] e.ev = "UP"  -> Judge("C06", UPVerdict)
             [] e.ev = "US"  -> Judge("C06", USVerdict)
             [] e.ev = "P"   -> Judge("C15", PVerdict)
             [] e.ev = "RD"  -> Judge("C15", RDVerdict)
        /\ l' = l + 1

TraceSpec == Init /\ [][Next]_l

\* every line consumed
Consumed == TLCGet("stats").diameter = Len(Trace) + 1
=============================================================================
