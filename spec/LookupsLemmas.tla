--------------------------- MODULE LookupsLemmas ---------------------------
(* Model-level checks of the Layer A lookup-option operators (C09): paging blocks partition the   *)
(* sequence; window/filter order matters (witness exists); run exhaustively over small inputs.    *)
EXTENDS Lookups, TLC

VARIABLES seq, n
Seqs == UNION {[1..k -> 1..3] : k \in 0..5}
Init == seq \in Seqs /\ n \in 0..6
Next == UNCHANGED <<seq, n>>
Spec == Init /\ [][Next]_<<seq, n>>

Partition == PagesPartition(seq, n)
Disjoint  == n > 0 => \A k \in 0..6 : Len(Page(seq, n, k)) <= n
ZeroIsAll == \A k \in 0..3 : Page(seq, 0, k) = seq

\* latest after the window differs from the window after latest for some content: order matters
AllT == 1..NTall
OrderMatters == \E lo \in 0..NInstants, hi \in 0..NInstants :
                   Filter(Window(AllT, lo, hi), "latest", "predicate") # Window(Filter(AllT, "latest", "predicate"), lo, hi)
ASSUME OrderMatters
=============================================================================
