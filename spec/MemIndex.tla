------------------------------ MODULE MemIndex ------------------------------
(* Layer B - the in-memory graph as implemented (storage/memory/memory.go): one master index keyed  *)
(* by triple UUID and six secondary indexes keyed by the UUIDs of S, P (PARTIAL: the identifier     *)
(* only), O, S+P, P+O, S+O.  AddTriples inserts into all seven maps under one write lock per batch; *)
(* RemoveTriples takes the write lock once per triple, deletes from all seven and drops SP/PO/SO    *)
(* buckets that become empty (S, P, O buckets stay, possibly empty).  Every lookup reads one bucket *)
(* and post-filters it with CheckGlobalTimeBounds (kind and anchor of the query predicate).         *)
(*                                                                                                  *)
(* TLC checks, for every reachable state of the bounded model:                                      *)
(*   IndexesAreProjections  every secondary index holds exactly the projection of the master index  *)
(*   LookupsRefine          the bucket + post-filter computation equals the Layer A comprehension   *)
(*                          Lookups!Sel for every method and every choice of arguments              *)
(* and the refinement  MemIndex => Store (content = master index) for the single-graph model.       *)
EXTENDS Integers, Sequences, FiniteSets, TLC, StoreU, Lookups

VARIABLES idx, iS, iP, iO, iSP, iPO, iSO, pc
ivars == <<idx, iS, iP, iO, iSP, iPO, iSO, pc>>

TIds == 1..NT
\* abstract keys: the UUID of a node/object is modelled by its abstract id, the PARTIAL UUID of a
\* predicate by its identifier string
KS(t) == TS[t].s
KP(t) == PR[TS[t].p].id
KO(t) == TS[t].o
KSP(t) == <<KS(t), KP(t)>>
KPO(t) == <<KP(t), KO(t)>>
KSO(t) == <<KS(t), KO(t)>>

Get(m, k) == IF k \in DOMAIN m THEN m[k] ELSE {}
Put(m, k, t) == [x \in DOMAIN m \cup {k} |-> IF x = k THEN Get(m, k) \cup {t} ELSE m[x]]
\* delete(m[k], t): a missing bucket is left missing
Del(m, k, t) == [x \in DOMAIN m |-> IF x = k THEN m[x] \ {t} ELSE m[x]]
\* delete + drop the bucket when it became empty
DelDrop(m, k, t) == LET d == Del(m, k, t) IN [x \in {y \in DOMAIN d : d[y] # {}} \cup (DOMAIN d \ {k}) |-> d[x]]

Init == /\ idx = {} /\ iS = <<>> /\ iP = <<>> /\ iO = <<>> /\ iSP = <<>> /\ iPO = <<>> /\ iSO = <<>>
        /\ pc = "idle"

AddOne(t) == /\ idx' = idx \cup {t}
             /\ iS' = Put(iS, KS(t), t) /\ iP' = Put(iP, KP(t), t) /\ iO' = Put(iO, KO(t), t)
             /\ iSP' = Put(iSP, KSP(t), t) /\ iPO' = Put(iPO, KPO(t), t) /\ iSO' = Put(iSO, KSO(t), t)
             /\ UNCHANGED pc
RemoveOne(t) == /\ idx' = idx \ {t}
                /\ iS' = Del(iS, KS(t), t) /\ iP' = Del(iP, KP(t), t) /\ iO' = Del(iO, KO(t), t)
                /\ iSP' = DelDrop(iSP, KSP(t), t) /\ iPO' = DelDrop(iPO, KPO(t), t) /\ iSO' = DelDrop(iSO, KSO(t), t)
                /\ UNCHANGED pc
Next == \E t \in TIds : AddOne(t) \/ RemoveOne(t)
Spec == Init /\ [][Next]_ivars

\* ---------------------------------------------------------------------------------------------
Proj(m, key(_)) == \A k \in DOMAIN m : m[k] = {t \in idx : key(t) = k}
Covers(m, key(_)) == \A t \in idx : key(t) \in DOMAIN m
IndexesAreProjections ==
    /\ Proj(iS, KS) /\ Covers(iS, KS) /\ Proj(iP, KP) /\ Covers(iP, KP) /\ Proj(iO, KO) /\ Covers(iO, KO)
    /\ Proj(iSP, KSP) /\ Covers(iSP, KSP) /\ Proj(iPO, KPO) /\ Covers(iPO, KPO) /\ Proj(iSO, KSO) /\ Covers(iSO, KSO)
    /\ \A k \in DOMAIN iSP : iSP[k] # {}     \* SP/PO/SO buckets are dropped when empty
    /\ \A k \in DOMAIN iPO : iPO[k] # {}
    /\ \A k \in DOMAIN iSO : iSO[k] # {}

\* the post-filter of the implementation (checker.CheckGlobalTimeBounds with a query predicate q)
PostFilter(B, q) == {t \in B : q = 0 \/ (PR[q].kind = PR[TS[t].p].kind /\ (PR[q].kind = "tmp" => PR[q].n = PR[TS[t].p].n))}
NP == Len(PR)
NOb == Len(OB)
Bucket(s, p, o) ==
    CASE s # 0 /\ p # 0 /\ o = 0 -> Get(iSP, <<s, PR[p].id>>)
      [] s = 0 /\ p # 0 /\ o # 0 -> Get(iPO, <<PR[p].id, o>>)
      [] s # 0 /\ p = 0 /\ o # 0 -> Get(iSO, <<s, o>>)
      [] s # 0 /\ p = 0 /\ o = 0 -> Get(iS, s)
      [] s = 0 /\ p # 0 /\ o = 0 -> Get(iP, PR[p].id)
      [] s = 0 /\ p = 0 /\ o # 0 -> Get(iO, o)
      [] OTHER -> idx
\* every lookup shape the Graph interface offers (S+P+O together is Exist, handled by the master index)
LookupsRefine ==
    \A s \in 0..NNodes, p \in 0..NP, o \in 0..NOb :
        (s = 0 \/ p = 0 \/ o = 0) => PostFilter(Bucket(s, p, o), p) = Sel(idx, s, p, o)
=============================================================================
