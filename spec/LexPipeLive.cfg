SPECIFICATION Spec
CONSTANTS MaxTok = 9
 Cap = 2
 LookAhead = 2
 Drain = FALSE
PROPERTIES LexerDone
CHECK_DEADLOCK FALSE
