SPECIFICATION TraceSpec
CONSTANT AllowSharedOptions = TRUE
POSTCONDITION Report
CHECK_DEADLOCK FALSE
