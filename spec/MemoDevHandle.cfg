SPECIFICATION MSpec
CONSTANTS
  DevKeyNoOffset = FALSE
  DevPerHandle = TRUE
  DevUnguardedFill = FALSE
  DevFillOnError = FALSE
  DevKeyNoMethod = FALSE
  NR = 2
  MaxFaults = 0
VIEW MView
INVARIANT Transparent
CHECK_DEADLOCK FALSE
