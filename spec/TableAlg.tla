------------------------------ MODULE TableAlg ------------------------------
(* The result-table algebra of bql/table (Table.AddRow, AppendTable, DotProduct, LeftOptionalJoin,   *)
(* ProjectBindings, AddBindings, DeleteRow, Truncate, Limit, Sort, Filter, Reduce) as pure operators *)
(* on table VALUES - Layer A of the package: what its doc comments promise and what the planner      *)
(* relies on for C10 (OPTIONAL = left outer join), C11 (Reduce = one row per group), C12 (Sort /     *)
(* Limit) and C13 (Filter).  TableTrace.tla validates every operation the Go driver                  *)
(* (harness/cmd/tabledrv) performs on REAL tables against these operators; TableAlgMC.cfg checks     *)
(* the algebraic lemmas the query properties rest on for all tables of a small scope.                *)
(*                                                                                                  *)
(* A cell is [k |-> kind, v |-> n]: kinds "I" int64, "F" float64, "T" time anchor, "X" text literal, *)
(* "N" node, "S" string, "0" NULL (v = 0).  Within a kind, v is the value's RANK in the order the    *)
(* documentation gives (numbers numerically, anchors chronologically, everything else by its text:   *)
(* the driver's universe is built so that the rank order is that order).  A row is a function from   *)
(* binding names to cells; a table is [bs |-> set of declared bindings, rows |-> sequence of rows].  *)
EXTENDS Integers, Sequences, FiniteSets, TLC

Null == [k |-> "0", v |-> 0]
Range(s) == {s[i] : i \in DOMAIN s}
Count(s, x) == Cardinality({i \in DOMAIN s : s[i] = x})
SameBag(s1, s2) == Len(s1) = Len(s2) /\ \A x \in Range(s1) \cup Range(s2) : Count(s1, x) = Count(s2, x)
Min(a, b) == IF a < b THEN a ELSE b

Tbl(bs, rows) == [bs |-> bs, rows |-> rows]

\* MergeRows: the first row wins on a shared name
Merge(r1, r2) == [b \in DOMAIN r1 \cup DOMAIN r2 |-> IF b \in DOMAIN r1 THEN r1[b] ELSE r2[b]]
\* extendRow: missing bindings become NULL cells
Extend(r, bs) == [b \in DOMAIN r \cup bs |-> IF b \in DOMAIN r THEN r[b] ELSE Null]

\* ---- operations: each returns [t |-> table after, err |-> BOOLEAN] -------------------------------
Ok(t) == [t |-> t, err |-> FALSE]
Fail(t) == [t |-> t, err |-> TRUE]

\* AddRow appends the row; a row without any cell is dropped ("" is never a binding)
AddRow(t, r) == Ok(IF DOMAIN r = {} THEN t ELSE Tbl(t.bs, Append(t.rows, r)))

AddBindings(t, bs) == Ok(Tbl(t.bs \cup bs, t.rows))

\* "fails if the target table is not empty and the bindings do not match" (judged on the bindings)
AppendTable(t, t2) ==
    IF t.bs # {} /\ t.bs # t2.bs THEN Fail(t)
    ELSE Ok(Tbl(IF t.bs = {} THEN t2.bs ELSE t.bs, t.rows \o t2.rows))

\* DotProduct: requires disjoint bindings; every pair of rows, left-major
RECURSIVE Product(_, _, _)
Product(rs1, rs2, i) == IF i > Len(rs1) THEN <<>>
                        ELSE [j \in DOMAIN rs2 |-> Merge(rs1[i], rs2[j])] \o Product(rs1, rs2, i + 1)
DotProduct(t, t2) ==
    IF t.bs \cap t2.bs # {} THEN Fail(t)
    ELSE Ok(Tbl(t.bs \cup t2.bs, Product(t.rows, t2.rows, 1)))

\* LeftOptionalJoin: a left outer join on the shared bindings.  Same bindings or no bindings on the right: the
\* left table is kept as it is.  The result is judged as a BAG (the implementation sorts both tables).
Agree(r1, r2, shared) == \A b \in shared : b \in DOMAIN r1 /\ b \in DOMAIN r2 /\ r1[b] = r2[b]
JoinRowsOf(r1, t2, shared, all) ==
    LET ms == {j \in DOMAIN t2.rows : Agree(r1, t2.rows[j], shared)}
    IN  IF ms = {} THEN {<<0, Extend(r1, all)>>} ELSE {<<j, Merge(r1, t2.rows[j])>> : j \in ms}
\* the expected bag as a set of <<left index, right index, row>> (indices keep multiplicities apart)
JoinSet(t, t2) == LET shared == t.bs \cap t2.bs  all == t.bs \cup t2.bs IN
    UNION {{<<i, x[1], x[2]>> : x \in JoinRowsOf(t.rows[i], t2, shared, all)} : i \in DOMAIN t.rows}
IsJoin(res, t, t2) ==
    LET E == JoinSet(t, t2) IN
    /\ Len(res) = Cardinality(E)
    /\ \A r \in Range(res) \cup {e[3] : e \in E} : Count(res, r) = Cardinality({e \in E : e[3] = r})
LeftJoinUnchanged(t, t2) == t.bs = t2.bs \/ t2.bs = {}
LeftJoinBs(t, t2) == IF LeftJoinUnchanged(t, t2) THEN t.bs ELSE t.bs \cup t2.bs

\* ProjectBindings: nothing happens on a table without rows or without bindings; unknown binding => error
ProjectBindings(t, bs) ==
    IF t.rows = <<>> \/ t.bs = {} THEN Ok(t)
    ELSE IF ~(bs \subseteq t.bs) THEN Fail(t)
    ELSE Ok(Tbl(bs, t.rows))

DeleteRow(t, i) == IF i < 0 \/ i >= Len(t.rows) THEN Fail(t)
                   ELSE Ok(Tbl(t.bs, [k \in 1..(Len(t.rows) - 1) |-> IF k <= i THEN t.rows[k] ELSE t.rows[k + 1]]))
Truncate(t) == Ok(Tbl(t.bs, <<>>))
Limit(t, n) == Ok(Tbl(t.bs, SubSeq(t.rows, 1, Min(n, Len(t.rows)))))

\* Filter REMOVES the rows for which the predicate holds (here: cell of binding b equals cell c), keeps the order
Filter(t, b, c) == Ok(Tbl(t.bs, SelectSeq(t.rows, LAMBDA r : ~(b \in DOMAIN r /\ r[b] = c))))
Removed(t, b, c) == Len(t.rows) - Len(Filter(t, b, c).t.rows)

\* ---- Sort: cfg = sequence of [b |-> binding, desc |-> BOOLEAN] ------------------------------------
RECURSIVE CmpRows(_, _, _, _)
CmpRows(r1, r2, cfg, k) ==
    IF k > Len(cfg) THEN 0
    ELSE LET a == r1[cfg[k].b].v  b == r2[cfg[k].b].v IN
         IF a = b THEN CmpRows(r1, r2, cfg, k + 1)
         ELSE IF (a < b) = (~cfg[k].desc) THEN 0 - 1 ELSE 1
SortedBy(rows, cfg) == \A i \in 1..(Len(rows) - 1) : CmpRows(rows[i], rows[i + 1], cfg, 1) <= 0
\* judged when every key is a binding of every row and each key column holds cells of ONE kind
SortJudgeable(t, cfg) == \A k \in DOMAIN cfg :
    /\ \A i \in DOMAIN t.rows : cfg[k].b \in DOMAIN t.rows[i]
    /\ \A i, j \in DOMAIN t.rows : t.rows[i][cfg[k].b].k = t.rows[j][cfg[k].b].k
IsSort(res, t, cfg) == SameBag(res, t.rows) /\ SortedBy(res, cfg)

\* ---- Reduce: keys = sequence of grouping bindings; aaps = sequence of [in, out, acc] with acc in
\*      "" (copy), "count", "countd", "sumi", "sumf" ----------------------------------------------------
KeyOf(r, keys) == [k \in DOMAIN keys |-> r[keys[k]]]
Groups(t, keys) == {KeyOf(t.rows[i], keys) : i \in DOMAIN t.rows}
Members(t, keys, g) == {i \in DOMAIN t.rows : KeyOf(t.rows[i], keys) = g}
RECURSIVE SumOf(_, _, _)
SumOf(t, b, I) == IF I = {} THEN 0 ELSE LET i == CHOOSE i \in I : TRUE IN t.rows[i][b].v + SumOf(t, b, I \ {i})
\* the configuration the implementation accepts: every binding of the table is the input of some pair and no
\* other binding is
ReduceConfigOK(t, aaps) == {aaps[k].in : k \in DOMAIN aaps} = t.bs
\* a copied (acc = "") binding that is not a grouping key takes the value of SOME row of the group
GroupRowOK(r, t, keys, aaps, g) ==
    LET I == Members(t, keys, g) IN
    /\ DOMAIN r = {aaps[k].out : k \in DOMAIN aaps}
    /\ \A k \in DOMAIN aaps : LET a == aaps[k] IN
         CASE a.acc = ""       -> \E i \in I : r[a.out] = t.rows[i][a.in]
           [] a.acc = "count"  -> r[a.out] = [k |-> "I", v |-> Cardinality(I)]
           [] a.acc = "countd" -> r[a.out] = [k |-> "I", v |-> Cardinality({t.rows[i][a.in] : i \in I})]
           [] a.acc = "sumi"   -> r[a.out] = [k |-> "I", v |-> SumOf(t, a.in, I)]
           [] a.acc = "sumf"   -> r[a.out] = [k |-> "F", v |-> SumOf(t, a.in, I)]
\* one row per group: a bijection between result rows and groups
IsReduce(res, t, keys, aaps) ==
    LET G == Groups(t, keys) IN
    /\ Len(res) = Cardinality(G)
    /\ \A g \in G : \E i \in DOMAIN res :
          /\ GroupRowOK(res[i], t, keys, aaps, g)
          /\ \A k \in DOMAIN keys : \A x \in DOMAIN aaps :
                (aaps[x].in = keys[k] /\ aaps[x].acc = "") => res[i][aaps[x].out] = g[k]
ReduceJudgeable(t, keys, aaps) ==
    /\ \A i \in DOMAIN t.rows : DOMAIN t.rows[i] = t.bs
    /\ Range(keys) \subseteq t.bs
    /\ \A k \in DOMAIN aaps : aaps[k].acc \in {"sumi", "sumf"} =>
          \A i \in DOMAIN t.rows : t.rows[i][aaps[k].in].k = (IF aaps[k].acc = "sumi" THEN "I" ELSE "F")
    \* every output name is produced by exactly one pair, every grouping key is copied
    /\ \A x, y \in DOMAIN aaps : x # y => aaps[x].out # aaps[y].out
    /\ \A k \in DOMAIN keys : \E x \in DOMAIN aaps : aaps[x].in = keys[k] /\ aaps[x].acc = ""
    \* a copied binding that is no key has no defined value unless the group agrees on it: not judged
    /\ \A x \in DOMAIN aaps : aaps[x].acc = "" => aaps[x].in \in Range(keys)
=============================================================================
