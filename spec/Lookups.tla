------------------------------ MODULE Lookups ------------------------------
(* Layer A - the ten indexed lookups and Graph.Triples as comprehensions over the content of a     *)
(* graph (C02), and the lookup options: time window, filter functions, paging (C09).               *)
(* A lookup request is a record                                                                    *)
(*   [s, p, o   : abstract ids of the fixed components, 0 = not fixed                              *)
(*    c         : which component of each matching triple is returned: "s","p","o" or "t"(riple)   *)
(*    lo, hi    : instant ranks of LowerAnchor/UpperAnchor, 0 = absent                             *)
(*    fop, ff   : filter operation ("" = none) and field ("predicate","object","subject")          *)
(*    la        : LatestAnchor                                                                     *)
(*    max, off  : MaxElements, Offset]                                                             *)
EXTENDS Integers, Sequences, FiniteSets, StoreU

\* A predicate handed to a lookup matches stored predicates with the same identifier, the same
\* kind and, when temporal, the same instant (zone-free: ranks identify instants).
PredMatch(q, p) == /\ PR[q].id = PR[p].id
                   /\ PR[q].kind = PR[p].kind
                   /\ (PR[q].kind = "tmp" => PR[q].n = PR[p].n)

Sel(C, s, p, o) == {t \in C : /\ (s = 0 \/ TS[t].s = s)
                              /\ (p = 0 \/ PredMatch(p, TS[t].p))
                              /\ (o = 0 \/ TS[t].o = o)}

IsTmp(p) == PR[p].kind = "tmp"

\* closed interval on the anchor of the triple's predicate; an absent side is unbounded;
\* immutable triples are always kept; lo > hi keeps no temporal triple
Window(S, lo, hi) == {t \in S : \/ ~IsTmp(TS[t].p)
                                \/ /\ (lo = 0 \/ PR[TS[t].p].n >= lo)
                                   /\ (hi = 0 \/ PR[TS[t].p].n <= hi)}

\* the predicate a filter function looks at: the triple's predicate, or its predicate-valued object
\* (0 when the object is not a predicate: such triples are dropped by an object-field filter)
FieldPred(t, ff) == IF ff = "predicate" THEN TS[t].p
                    ELSE IF OB[TS[t].o].kind = "pred" THEN OB[TS[t].o].ref ELSE 0

KnownOps == {"latest", "isTemporal", "isImmutable"}

Filter(S, fop, ff) ==
    CASE fop = "" -> S
      [] fop = "isTemporal"  -> {t \in S : FieldPred(t, ff) # 0 /\ IsTmp(FieldPred(t, ff))}
      [] fop = "isImmutable" -> {t \in S : FieldPred(t, ff) # 0 /\ ~IsTmp(FieldPred(t, ff))}
      [] fop = "latest" ->
            \* per predicate identifier the temporal candidates with the greatest anchor (ties kept)
            {t \in S : LET fp == FieldPred(t, ff) IN
                 /\ fp # 0 /\ IsTmp(fp)
                 /\ \A t2 \in S : LET fp2 == FieldPred(t2, ff) IN
                       (fp2 # 0 /\ IsTmp(fp2) /\ PR[fp2].id = PR[fp].id) => PR[fp2].n <= PR[fp].n}
      [] OTHER -> S

\* requests for which the driver is expected (not required by C09) to answer with an error
ExpectErr(q) == \/ (q.la /\ q.fop # "")
                \/ (q.fop # "" /\ (q.ff \notin {"predicate", "object"} \/ q.fop \notin KnownOps))

\* requests whose meaning the property leaves open: LatestAnchor combined with a window
\* (storage.go says LatestAnchor "ignores the time boundaries", the driver applies them first)
Open(q) == q.la /\ (q.lo # 0 \/ q.hi # 0)

\* the set of triples an unpaged lookup is derived from
Result(C, q) == LET w == Window(Sel(C, q.s, q.p, q.o), q.lo, q.hi)
                IN  IF q.la THEN Filter(w, "latest", "predicate") ELSE Filter(w, q.fop, q.ff)

Comp(t, c) == CASE c = "s" -> TS[t].s [] c = "p" -> TS[t].p [] c = "o" -> TS[t].o [] OTHER -> t

Count(seq, x) == Cardinality({i \in DOMAIN seq : seq[i] = x})

\* res is the bag image of S under Comp(_, c): one result per triple of S and nothing else
BagIs(res, S, c) == /\ Len(res) = Cardinality(S)
                    /\ \A t \in S : Count(res, Comp(t, c)) = Cardinality({t2 \in S : Comp(t2, c) = Comp(t, c)})

\* the k-th block (from zero) of n elements; n = 0: everything
Min(a, b) == IF a < b THEN a ELSE b
Page(seq, n, k) == IF n <= 0 THEN seq
                   ELSE IF n * k >= Len(seq) THEN <<>>
                   ELSE SubSeq(seq, n * k + 1, Min(n * k + n, Len(seq)))

\* ------------------------------------------------------------------------------------------
\* Named deviations of the implementation (Layer B), used only to CLASSIFY a rejected case:
\*  (1) buckets are keyed by the predicate's identifier alone and the post-filter compares instants
\*      only when both predicates are temporal  => "predicate-kind-blind"
\*  (2) with a filter function the query predicate is compared by its printed text, so a query
\*      predicate spelled in another zone matches nothing  => "filter-compares-printed-predicate"
PredMatchKB(q, p) == /\ PR[q].id = PR[p].id
                     /\ ((IsTmp(q) /\ IsTmp(p)) => PR[q].n = PR[p].n)
DevResult(C, q, canonicalSpelling) ==
    LET b == {t \in C : /\ (q.s = 0 \/ TS[t].s = q.s)
                        /\ (q.p = 0 \/ PredMatchKB(q.p, TS[t].p))
                        /\ (q.o = 0 \/ TS[t].o = q.o)}
        w == Window(b, q.lo, q.hi)
        f == IF (q.fop # "" \/ q.la) /\ q.p # 0
             THEN {t \in w : PredMatch(q.p, TS[t].p) /\ canonicalSpelling} ELSE w
    IN  IF q.la THEN Filter(f, "latest", "predicate") ELSE Filter(f, q.fop, q.ff)

\* ------------------------------------------------------------------------------------------
\* lemmas checked by TLC on small sequences (cfg LookupsLemmas): consecutive pages are disjoint
\* blocks whose concatenation is the unpaged sequence
RECURSIVE Concat(_, _, _)
Concat(seq, n, k) == IF n * k >= Len(seq) THEN <<>> ELSE Page(seq, n, k) \o Concat(seq, n, k + 1)
PagesPartition(seq, n) == n > 0 => Concat(seq, n, 0) = seq
=============================================================================
