----------------------------- MODULE MemoTrace -----------------------------
(* C19 - trace validation: what the REAL memoizer did (ndjson written by harness/cmd/memodrv) against    *)
(* Layer A `Transparent` of Memo.tla:                                                                    *)
(*   every read returns what the wrapped graph returns for the same arguments and options at some        *)
(*   instant between its invocation and its return (so never an answer older than a write that had       *)
(*   returned before the read was invoked); a read whose forwarded call failed returns an error;         *)
(*   a write that returned has changed the wrapped graph as Store.tla says (DoAdd / DoRemove).           *)
(* The driver serialises the processes (forced schedules: one process moves per event; sequential        *)
(* histories: one process), and logs with every event the plain answers `pl` of the wrapped/plain graph  *)
(* for the reads in flight at that instant, so "some instant between invoke and return" is the list of   *)
(* plain answers collected from the read's first event to its "ret" event.                               *)
(*                                                                                                       *)
(* Layer B (per handle caches, key without Offset, unguarded fill, fill after a failed read) is          *)
(* simulated along the REAL control flow (the yield points the code reported) and is used only to NAME   *)
(* the deviation that predicts exactly the wrong answer of a rejected read; a rejected read whose        *)
(* answer no named deviation predicts is class "unexplained".                                            *)
(* The spec never blocks: one event per step, a rejected event prints <<"REJECT", l, "C19", class>>.      *)
EXTENDS Store, Lookups, Json, IOUtils

Trace == ndJsonDeserialize(IOEnv.TRACE_FILE)

VARIABLES l,
          cache,    \* Layer B: [1..2 -> [bucket -> set of [k, val, off, dver, fver, racy, ferr]]]
          clears,   \* Layer B: [1..2 -> Nat] Clears of the handle's cache so far
          ver,      \* number of changes of the wrapped graph's content seen so far
          prevc,    \* listing of the wrapped graph at the previous event
          st        \* per process: [missed, hit, win, dver, cchk]
tvars == <<vars, l, cache, clears, ver, prevc, st>>

e == Trace[l]
G0 == Names[1]
Pids == 1..3
Hs == 1..2

KeyOf(q) == [q EXCEPT !.off = 0]                      \* LookupOptions.String() does not print Offset
Cacheable(q, val) == q.m = "Exist" \/ val # <<>>       \* `if v != nil`

\* the model cache of a handle is bucketed (plain integer hash of the arguments) to keep look-ups cheap
NB == 512
Bkt(q) == (q.s + 5 * q.cp + 75 * q.o + 7 * q.t) % NB
EmptyCache == [b \in 0..(NB - 1) |-> {}]

St0 == [missed |-> FALSE, hit |-> {}, win |-> <<>>, dver |-> 0, cchk |-> 0]

PlOf(pid) == LET S == {i \in DOMAIN e.pl : e.pl[i].pid = pid}
             IN  IF S = {} THEN <<>> ELSE LET i == CHOOSE i \in S : TRUE IN <<[res |-> e.pl[i].res, err |-> e.pl[i].err]>>

Ver1 == IF e.c # prevc THEN ver + 1 ELSE ver

\* ---- one G event ------------------------------------------------------------------------------------
StA == IF e.first
       THEN [st EXCEPT ![e.pid] = [St0 EXCEPT !.hit = IF e.kind = "r" THEN {x \in cache[e.h][Bkt(e.q)] : x.k = KeyOf(e.q)} ELSE {},
                                              !.dver = Ver1, !.cchk = clears[e.h]]]
       ELSE st
StB == [i \in Pids |-> [StA[i] EXCEPT !.win = @ \o PlOf(i)]]
StC == CASE e.at = "read.miss" -> [StB EXCEPT ![e.pid].missed = TRUE]
         [] e.at = "read.fill" -> [StB EXCEPT ![e.pid].missed = TRUE, ![e.pid].dver = Ver1]
         [] OTHER -> StB

\* Layer A verdict of a read that returns in this event (s = the reader's state after this event)
ReadOK(s) == IF e.fault >= 0 THEN e.err
             ELSE \E i \in DOMAIN s.win : s.win[i].res = e.res /\ s.win[i].err = e.err

\* the named Layer B deviation that predicts exactly this wrong answer
ReadClass(s, v1) ==
    IF e.fault >= 0 THEN "faulted-read-without-error"
    ELSE IF s.missed \/ s.hit = {} THEN "unexplained"
    ELSE LET x == CHOOSE x \in s.hit : TRUE IN
         IF x.val # e.res \/ e.err THEN "unexplained"
         ELSE IF x.ferr THEN "failed-read-cached"
         ELSE IF x.off # e.q.off THEN "offset-not-in-cache-key"
         ELSE IF x.racy THEN "fill-after-clear"
         ELSE IF x.dver < v1 THEN "write-through-other-handle"
         ELSE "unexplained"

Filled(s, v1) ==
          IF s.missed /\ Cacheable(e.q, e.res) /\ (e.q.m = "Exist" => ~e.err)
          THEN [cache EXCEPT ![e.h][Bkt(e.q)] = {x \in @ : x.k # KeyOf(e.q)} \cup
                   {[k |-> KeyOf(e.q), val |-> e.res, off |-> e.q.off, dver |-> s.dver, fver |-> v1,
                     racy |-> clears[e.h] > s.cchk, ferr |-> e.err]}]
          ELSE cache

WriteResult == IF e.wop = "Add" THEN DoAdd(graphs, content, G0, e.b) ELSE DoRemove(graphs, content, G0, e.b)
ListingIs(c, S) == Len(c) = Cardinality(S) /\ Range(c) = S

StepG ==
    /\ e.ev = "G"
    /\ LET sc == StC
           v1 == Ver1
           s  == sc[e.pid]
       IN
       /\ ver' = v1 /\ prevc' = e.c /\ st' = sc
       /\ CASE e.kind = "r" /\ e.at = "ret" ->
              /\ IF ReadOK(s) THEN TRUE ELSE PrintT(<<"REJECT", l, "C19", ReadClass(s, v1)>>)
              /\ cache' = Filled(s, v1)
              /\ UNCHANGED <<clears, graphs, content>>
         [] e.kind = "w" /\ e.at = "write.cleared" ->
              /\ cache' = [cache EXCEPT ![e.h] = EmptyCache]
              /\ clears' = [clears EXCEPT ![e.h] = @ + 1]
              /\ UNCHANGED <<graphs, content>>
         [] e.kind = "w" /\ e.at = "ret" ->
              LET r == WriteResult IN
              /\ IF ~e.err /\ ListingIs(e.c, r.C[G0])
                 THEN content' = r.C
                 ELSE /\ PrintT(<<"REJECT", l, "C19", IF e.err THEN "write-error" ELSE "write-not-forwarded">>)
                      /\ content' = [content EXCEPT ![G0] = Range(e.c) \cap (1..NTall)]
              /\ UNCHANGED <<cache, clears, graphs>>
         [] e.kind = "n" ->
              /\ cache' = [cache EXCEPT ![e.h] = EmptyCache]
              /\ UNCHANGED <<clears, graphs, content>>
         [] OTHER -> UNCHANGED <<cache, clears, graphs, content>>

StepReset ==
    /\ e.ev = "Reset"
    /\ graphs' = {G0}
    /\ content' = [n \in NameSet |-> IF n = G0 THEN Range(e.c) \cap (1..NTall) ELSE {}]
    /\ cache' = [h \in Hs |-> EmptyCache]
    /\ clears' = [h \in Hs |-> 0]
    /\ ver' = 0 /\ prevc' = e.c
    /\ st' = [i \in Pids |-> St0]

\* a schedule that could not be forced on this tree was let run freely: nothing to judge
StepAbort == e.ev = "Abort" /\ UNCHANGED <<graphs, content, cache, clears, ver, prevc, st>>

TraceInit == /\ l = 1
             /\ graphs = {G0}
             /\ content = [n \in NameSet |-> {}]
             /\ last = [op |-> "Init", g |-> "", b |-> <<>>, ok |-> TRUE]
             /\ cache = [h \in Hs |-> EmptyCache]
             /\ clears = [h \in Hs |-> 0]
             /\ ver = 0 /\ prevc = <<>>
             /\ st = [i \in Pids |-> St0]

TraceNext == /\ l <= Len(Trace)
             /\ (StepG \/ StepReset \/ StepAbort)
             /\ l' = l + 1
             /\ UNCHANGED last

TraceSpec == TraceInit /\ [][TraceNext]_tvars

\* the trace is linear: the line number identifies the state (keeps fingerprinting independent of the cache size)
TView == l

Consumed == TLCGet("stats").diameter = Len(Trace) + 1
=============================================================================
