SPECIFICATION TraceSpec
CONSTANT AllowSharedOptions = FALSE
POSTCONDITION Report
CHECK_DEADLOCK FALSE
