------------------------------- MODULE LexPipe -------------------------------
(* Layer B for C08 (the part of the execution pipeline that this family owns): the lexer goroutine,  *)
(* its token channel and the LL(k) parser that may return early.                                     *)
(*                                                                                                  *)
(*   lexer.New(input, Cap) starts a goroutine that sends n tokens (the terminal EOF/ERROR token      *)
(*   included) into a channel of capacity Cap and then closes it.  grammar.NewLLk reads LookAhead    *)
(*   tokens; Parser.Parse takes one more token per token it consumes and returns after `want`        *)
(*   consumptions (want < n - LookAhead: rejected statement, or accepted statement followed by more  *)
(*   input).  With Drain the parser empties the channel before it returns                            *)
(*   (proposed_fixes/grammar-parser-drains-lexer.diff).                                             *)
(*                                                                                                  *)
(* TLC checks, for all n <= MaxTok and all want: when nothing can move any more, the lexer goroutine *)
(* has terminated  <=>  Drain \/ n - taken <= Cap.  This is the predicate spec/RunTrace.tla uses to  *)
(* attribute a goroutine left in lexer.emit to the known deviation ("ntok > LookAhead + Cap" is its  *)
(* necessary condition for want >= 0).  <>LexerDone fails without Drain: the liveness counterexample *)
(* is the goroutine leak observed on the real code.                                                 *)
EXTENDS Integers, TLC
CONSTANTS MaxTok, Cap, LookAhead, Drain
VARIABLES n,        \* tokens the lexer has to send
          want,     \* tokens the parser consumes before it returns
          sent,     \* tokens sent so far (into the buffer or handed over)
          buf,      \* tokens in the channel buffer
          taken,    \* tokens received by the parser
          lexer,    \* "running" | "closed"
          parser    \* "reading" | "returned"
vars == <<n, want, sent, buf, taken, lexer, parser>>

Needed == LookAhead + want      \* tokens the parser asks the channel for (EOF fillers once it is closed)

Init == /\ n \in 1..MaxTok /\ want \in 0..MaxTok
        /\ sent = 0 /\ buf = 0 /\ taken = 0 /\ lexer = "running" /\ parser = "reading"

Wants == parser = "reading" /\ (taken < Needed \/ Drain)

\* buffered send
Send == /\ lexer = "running" /\ sent < n /\ buf < Cap
        /\ sent' = sent + 1 /\ buf' = buf + 1
        /\ UNCHANGED <<n, want, taken, lexer, parser>>
\* receive from the buffer
Recv == /\ Wants /\ buf > 0
        /\ buf' = buf - 1 /\ taken' = taken + 1
        /\ UNCHANGED <<n, want, sent, lexer, parser>>
\* rendez-vous: sender and receiver meet on an empty buffer (the only way to pass a token when Cap = 0)
Handoff == /\ Wants /\ buf = 0 /\ lexer = "running" /\ sent < n
           /\ sent' = sent + 1 /\ taken' = taken + 1
           /\ UNCHANGED <<n, want, buf, lexer, parser>>
Close == /\ lexer = "running" /\ sent = n
         /\ lexer' = "closed"
         /\ UNCHANGED <<n, want, sent, buf, taken, parser>>
\* the parser returns when it has all it asked for, or the channel is closed and empty (EOF fillers)
Return == /\ parser = "reading"
          /\ IF Drain THEN lexer = "closed" /\ buf = 0
             ELSE taken >= Needed \/ (lexer = "closed" /\ buf = 0)
          /\ parser' = "returned"
          /\ UNCHANGED <<n, want, sent, buf, taken, lexer>>

Next == Send \/ Recv \/ Handoff \/ Close \/ Return
Spec == Init /\ [][Next]_vars /\ WF_vars(Next)

Quiescent == ~ENABLED Next
\* exactly when the goroutine is left behind
LeakIff == Quiescent => ((lexer = "closed") <=> (Drain \/ n - taken <= Cap))
ParserAlwaysReturns == Quiescent => parser = "returned"
TypeOK == sent <= n /\ buf <= Cap /\ taken <= sent /\ buf = sent - taken
LexerDone == <>(lexer = "closed")
=============================================================================
