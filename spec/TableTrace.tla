----------------------------- MODULE TableTrace -----------------------------
(* Trace validation of the REAL bql/table package against TableAlg.tla.  harness/cmd/tabledrv applies  *)
(* seeded sequences of operations to live tables and logs, for every operation, the tables before and  *)
(* after it (bindings and all rows, cell by cell), the arguments, the returned error / count.  Events   *)
(* are independent (each carries its own before-state).  Never blocks: a rejected event prints          *)
(* <<"REJECT", line, op, class>>, an event the documentation leaves open <<"OPEN", line, op, why>>.     *)
EXTENDS TableAlg, Json, IOUtils

Trace == ndJsonDeserialize(IOEnv.TRACE_FILE)
VARIABLE l
e == Trace[l]

T(x) == Tbl(Range(x.bs), x.rows)
t0 == T(e.t)
u0 == T(e.t2)
t1 == T(e.after)
u1 == T(e.after2)
FullRows(t) == \A i \in DOMAIN t.rows : DOMAIN t.rows[i] = t.bs

Expect(res) == IF e.err # res.err THEN "error-mismatch"
               ELSE IF t1 # res.t THEN (IF t1.bs # res.t.bs THEN "bindings-differ" ELSE "rows-differ")
               ELSE IF u1 # u0 THEN "argument-table-modified"
               ELSE "ok"

JoinVerdict ==
    IF ~FullRows(t0) \/ ~FullRows(u0) THEN "open"
    ELSE IF \E b \in t0.bs \cap u0.bs : \E r1, r2 \in Range(t0.rows) \cup Range(u0.rows) : r1[b].k # r2[b].k THEN "open"
    ELSE IF e.err THEN "error-mismatch"
    ELSE IF LeftJoinUnchanged(t0, u0) THEN (IF t1 = t0 /\ u1 = u0 THEN "ok" ELSE "join-changes-table")
    ELSE IF t1.bs # t0.bs \cup u0.bs THEN "bindings-differ"
    ELSE IF ~IsJoin(t1.rows, t0, u0) THEN
         (IF \E i \in DOMAIN t0.rows : ~\E j \in DOMAIN t1.rows : \A b \in t0.bs : t1.rows[j][b] = t0.rows[i][b]
          THEN "join-loses-left-row"
          \* the planner only joins tables WITHOUT shared bindings; with shared bindings the package compares cells
          \* structurally (an anchor written in two zones does not join): reported as drift of Layer B, not judged
          ELSE IF t0.bs \cap u0.bs # {} THEN "overlap:join-rows-differ" ELSE "join-rows-differ")
    ELSE IF u1.bs # u0.bs \/ ~SameBag(u1.rows, u0.rows) THEN "argument-table-modified"
    ELSE "ok"

SortVerdict ==
    IF ~SortJudgeable(t0, e.cfg) THEN "open"
    ELSE IF t1.bs # t0.bs THEN "bindings-differ"
    ELSE IF ~SameBag(t1.rows, t0.rows) THEN "sort-changes-rows"
    ELSE IF ~SortedBy(t1.rows, e.cfg) THEN "not-sorted"
    ELSE "ok"

ReduceVerdict ==
    IF ~ReduceConfigOK(t0, e.aaps) THEN (IF e.err /\ t1 = t0 THEN "ok" ELSE "reduce-accepts-bad-config")
    ELSE IF t0.rows = <<>> THEN (IF ~e.err /\ t1 = t0 THEN "ok" ELSE "reduce-empty-table")
    ELSE IF ~ReduceJudgeable(t0, e.keys, e.aaps) THEN "open"
    ELSE IF e.err THEN "error-mismatch"
    ELSE IF t1.bs # {e.aaps[k].out : k \in DOMAIN e.aaps} THEN "bindings-differ"
    ELSE IF Len(t1.rows) # Cardinality(Groups(t0, e.keys)) THEN "group-count"
    ELSE IF ~IsReduce(t1.rows, t0, e.keys, e.aaps) THEN "aggregate-value"
    ELSE "ok"

FilterVerdict == LET v == Expect(Filter(t0, e.b, e.c)) IN
    IF v # "ok" THEN v ELSE IF e.ret # Removed(t0, e.b, e.c) THEN "filter-count" ELSE "ok"

Verdict ==
    IF e.panic THEN "panic" ELSE
    CASE e.op = "AddRow"           -> Expect(IF e.rempty THEN Ok(t0) ELSE AddRow(t0, e.r))
      [] e.op = "AddBindings"      -> Expect(AddBindings(t0, Range(e.bsarg)))
      [] e.op = "AppendTable"      -> Expect(AppendTable(t0, u0))
      [] e.op = "DotProduct"       -> Expect(DotProduct(t0, u0))
      [] e.op = "LeftOptionalJoin" -> JoinVerdict
      [] e.op = "ProjectBindings"  -> Expect(ProjectBindings(t0, Range(e.bsarg)))
      [] e.op = "DeleteRow"        -> Expect(DeleteRow(t0, e.n))
      [] e.op = "Truncate"         -> Expect(Truncate(t0))
      [] e.op = "Limit"            -> Expect(Limit(t0, e.n))
      [] e.op = "Filter"           -> FilterVerdict
      [] e.op = "Sort"             -> SortVerdict
      [] e.op = "Reduce"           -> ReduceVerdict

Init == l = 1
Next == /\ l <= Len(Trace)
        /\ LET v == Verdict IN
              IF v = "ok" THEN TRUE
              ELSE PrintT(<<IF v = "open" THEN "OPEN" ELSE "REJECT", l, e.op, v>>)
        /\ l' = l + 1
Spec == Init /\ [][Next]_l
Consumed == TLCGet("stats").diameter = Len(Trace) + 1
=============================================================================
