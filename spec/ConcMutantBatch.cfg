SPECIFICATION CSpec
CONSTANTS
  NP = 2
  MaxOps = 1
  Alphabet = {"A12", "L"}
  DevSharedOptionsCell = FALSE
  DevAddPerTriple = TRUE
VIEW CView
INVARIANTS Refines
CHECK_DEADLOCK FALSE
