------------------------------ MODULE LL1Derive ------------------------------
(* The derivation machine of the grammar table: state = pending stack, history = emitted tokens    *)
(* and alternatives taken.  TLC explores it breadth-first (VIEW = stack + kind of the last emitted  *)
(* token) and prints, for every expansion step, the sentence obtained by completing the prefix with *)
(* the shortest yields of LL1!MinYield:                                                             *)
(*     {"r": rule, "i": alternative, "prev": preceding token kind, "n": prefix length, "s": [..]}   *)
(* These sentences (with the rule owning each token) are the witnesses of C17 and the seed corpus   *)
(* of C18 / C16 / C08.  Whether a sentence really takes the alternative is decided by LL1!Run on    *)
(* the trace of what the real parser did, not here.                                                 *)
EXTENDS LL1
CONSTANTS MaxStack, MaxOut,
          Rev        \* FALSE: alternatives tried first-to-last, TRUE: last-to-first (breadth-first search then
                     \* reaches every stack first through the last alternatives, e.g. bindings instead of constants)
VARIABLES stack, out, deriv
dvars == <<stack, out, deriv>>

DInit == stack = StartStack /\ out = <<>> /\ deriv = <<>>
DNext == /\ Len(stack) > 0
         /\ LET top == Head(stack) IN
               IF top.tok
               THEN /\ out' = Append(out, [k |-> top.v, own |-> top.own])
                    /\ stack' = Tail(stack)
                    /\ UNCHANGED deriv
               ELSE /\ top.v \in Rules
                    /\ \E j \in Alts(top.v) :
                          LET i == IF Rev THEN Len(G[top.v]) + 1 - j ELSE j IN
                          /\ stack' = Push(top.v, i) \o Tail(stack)
                          /\ deriv' = Append(deriv, [r |-> top.v, i |-> i])
                    /\ UNCHANGED out
DSpec == DInit /\ [][DNext]_dvars

LastK(o) == IF Len(o) = 0 THEN "" ELSE o[Len(o)].k
DView == <<stack, LastK(out)>>
DBound == Len(stack) <= MaxStack /\ Len(out) <= MaxOut

DEmit == (deriv' # deriv) =>
            PrintT(ToJson([r |-> Head(stack).v, i |-> deriv'[Len(deriv')].i, prev |-> LastK(out),
                           n |-> Len(out),
                           s |-> out \o CompleteSt(stack', IF Rev THEN MinYieldRev ELSE MinYield)]))
=============================================================================
