SPECIFICATION CSpec
CONSTANTS
  NP = 2
  MaxOps = 2
  Alphabet = {"A12", "A3", "R12", "L", "LA", "E2"}
  DevSharedOptionsCell = FALSE
  DevAddPerTriple = FALSE
VIEW CView
INVARIANTS Refines NoPartialBatch NoDeadlock NoPanic LocksFree OptionsKept OptionsUntouched
CHECK_DEADLOCK FALSE
