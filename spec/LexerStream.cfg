SPECIFICATION MSpec
CONSTANTS Bytes = {1, 2}
 MaxLen = 3
INVARIANTS PosInRange ClosedOnlyAfterEnd
PROPERTIES NothingAfterClose PosMonotone
CHECK_DEADLOCK FALSE
