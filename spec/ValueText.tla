------------------------------ MODULE ValueText ------------------------------
(* Layer B (implementation-shaped, design level) for C05 / C15: the printed forms of nodes,         *)
(* predicates, literals and triples as CHARACTER SEQUENCES, and the rules by which the parsers cut   *)
(* them up again:                                                                                    *)
(*    node.Parse       TrimSpace; raw[0] = '/' : type = up to the FIRST '<', last char must be '>',  *)
(*                     id = between; raw[0] = '_' : id = raw[2:]                                     *)
(*    predicate.Parse  TrimSpace; FIRST `"@[`; id = strconv.Unquote(raw[0:idx+1]);                   *)
(*                     anchor = raw[idx+3 : len-1] (optionally quoted)                               *)
(*    literal Parse    TrimSpace; FIRST `"^^type:`; value = raw[1:idx]; type = rest;                 *)
(*                     blob value = v[1:len(v)-1]                                                    *)
(*    triple.Parse     TrimSpace; FIRST `>\s+"` ends the subject, FIRST `]\s+[/"]` ends the          *)
(*                     predicate; sp = raw[idxp[1]-1 : idxo[0]+1]                                    *)
(*    ParseObject      node, else literal, else predicate                                            *)
(*    printing         type<id>;  %q of the predicate id (escapes " and \) @[anchor];                *)
(*                     "text"^^type:text with the text verbatim;  s TAB p TAB o                      *)
(* Go's slice expressions are partial: a[i:j] with i > j panics.  The model keeps that: a parser     *)
(* ends in ok / err / panic.                                                                         *)
(*                                                                                                  *)
(* Characters are one-character strings; a few SYMBOLS stand for longer fixed texts so that the     *)
(* sequences stay short:  "D" = ^^type:   "T" = an RFC3339Nano instant   "W" = one white space      *)
(* character   "N" = a decimal number   "text" "blob" "int64" "foo" = those words.                   *)
(*                                                                                                  *)
(* Checked by TLC for all ids / texts up to MaxLen and all inputs up to the lengths below:          *)
(*    RoundTrip     Parse(Print(v)) = v   alone, as object, inside a triple                          *)
(*    Unambiguous   Print(v) = Print(w) => v = w                                                     *)
(*    ParsersTotal  no input makes a parser panic                                                    *)
(* ValueTextC.Repaired selects the design: FALSE = the parsers as first read (FIRST delimiter, no   *)
(* length checks: RoundTrip and ParsersTotal FAIL, each counterexample was confirmed on the real    *)
(* code and repaired in /repo), TRUE = the parsers of the current tree (LAST delimiter, length       *)
(* checks before every slice expression).  Every counterexample is printed                           *)
(* (<<"RTC", kind, level, chars>>, <<"AMB", ...>>, <<"PANIC", parser, chars>>) and handed to the Go driver; *)
(* only what the real code then does, judged by ValueTrace.tla, produces a verdict.                  *)
EXTENDS Integers, Sequences, FiniteSets, TLC, ValueTextC

Q  == "\""
BS == "\\"

Strs(A, n) == UNION {[1..k -> A] : k \in 0..n}
Has(s, c) == \E i \in DOMAIN s : s[i] = c

\* ---- helpers -----------------------------------------------------------------------------------
RECURSIVE TrimL(_)
TrimL(s) == IF s # <<>> /\ s[1] = "W" THEN TrimL(Tail(s)) ELSE s
RECURSIVE TrimR(_)
TrimR(s) == IF s # <<>> /\ s[Len(s)] = "W" THEN TrimR(SubSeq(s, 1, Len(s) - 1)) ELSE s
Trim(s) == TrimR(TrimL(s))

\* first position of pat in s, 0 if none (strings.Index)
Hits(s, pat) == {i \in 1..(Len(s) - Len(pat) + 1) : SubSeq(s, i, i + Len(pat) - 1) = pat}
Index(s, pat) ==
    LET hits == Hits(s, pat)
    IN  IF hits = {} THEN 0 ELSE CHOOSE i \in hits : \A j \in hits : i <= j
\* last position (strings.LastIndex)
LastIndex(s, pat) ==
    LET hits == Hits(s, pat)
    IN  IF hits = {} THEN 0 ELSE CHOOSE i \in hits : \A j \in hits : i >= j
\* the delimiter search of predicate.Parse / literal Parse in the selected design
DelimIndex(s, pat) == IF Repaired THEN LastIndex(s, pat) ELSE Index(s, pat)

Res(st, k, a, b) == [st |-> st, k |-> k, a |-> a, b |-> b]
Err   == Res("err", "", <<>>, <<>>)
Panic == Res("panic", "", <<>>, <<>>)
\* what an out-of-range slice expression / index gives: a panic as first read, a checked error now
Bad == IF Repaired THEN Err ELSE Panic

\* ---- printers ------------------------------------------------------------------------------------
Esc(c) == IF c = Q THEN <<BS, Q>> ELSE IF c = BS THEN <<BS, BS>> ELSE <<c>>
RECURSIVE EscAll(_)
EscAll(s) == IF s = <<>> THEN <<>> ELSE Esc(s[1]) \o EscAll(Tail(s))
Quote(id) == <<Q>> \o EscAll(id) \o <<Q>>                      \* fmt %q of the predicate id

PrintNode(t, i)   == t \o <<"<">> \o i \o <<">">>
PrintPred(id, ta) == Quote(id) \o <<"@", "[">> \o ta \o <<"]">>  \* ta = <<>> (immutable) or <<"T">>
PrintText(s)      == <<Q>> \o s \o <<Q, "D", "text">>             \* "%v" of the text, verbatim
PrintTriple(s, p, o) == s \o <<"W">> \o p \o <<"W">> \o o

\* ---- constructors' rules (NewType, NewID) ---------------------------------------------------------
ValidType(t) == t # <<>> /\ t[1] = "/" /\ t[Len(t)] # "/" /\ ~Has(t, "W")
ValidID(i)   == i # <<>> /\ ~Has(i, "<") /\ ~Has(i, ">")

\* ---- node.Parse -----------------------------------------------------------------------------------
ParseNode(s0) ==
    LET raw == Trim(s0) IN
    IF raw = <<>> THEN Bad                                             \* raw[0] of the empty string
    ELSE IF raw[1] = "/" THEN
        LET idx == Index(raw, <<"<">>) IN
        IF idx = 0 THEN Err
        ELSE IF ~ValidType(SubSeq(raw, 1, idx - 1)) THEN Err
        ELSE IF raw[Len(raw)] # ">" THEN Err
        ELSE IF ~ValidID(SubSeq(raw, idx + 1, Len(raw) - 1)) THEN Err
        ELSE Res("ok", "node", SubSeq(raw, 1, idx - 1), SubSeq(raw, idx + 1, Len(raw) - 1))
    ELSE IF raw[1] = "_" THEN
        IF Len(raw) < 2 THEN Bad                                       \* raw[2:] of a 1-byte string
        ELSE IF ~ValidID(SubSeq(raw, 3, Len(raw))) THEN Err
        ELSE Res("ok", "node", <<"/", "_">>, SubSeq(raw, 3, Len(raw)))
    ELSE Err

\* ---- strconv.Unquote, restricted to the escapes %q produces for this alphabet -------------------
RECURSIVE Unq(_)
Unq(b) == IF b = <<>> THEN [ok |-> TRUE, v |-> <<>>]
          ELSE IF b[1] = Q THEN [ok |-> FALSE, v |-> <<>>]             \* bare quote inside
          ELSE IF b[1] = BS THEN
               IF Len(b) < 2 \/ b[2] \notin {Q, BS} THEN [ok |-> FALSE, v |-> <<>>]
               ELSE LET r == Unq(SubSeq(b, 3, Len(b))) IN [ok |-> r.ok, v |-> <<b[2]>> \o r.v]
          ELSE LET r == Unq(Tail(b)) IN [ok |-> r.ok, v |-> <<b[1]>> \o r.v]
Unquote(q) == IF Len(q) < 2 \/ q[1] # Q \/ q[Len(q)] # Q THEN [ok |-> FALSE, v |-> <<>>]
              ELSE Unq(SubSeq(q, 2, Len(q) - 1))

\* ---- predicate.Parse --------------------------------------------------------------------------------
ParsePred(s0) ==
    LET raw == Trim(s0) IN
    IF raw = <<>> THEN Err
    ELSE IF raw[1] # Q THEN Err
    ELSE LET i == DelimIndex(raw, <<Q, "@", "[">>) IN                  \* i = idx + 1
         IF i = 0 THEN Err
         ELSE IF i + 2 > Len(raw) - 1 THEN Bad                         \* raw[idx+3 : len(raw)-1], idx+3 > len-1
         ELSE LET id == Unquote(SubSeq(raw, 1, i))
                  ta0 == SubSeq(raw, i + 3, Len(raw) - 1)
              IN  IF ~id.ok THEN Err
                  ELSE IF ta0 = <<>> THEN Res("ok", "pred", id.v, <<>>)
                  ELSE LET ta1 == IF ta0[1] = Q THEN Tail(ta0) ELSE ta0 IN
                       IF ta1 = <<>> THEN Bad                          \* ta[len(ta)-1] of "" (now: time.Parse("") fails)
                       ELSE LET ta2 == IF ta1[Len(ta1)] = Q THEN SubSeq(ta1, 1, Len(ta1) - 1) ELSE ta1 IN
                            IF ta2 = <<"T">> THEN Res("ok", "pred", id.v, <<"T">>) ELSE Err

\* ---- literal.DefaultBuilder().Parse --------------------------------------------------------------------
ParseLit(s0) ==
    LET raw == Trim(s0) IN
    IF raw = <<>> THEN Err
    ELSE IF raw[1] # Q THEN Err
    ELSE LET i == DelimIndex(raw, <<Q, "D">>) IN                       \* i = idx + 1
         IF i = 0 THEN Err
         ELSE IF i = 1 THEN Bad                                        \* raw[1:idx] with idx = 0
         ELSE LET v == SubSeq(raw, 2, i - 1)
                  t == SubSeq(raw, i + 2, Len(raw))
              IN  IF t = <<"text">> THEN Res("ok", "text", v, <<>>)
                  ELSE IF t = <<"int64">> THEN (IF v = <<"N">> THEN Res("ok", "int64", v, <<>>) ELSE Err)
                  ELSE IF t = <<"blob">> THEN
                       IF Len(v) < 2 THEN Bad                          \* v[1:len(v)-1]
                       ELSE LET inner == SubSeq(v, 2, Len(v) - 1) IN
                            IF inner = <<>> \/ inner = <<"N">> THEN Res("ok", "blob", inner, <<>>) ELSE Err
                  ELSE Err                                             \* unknown type: an error

\* ---- triple.ParseObject ---------------------------------------------------------------------------------
ParseObj(s) ==
    LET n == ParseNode(s) IN
    IF n.st # "err" THEN n
    ELSE LET lt == ParseLit(s) IN
         IF lt.st # "err" THEN lt ELSE ParsePred(s)

\* ---- triple.Parse ------------------------------------------------------------------------------------------
\* a match of  c \s+ (one of last)  starting at i: returns the position of its last character, 0 if none
MatchEnd(raw, i, c, last) ==
    IF raw[i] # c THEN 0
    ELSE LET js == {j \in (i + 2)..Len(raw) : raw[j] \in last /\ \A m \in (i + 1)..(j - 1) : raw[m] = "W"}
         IN  IF js = {} THEN 0 ELSE CHOOSE j \in js : TRUE              \* at most one such j
FirstMatch(raw, c, last) ==
    LET is == {i \in 1..Len(raw) : MatchEnd(raw, i, c, last) # 0}
    IN  IF is = {} THEN 0 ELSE CHOOSE i \in is : \A m \in is : i <= m

ParseTriple(s0) ==
    LET raw == Trim(s0)
        ip == FirstMatch(raw, ">", {Q})
        io == FirstMatch(raw, "]", {"/", Q})
    IN  IF ip = 0 \/ io = 0 THEN Err
        ELSE LET jp == MatchEnd(raw, ip, ">", {Q})
                 jo == MatchEnd(raw, io, "]", {"/", Q})
             IN  IF jp - 1 > io THEN Bad                               \* raw[idxp[1]-1 : idxo[0]+1]
                 ELSE LET s == ParseNode(SubSeq(raw, 1, ip))
                          p == ParsePred(SubSeq(raw, jp, io))
                          o == ParseObj(SubSeq(raw, jo, Len(raw)))
                      IN  IF s.st = "panic" \/ (s.st = "ok" /\ p.st = "panic") \/ (s.st = "ok" /\ p.st = "ok" /\ o.st = "panic") THEN Panic
                          ELSE IF s.st # "ok" \/ p.st # "ok" \/ o.st # "ok" THEN Err
                          ELSE [st |-> "ok", k |-> "triple", a |-> <<s, p, o>>, b |-> <<>>]

\* ---- RoundTrip -------------------------------------------------------------------------------------------------
\* the documented domain: no white space in ids / types; '<' '>' not in node ids (NewID refuses them)
IdAlpha == {"a", Q, BS, "@", "[", "]", "/", "D", "<", ">"}
IdStrs == Strs(IdAlpha, MaxLen) \ {<<>>}

CtxS == <<"/", "t", "<", "s", ">">>
CtxP == <<Q, "p", Q, "@", "[", "]">>
CtxO == <<"/", "t", "<", "o", ">">>

\* for each kind of component: is it a value at all, its printed form, what parsing must give back
IsValue(kind, s) == CASE kind = "nodeid"   -> ValidID(s)
                      [] kind = "nodetype" -> ValidType(<<"/">> \o s)
                      [] OTHER             -> TRUE
Printed(kind, s) == CASE kind = "nodeid"   -> PrintNode(<<"/", "t">>, s)
                      [] kind = "nodetype" -> PrintNode(<<"/">> \o s, <<"i">>)
                      [] kind = "predid"   -> PrintPred(s, <<>>)
                      [] kind = "predidT"  -> PrintPred(s, <<"T">>)
                      [] kind = "text"     -> PrintText(s)
Wanted(kind, s)  == CASE kind = "nodeid"   -> Res("ok", "node", <<"/", "t">>, s)
                      [] kind = "nodetype" -> Res("ok", "node", <<"/">> \o s, <<"i">>)
                      [] kind = "predid"   -> Res("ok", "pred", s, <<>>)
                      [] kind = "predidT"  -> Res("ok", "pred", s, <<"T">>)
                      [] kind = "text"     -> Res("ok", "text", s, <<>>)
OwnParser(kind, t) == CASE kind \in {"nodeid", "nodetype"} -> ParseNode(t)
                        [] kind \in {"predid", "predidT"}  -> ParsePred(t)
                        [] kind = "text"                    -> ParseLit(t)
InTriple(kind, t) == CASE kind \in {"nodeid", "nodetype"} -> PrintTriple(t, CtxP, CtxO)
                       [] kind \in {"predid", "predidT"}  -> PrintTriple(CtxS, t, CtxO)
                       [] kind = "text"                    -> PrintTriple(CtxS, CtxP, t)
WantedTriple(kind, w) ==
    LET s == Res("ok", "node", <<"/", "t">>, <<"s">>)
        p == Res("ok", "pred", <<"p">>, <<>>)
        o == Res("ok", "node", <<"/", "t">>, <<"o">>)
    IN  [st |-> "ok", k |-> "triple", b |-> <<>>,
         a |-> CASE kind \in {"nodeid", "nodetype"} -> <<w, p, o>>
                 [] kind \in {"predid", "predidT"}  -> <<s, w, o>>
                 [] kind = "text"                    -> <<s, p, w>>]

RoundTripOK(kind, s) ==
    LET t == Printed(kind, s)  w == Wanted(kind, s) IN
    /\ OwnParser(kind, t) = w
    /\ ParseObj(t) = w
    /\ ParseTriple(InTriple(kind, t)) = WantedTriple(kind, w)

RTKinds == {"nodeid", "nodetype", "predid", "predidT", "text"}
RoundTrip == \A kind \in RTKinds : \A s \in IdStrs : IsValue(kind, s) => RoundTripOK(kind, s)

\* Unambiguous: two values of one kind with the same printed form are the same value (evaluated for
\* ids/texts up to length MaxLen - 1: it quantifies over pairs)
AmbLen == MaxLen - 1
AmbStrs == Strs(IdAlpha, AmbLen) \ {<<>>}
UnambiguousAt(kind, s) == \A s2 \in AmbStrs : (IsValue(kind, s2) /\ Printed(kind, s2) = Printed(kind, s)) => s2 = s
Unambiguous == \A kind \in RTKinds : \A s \in AmbStrs : IsValue(kind, s) => UnambiguousAt(kind, s)

\* ---- ParsersTotal ---------------------------------------------------------------------------------------------------
PAlpha(p) == CASE p = "node"   -> {"/", "_", "<", ">", "a", "W"}
               [] p = "pred"   -> {Q, "@", "[", "]", "a", BS, "W", "T"}
               [] p = "lit"    -> {Q, "D", "text", "blob", "int64", "foo", "[", "]", "N", "W"}
               [] p = "obj"    -> {Q, "D", "@", "[", "]", "/", "<", ">", "_", "blob"}
               [] p = "triple" -> {"]", ">", "W", "/", Q, "a", "<"}
PLen(p) == CASE p = "node" -> MaxLen + 2 [] p = "pred" -> MaxLen + 2 [] p = "lit" -> MaxLen + 1
             [] p = "obj" -> MaxLen + 1 [] p = "triple" -> MaxLen + 3
Parser(p, s) == CASE p = "node" -> ParseNode(s) [] p = "pred" -> ParsePred(s) [] p = "lit" -> ParseLit(s)
                  [] p = "obj" -> ParseObj(s) [] p = "triple" -> ParseTriple(s)
Parsers == {"node", "pred", "lit", "obj", "triple"}
ParsersTotal == \A p \in Parsers : \A s \in Strs(PAlpha(p), PLen(p)) : Parser(p, s).st # "panic"

\* ---- exhaustive evaluation: one state per case, reporting instead of stopping -------------------------------------
VARIABLE c

InitRT == \E kind \in RTKinds : \E s \in IdStrs : c = [kind |-> kind, s |-> s]
OwnOK(kind, s)    == OwnParser(kind, Printed(kind, s)) = Wanted(kind, s)
ObjOK(kind, s)    == ParseObj(Printed(kind, s)) = Wanted(kind, s)
TripleOK(kind, s) == ParseTriple(InTriple(kind, Printed(kind, s))) = WantedTriple(kind, Wanted(kind, s))
ReportRT ==
    /\ (IsValue(c.kind, c.s) /\ ~OwnOK(c.kind, c.s))    => PrintT(<<"RTC", c.kind, "own", c.s>>)
    /\ (IsValue(c.kind, c.s) /\ ~ObjOK(c.kind, c.s))    => PrintT(<<"RTC", c.kind, "obj", c.s>>)
    /\ (IsValue(c.kind, c.s) /\ ~TripleOK(c.kind, c.s)) => PrintT(<<"RTC", c.kind, "triple", c.s>>)
    /\ (IsValue(c.kind, c.s) /\ Len(c.s) <= AmbLen /\ ~UnambiguousAt(c.kind, c.s)) => PrintT(<<"AMB", c.kind, c.s>>)
SpecRT == InitRT /\ [][UNCHANGED c]_c

InitParse == \E p \in Parsers : \E s \in Strs(PAlpha(p), PLen(p)) : c = [kind |-> p, s |-> s]
ReportParse == (Parser(c.kind, c.s).st = "panic") => PrintT(<<"PANIC", c.kind, c.s>>)
SpecParse == InitParse /\ [][UNCHANGED c]_c
=============================================================================
