SPECIFICATION Spec
INVARIANTS Partition Disjoint ZeroIsAll
CHECK_DEADLOCK FALSE
