SPECIFICATION Spec
INVARIANTS IndexesAreProjections LookupsRefine
CHECK_DEADLOCK FALSE
