--------------------------- MODULE StatementTrace ---------------------------
(* Trace validation for C04: sequences of BQL statements executed on one live store through the     *)
(* public path (harness/cmd/bqldrv, mode "stmt"); the full listing of every graph is recorded       *)
(* before and after each statement and checked against Statements.tla.                              *)
(*                                                                                                  *)
(* event S: [kind, targets, sources, data, tpls, clauses, glo, ghi, perr, err, after]               *)
(*   after = sequence of [g, x (exists), ts (sequence of triples)] for every universe graph name    *)
(* event R (reset): the store was replaced; after = its listing.                                    *)
(* The spec never blocks: a rejected event prints <<"REJECT", l, "C04", class>> and the state is    *)
(* re-anchored on the recorded listing.                                                             *)
EXTENDS Statements, Json, IOUtils

Trace == ndJsonDeserialize(IOEnv.TRACE_FILE)
VARIABLES l, exists, content
e == Trace[l]

AllNames == {e.after[i].g : i \in DOMAIN e.after}
ObsExists == {e.after[i].g : i \in {j \in DOMAIN e.after : e.after[j].x}}
ObsContent == [n \in AllNames |-> LET i == CHOOSE i \in DOMAIN e.after : e.after[i].g = n IN Range(e.after[i].ts)]
NoDupListing == \A i \in DOMAIN e.after : Len(e.after[i].ts) = Cardinality(Range(e.after[i].ts))

Targets == Range(e.targets)
Sources == Range(e.sources)
AllBlanks == UNION {BlankSubjects(content[n]) : n \in DOMAIN content}
Unchanged(ns) == \A n \in ns : (n \in ObsExists) = (n \in exists) /\ ObsContent[n] = content[n]

\* the solutions of the WHERE pattern over the FROM graphs (data elements tagged by source index)
SrcData == UNION {{<<i, t>> : t \in content[e.sources[i]]} : i \in DOMAIN e.sources}
Sols == SolutionsOver(SrcData, e, {})
\* a source graph holds blank nodes (a reification was written into a graph that a later statement reads from): matching
\* blank nodes in WHERE patterns is not specified here (they are outside the node table) - such statements are not judged
SrcHasBlank == \E i \in DOMAIN e.sources : e.sources[i] \in DOMAIN content /\
    \E t \in content[e.sources[i]] : IsBlank(t.s) \/ (t.o.k = "N" /\ IsBlank(t.o.v))

Verdict ==
    IF ~NoDupListing THEN "duplicate-triple-in-listing"
    ELSE IF e.perr THEN (IF Unchanged(AllNames) THEN "ok" ELSE "rejected-statement-changed-store")
    ELSE CASE e.kind = "create" ->
                IF ~Unchanged(AllNames \ Targets) THEN "non-target-changed"
                ELSE IF e.err # (Targets \cap exists # {}) THEN "error-flag"
                ELSE IF \A n \in Targets : n \in ObsExists /\ ObsContent[n] = (IF n \in exists THEN content[n] ELSE {}) THEN "ok"
                ELSE "create-effect"
           [] e.kind = "drop" ->
                IF ~Unchanged(AllNames \ Targets) THEN "non-target-changed"
                ELSE IF e.err # (Targets \ exists # {}) THEN "error-flag"
                ELSE IF \A n \in Targets : n \notin ObsExists THEN "ok" ELSE "drop-effect"
           [] e.kind \in {"insert", "delete"} ->
                IF ~Unchanged(AllNames \ Targets) THEN "non-target-changed"
                ELSE IF e.err # (Targets \ exists # {}) THEN "error-flag"
                ELSE IF ObsExists # exists THEN "graph-set-changed"
                ELSE IF e.err THEN "ok"        \* failed during execution: targets may be either way
                ELSE IF \A n \in Targets : ObsContent[n] = (IF e.kind = "insert" THEN content[n] \cup Range(e.data)
                                                             ELSE content[n] \ Range(e.data)) THEN "ok"
                ELSE "data-effect"
           [] e.kind \in {"construct", "deconstruct"} ->
                IF (Targets \cup Sources) \ exists # {}
                THEN (IF ~e.err THEN "unknown-graph-accepted"
                      ELSE IF Unchanged(AllNames) THEN "ok" ELSE "rejected-statement-changed-store")
                ELSE IF ~Unchanged(AllNames \ Targets) THEN "non-target-changed"
                ELSE IF ObsExists # exists THEN "graph-set-changed"
                ELSE IF SrcHasBlank THEN "open"
                ELSE IF \E i \in DOMAIN e.tpls : InstFails(e.tpls[i], Sols)
                     THEN (IF e.err THEN "ok" ELSE "open")   \* a binding of the wrong kind for its position
                ELSE IF e.err THEN "error-instead-of-effect"
                ELSE IF e.kind = "construct"
                     THEN (IF \A n \in Targets : ConstructOK(content[n], ObsContent[n], e.tpls, Sols, AllBlanks)
                           THEN "ok" ELSE "construct-effect")
                     ELSE (IF \A n \in Targets : DeconstructOK(content[n], ObsContent[n], e.tpls, Sols)
                           THEN "ok" ELSE "deconstruct-effect")

Init == l = 1 /\ exists = {} /\ content = <<>>
Next == /\ l <= Len(Trace)
        /\ IF e.ev = "R" THEN TRUE
           ELSE LET v == Verdict IN
                   \/ v = "ok"
                   \/ v # "ok" /\ PrintT(<<IF v = "open" THEN "OPEN" ELSE "REJECT", l, "C04", v>>)
        /\ exists' = ObsExists        \* re-anchor on the recorded listing (equal to the model when ok)
        /\ content' = ObsContent
        /\ l' = l + 1
Spec == Init /\ [][Next]_<<l, exists, content>>
Consumed == TLCGet("stats").diameter = Len(Trace) + 1
=============================================================================
