------------------------------ MODULE ConcStore ------------------------------
(* C07 - concurrent use of storage/memory: linearisable, dead-lock free, every lookup closes its channel  *)
(* exactly once, the options value is not modified.                                                       *)
(*                                                                                                        *)
(* Layer A (SeqStore) is the sequential store of Store.tla / Lookups.tla: AddTriples(batch) is ONE atomic  *)
(* step, RemoveTriples(batch) one step per triple, a lookup / Exist / GraphNames is one step, NewGraph /    *)
(* DeleteGraph / Graph one step.  The abstract state is (agraphs, acontent).                               *)
(*                                                                                                        *)
(* Layer B (storage/memory/memory.go): per graph a Go sync.RWMutex - a writer that is waiting blocks new   *)
(* readers; AddTriples takes the write lock once for the whole batch; RemoveTriples takes and releases it  *)
(* for every triple; every lookup takes the read lock, computes its selection, SENDS the results on the     *)
(* caller's channel while still holding the lock and closes the channel in a deferred call; with            *)
(* LatestAnchor the lookup WRITES the caller's LookupOptions.FilterOptions (the shared `cell` here), reads   *)
(* it back twice and resets it in a deferred call; the store has its own RW-mutex for the name map and      *)
(* GraphNames streams the names under the read lock.                                                        *)
(*                                                                                                        *)
(* TLC checks, for NP processes with programs of <= MaxOps operations over 3 triples (clients drain):       *)
(*   Refines      the concrete content equals the abstract one whenever a reader can look (so no lookup     *)
(*                sees part of a batch) and every returned answer is the Layer A answer at the operation's   *)
(*                linearisation point, which lies between invocation and return by construction            *)
(*   NoDeadlock   some step is enabled until every process is done                                          *)
(*   CloseOnce    every lookup has closed its channel exactly once when it returns, also on its error path  *)
(*   OptionsKept  the options cell holds the caller's value whenever no lookup using it is running, and     *)
(*   OptionsUntouched (stronger, what the property says) it is never written at all                         *)
(* Deviation switches: DevSharedOptionsCell (TRUE = the code: LatestAnchor goes through the caller's value;  *)
(* FALSE = the lookup uses a private copy), DevAddPerTriple (a seeded defect used as negative control: the   *)
(* write lock is released between the triples of one AddTriples batch).                                     *)
EXTENDS Store, Lookups

CONSTANTS NP, MaxOps, Alphabet, DevSharedOptionsCell, DevAddPerTriple

G1 == Names[1]       \* the graph all graph operations use (never dropped)
G2 == Names[2]       \* the name the store operations create / get / drop

\* ---- operations --------------------------------------------------------------------------------------------
Op(n) == CASE n = "A12" -> [k |-> "add", b |-> <<1, 2>>]
           [] n = "A23" -> [k |-> "add", b |-> <<2, 3>>]
           [] n = "A3"  -> [k |-> "add", b |-> <<3>>]
           [] n = "R12" -> [k |-> "rem", b |-> <<1, 2>>]
           [] n = "R3"  -> [k |-> "rem", b |-> <<3>>]
           [] n = "L"   -> [k |-> "list", b |-> <<>>]       \* Graph.Triples, default options
           [] n = "LA"  -> [k |-> "listla", b |-> <<>>]     \* Graph.Triples, LatestAnchor, options value shared
           [] n = "E2"  -> [k |-> "exist", b |-> <<2>>]
           [] n = "NEW" -> [k |-> "new", b |-> <<>>]
           [] n = "DEL" -> [k |-> "del", b |-> <<>>]
           [] n = "GET" -> [k |-> "get", b |-> <<>>]
           [] n = "NAMES" -> [k |-> "names", b |-> <<>>]

QList(la) == [s |-> 0, p |-> 0, o |-> 0, c |-> "t", lo |-> 0, hi |-> 0, fop |-> "", ff |-> "predicate", la |-> la, max |-> 0, off |-> 0]

Procs == 1..NP
Programs == UNION {[1..n -> Alphabet] : n \in 1..MaxOps}

VARIABLES agraphs, acontent,         \* Layer A state
          prog, ip, pc,              \* program, index of the current operation, control point
          gr, gww,                   \* graph mutex: readers holding it, processes waiting in Lock()
          grq, ggrant,               \* readers blocked in RLock() behind a pending writer / released by an Unlock()
          sr, sww,                   \* store mutex: readers, processes waiting in Lock()
          cell,                      \* the shared LookupOptions.FilterOptions: "nil" | "latest"
          users,                     \* lookups currently running with the shared options value
          snapC, snapA,              \* per process: concrete / abstract content seen by the running lookup
          c1,                        \* per process: first read of the cell by `if lo.FilterOptions != nil`
          res,                       \* per process: answer of the running operation
          closes,                    \* per process: closes of the running lookup's channel
          bi,                        \* per process: position in the batch (remove; add with DevAddPerTriple)
          okv, touched               \* verdict flags (history variables)

cvars == <<vars, agraphs, acontent, prog, ip, pc, gr, gww, grq, ggrant, sr, sww, cell, users, snapC, snapA, c1, res, closes, bi,
           okv, touched>>

CurOp(p) == Op(prog[p][ip[p]])
Running(p) == ip[p] <= Len(prog[p])

\* ---- sync.RWMutex: a pending Lock excludes new readers ------------------------------------------------------------
\* (a writer's critical section is one step of this model, so the mutex is never seen write-locked: readers
\* only ever wait behind a PENDING writer; Unlock() releases every reader that was blocked at that moment, and
\* those go first even when the next writer is already pending - sync.RWMutex readerWait)
CanRLockG(p) == gww = {} \/ p \in ggrant
CanLockG(p) == p \in gww /\ gr = {} /\ ggrant = {}
CanRLockS == sww = {}
CanLockS(p) == p \in sww /\ sr = {}

Goto(p, l) == pc' = [pc EXCEPT ![p] = l]
\* the operation returns: answer r is compared with what Layer A says (exp); next operation
Finish(p, good) == /\ okv' = (okv /\ good)
                   /\ ip' = [ip EXCEPT ![p] = @ + 1]
                   /\ Goto(p, "idle")

Latest(S) == Result(S, QList(TRUE))

CInit ==
    /\ graphs = {G1} /\ agraphs = {G1}
    /\ content = [n \in NameSet |-> {}] /\ acontent = [n \in NameSet |-> {}]
    /\ last = [op |-> "Init", g |-> "", b |-> <<>>, ok |-> TRUE]
    /\ prog \in [Procs -> Programs]
    /\ ip = [p \in Procs |-> 1] /\ pc = [p \in Procs |-> "idle"]
    /\ gr = {} /\ gww = {} /\ grq = {} /\ ggrant = {} /\ sr = {} /\ sww = {}
    /\ cell = "nil" /\ users = {}
    /\ snapC = [p \in Procs |-> {}] /\ snapA = [p \in Procs |-> {}]
    /\ c1 = [p \in Procs |-> "nil"]
    /\ res = [p \in Procs |-> {}] /\ closes = [p \in Procs |-> 0] /\ bi = [p \in Procs |-> 1]
    /\ okv = TRUE /\ touched = FALSE

UG == UNCHANGED <<gr, gww, grq, ggrant>>
US == UNCHANGED <<sr, sww>>
UL == UNCHANGED <<cell, users, snapC, snapA, c1, res, closes, touched>>
UA == UNCHANGED <<graphs, content, agraphs, acontent>>

\* ---- writes -----------------------------------------------------------------------------------------------------------
Invoke(p) ==
    /\ Running(p) /\ pc[p] = "idle"
    /\ LET k == CurOp(p).k IN
          \/ /\ k \in {"add", "rem"} /\ gww' = gww \cup {p} /\ Goto(p, "w.lock") /\ bi' = [bi EXCEPT ![p] = 1]
             /\ UNCHANGED sww
          \/ /\ k \in {"new", "del"} /\ sww' = sww \cup {p} /\ Goto(p, "s.lock") /\ UNCHANGED <<gww, bi>>
          \/ /\ k \in {"list", "listla", "exist"} /\ Goto(p, "r.lock") /\ UNCHANGED <<gww, sww, bi>>
          \/ /\ k \in {"get", "names"} /\ Goto(p, "s.rlock") /\ UNCHANGED <<gww, sww, bi>>
    /\ UNCHANGED <<gr, grq, ggrant, sr, ip, okv>> /\ UL /\ UA

\* the write lock is taken, the critical section runs and the lock is released in one step: nothing else can
\* move while a writer holds the mutex
Write(p) ==
    /\ pc[p] = "w.lock" /\ CanLockG(p)
    /\ LET o == CurOp(p)
           whole == o.k = "add" /\ ~DevAddPerTriple
           part == IF whole THEN o.b ELSE <<o.b[bi[p]]>>
           lastOne == whole \/ bi[p] = Len(o.b)
           rc == IF o.k = "add" THEN DoAdd(graphs, content, G1, part) ELSE DoRemove(graphs, content, G1, part)
           \* Layer A: an Add takes effect as a whole (at its first critical section), a Remove triple by triple
           ra == IF o.k = "add" THEN (IF bi[p] = 1 THEN DoAdd(agraphs, acontent, G1, o.b) ELSE [C |-> acontent])
                 ELSE DoRemove(agraphs, acontent, G1, part)
       IN  /\ content' = rc.C /\ acontent' = ra.C
           /\ gww' = IF lastOne THEN gww \ {p} ELSE gww        \* next triple: Lock() again right away
           /\ ggrant' = ggrant \cup grq /\ grq' = {}           \* Unlock() releases the readers blocked so far
           /\ IF lastOne THEN Finish(p, TRUE) /\ UNCHANGED bi
              ELSE bi' = [bi EXCEPT ![p] = @ + 1] /\ UNCHANGED <<pc, ip, okv>>
    /\ UNCHANGED <<gr, graphs, agraphs>> /\ US /\ UL

\* ---- lookups on the graph ----------------------------------------------------------------------------------------------
RLock(p) ==
    /\ pc[p] = "r.lock"
    /\ IF ~CanRLockG(p)
       THEN /\ p \notin grq /\ grq' = grq \cup {p}            \* blocked behind a pending writer
            /\ UNCHANGED <<gr, ggrant, ip, pc, okv, snapC, snapA, users, closes, res>>
       ELSE /\ grq' = grq \ {p} /\ ggrant' = ggrant \ {p}
            /\ res' = [res EXCEPT ![p] = {}]
            /\ LET o == CurOp(p) IN
                  IF o.k = "exist"
                  THEN /\ Finish(p, (o.b[1] \in content[G1]) = (o.b[1] \in acontent[G1]))
                       /\ UNCHANGED <<gr, snapC, snapA, users, closes>>
                  ELSE /\ gr' = gr \cup {p}
                       /\ snapC' = [snapC EXCEPT ![p] = content[G1]] /\ snapA' = [snapA EXCEPT ![p] = acontent[G1]]
                       /\ closes' = [closes EXCEPT ![p] = 0]
                       /\ users' = IF o.k = "listla" THEN users \cup {p} ELSE users
                       /\ Goto(p, IF o.k = "listla" /\ DevSharedOptionsCell THEN "la.check" ELSE "r.send")
                       /\ UNCHANGED <<ip, okv>>
    /\ UNCHANGED <<gww, cell, c1, touched, bi>> /\ US /\ UA

\* `if lo.FilterOptions != nil { return error }` (a read) ; `lo.FilterOptions = &{Latest}` (a write) ; defer reset
LaCheck(p) ==
    /\ pc[p] = "la.check"
    /\ IF cell # "nil"
       THEN res' = [res EXCEPT ![p] = {0 - 1}] /\ Goto(p, "r.close")
       ELSE Goto(p, "la.set") /\ UNCHANGED res
    /\ UNCHANGED <<ip, okv, cell, touched, users, snapC, snapA, c1, closes, bi>> /\ UG /\ US /\ UA

LaSet(p) ==
    /\ pc[p] = "la.set"
    /\ cell' = "latest" /\ touched' = TRUE /\ Goto(p, "la.read1")
    /\ UNCHANGED <<ip, okv, res, users, snapC, snapA, c1, closes, bi>> /\ UG /\ US /\ UA

\* `if lo.FilterOptions != nil {` ... `executeFilter(.., lo.FilterOptions)`: two reads of the caller's value
LaRead1(p) ==
    /\ pc[p] = "la.read1"
    /\ c1' = [c1 EXCEPT ![p] = cell]
    /\ Goto(p, IF cell = "nil" THEN "r.send" ELSE "la.read2")
    /\ UNCHANGED <<ip, okv, cell, users, snapC, snapA, res, closes, touched, bi>> /\ UG /\ US /\ UA

LaRead2(p) ==
    /\ pc[p] = "la.read2"
    /\ IF cell = "nil"
       THEN res' = [res EXCEPT ![p] = {0 - 2}] /\ Goto(p, "r.close")      \* nil dereference in latestFilter
       ELSE UNCHANGED res /\ Goto(p, "r.send")
    /\ UNCHANGED <<ip, okv, cell, users, snapC, snapA, c1, closes, touched, bi>> /\ UG /\ US /\ UA

\* the results are sent while the read lock is held (the client drains); then the deferred calls run:
\* reset of the options (only when this lookup installed them), close(chan), RUnlock
Send(p) ==
    /\ pc[p] = "r.send"
    /\ LET o == CurOp(p)
           filtered == o.k = "listla" /\ (~DevSharedOptionsCell \/ c1[p] # "nil")
       IN  res' = [res EXCEPT ![p] = IF filtered THEN Latest(snapC[p]) ELSE snapC[p]]
    /\ Goto(p, "r.close")
    /\ UNCHANGED <<ip, okv, cell, users, snapC, snapA, c1, closes, touched, bi>> /\ UG /\ US /\ UA

Close(p) ==
    /\ pc[p] = "r.close"
    /\ LET o == CurOp(p)
           installed == o.k = "listla" /\ DevSharedOptionsCell /\ res[p] # {0 - 1}
           exp == IF o.k = "listla" THEN Latest(snapA[p]) ELSE snapA[p]
       IN  /\ cell' = IF installed THEN "nil" ELSE cell
           /\ closes' = [closes EXCEPT ![p] = @ + 1]
           /\ gr' = gr \ {p}
           /\ users' = users \ {p}
           /\ Finish(p, res[p] = exp /\ closes[p] + 1 = 1)
    /\ UNCHANGED <<gww, grq, ggrant, snapC, snapA, c1, res, touched, bi>> /\ US /\ UA

\* ---- the store's name map --------------------------------------------------------------------------------------------------
SWrite(p) ==
    /\ pc[p] = "s.lock" /\ CanLockS(p)
    /\ LET o == CurOp(p)
           rc == IF o.k = "new" THEN DoNewGraph(graphs, content, G2) ELSE DoDeleteGraph(graphs, content, G2)
           ra == IF o.k = "new" THEN DoNewGraph(agraphs, acontent, G2) ELSE DoDeleteGraph(agraphs, acontent, G2)
       IN  /\ graphs' = rc.G /\ content' = rc.C /\ agraphs' = ra.G /\ acontent' = ra.C
           /\ Finish(p, rc.ok = ra.ok)
    /\ sww' = sww \ {p}
    /\ UNCHANGED <<sr, bi>> /\ UG /\ UL

SRead(p) ==
    /\ pc[p] = "s.rlock" /\ CanRLockS
    /\ LET o == CurOp(p) IN
          IF o.k = "get"
          THEN Finish(p, (G2 \in graphs) = (G2 \in agraphs)) /\ UNCHANGED <<sr, snapC, snapA>>
          ELSE /\ sr' = sr \cup {p}                             \* GraphNames: names are sent under the read lock
               /\ snapC' = [snapC EXCEPT ![p] = graphs] /\ snapA' = [snapA EXCEPT ![p] = agraphs]
               /\ Goto(p, "s.send") /\ UNCHANGED <<ip, okv>>
    /\ UNCHANGED <<sww, cell, users, c1, res, closes, touched, bi>> /\ UG /\ UA

SSend(p) ==
    /\ pc[p] = "s.send"
    /\ sr' = sr \ {p}
    /\ Finish(p, snapC[p] = snapA[p])
    /\ UNCHANGED <<sww, bi>> /\ UG /\ UL /\ UA

CNext == \E p \in Procs : \/ Invoke(p) \/ Write(p) \/ RLock(p) \/ LaCheck(p) \/ LaSet(p) \/ LaRead1(p) \/ LaRead2(p)
                          \/ Send(p) \/ Close(p) \/ SWrite(p) \/ SRead(p) \/ SSend(p)

CSpec == CInit /\ [][CNext /\ UNCHANGED <<prog, last>>]_cvars

\* ---- properties ---------------------------------------------------------------------------------------------------------------
AllDone == \A p \in Procs : ~Running(p)

\* refinement to the sequential store: answers are Layer A answers (okv) and whenever a reader may take the lock
\* the concrete state is the abstract one - in particular no lookup can see part of an added batch
Refines == /\ okv
           /\ (\E p \in Procs : CanRLockG(p)) => content[G1] = acontent[G1]
           /\ CanRLockS => graphs = agraphs
NoPartialBatch == \A p \in Procs : pc[p] \in {"r.send", "r.close", "la.check", "la.set", "la.read1", "la.read2"} => snapC[p] = snapA[p]
NoDeadlock == AllDone \/ ENABLED CNext
NoPanic == \A p \in Procs : res[p] # {0 - 2}
LocksFree == AllDone => (gr = {} /\ gww = {} /\ grq = {} /\ ggrant = {} /\ sr = {} /\ sww = {})
OptionsKept == users = {} => cell = "nil"
OptionsUntouched == ~touched

CView == <<graphs, content, agraphs, acontent, prog, ip, pc, gr, gww, grq, ggrant, sr, sww, cell, users, snapC, snapA, c1, res,
           closes, bi, okv, touched>>
=============================================================================
