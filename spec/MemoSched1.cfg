SPECIFICATION MSpec
CONSTANTS
  DevKeyNoOffset = TRUE
  DevPerHandle = TRUE
  DevUnguardedFill = TRUE
  DevFillOnError = TRUE
  DevKeyNoMethod = FALSE
  NR = 1
  MaxFaults = 0
ACTION_CONSTRAINT EmitSched
CHECK_DEADLOCK FALSE
