SPECIFICATION MSpec
CONSTANTS
  DevKeyNoOffset = TRUE
  DevPerHandle = TRUE
  DevUnguardedFill = TRUE
  DevFillOnError = TRUE
  DevKeyNoMethod = FALSE
  NR = 2
  MaxFaults = 1
VIEW MView
INVARIANT Transparent
CHECK_DEADLOCK FALSE
