----------------------------- MODULE LexerTrace -----------------------------
(* Trace validation for C16: token streams recorded from the real lexer (harness/cmd/lexdrv) are     *)
(* judged by the monitor of LexerStream.tla, plus the relational facts of the property:            *)
(*   Lex   one run: well-formed stream                                                              *)
(*   One   the printed form of a value without embedded double quotes is ONE token of the expected  *)
(*         kind carrying exactly that text, followed by EOF                                         *)
(*   Pair  two inputs that differ only in the letter case of keywords / literal type names          *)
(*         (var = "case") or in the amount of white space between two tokens ("ws": n>=1 -> m>=1,   *)
(*         "ws1": none around punctuation -> one): same token kinds, same texts up to surrounding   *)
(*         white space (and letter case for "case").  A filter function and its "(" are written     *)
(*         together in both texts (the code base requires "latest (" to be rejected).               *)
(* Never blocks; prints <<"REJECT", line, "C16", class>> / <<"OPEN", ...>>.                          *)
EXTENDS LexerStream, Json, IOUtils

Trace == ndJsonDeserialize(IOEnv.TRACE_FILE)
VARIABLE l
e == Trace[l]

White == {9, 10, 11, 12, 13, 32}
\* white space beyond ASCII as the driver writes it (UTF-8 bytes of U+0085, U+00A0, U+2003, U+3000)
USpaces == {<<194, 133>>, <<194, 160>>, <<226, 128, 131>>, <<227, 128, 128>>}
StartsWith(s, u) == Len(s) >= Len(u) /\ SubSeq(s, 1, Len(u)) = u
EndsWith(s, u) == Len(s) >= Len(u) /\ SubSeq(s, Len(s) - Len(u) + 1, Len(s)) = u
RECURSIVE TrimL(_)
TrimL(s) == IF Len(s) > 0 /\ s[1] \in White THEN TrimL(Tail(s))
            ELSE IF \E u \in USpaces : StartsWith(s, u)
                 THEN LET u == CHOOSE u \in USpaces : StartsWith(s, u) IN TrimL(SubSeq(s, Len(u) + 1, Len(s)))
            ELSE s
RECURSIVE TrimR(_)
TrimR(s) == IF Len(s) > 0 /\ s[Len(s)] \in White THEN TrimR(SubSeq(s, 1, Len(s) - 1))
            ELSE IF \E u \in USpaces : EndsWith(s, u)
                 THEN LET u == CHOOSE u \in USpaces : EndsWith(s, u) IN TrimR(SubSeq(s, 1, Len(s) - Len(u)))
            ELSE s
Trim(s) == TrimR(TrimL(s))
Lower(s) == [i \in 1..Len(s) |-> IF s[i] >= 65 /\ s[i] <= 90 THEN s[i] + 32 ELSE s[i]]
Quotes(s) == Cardinality({i \in 1..Len(s) : s[i] = 34})

SameText(a, b, fold) == IF fold THEN Lower(Trim(a)) = Lower(Trim(b)) ELSE Trim(a) = Trim(b)
SameKinds(ta, tb, fold) == /\ Len(ta) = Len(tb)
                           /\ \A i \in 1..Len(ta) : ta[i].k = tb[i].k /\ SameText(ta[i].t, tb[i].t, fold)

LexVerdict == WellFormed(e)

OneVerdict == LET w == WellFormed(e) IN
              IF w # "ok" THEN w
              ELSE IF Quotes(e.in) # e.quotes THEN "open:embedded-double-quote"
              ELSE IF /\ Len(e.toks) = 2 /\ e.toks[1].k = e.kind /\ e.toks[1].t = e.in /\ e.toks[2].k = "EOF"
                   THEN "ok" ELSE "printed-value-not-one-token"

PairVerdict == LET wa == WellFormed(e.a)
                   wb == WellFormed(e.b) IN
               IF wa # "ok" THEN wa
               ELSE IF wb # "ok" THEN wb
               ELSE IF e.a.toks[Len(e.a.toks)].k = "ERROR" /\ e.b.toks[Len(e.b.toks)].k = "ERROR" THEN "open:both-end-in-error"
               ELSE IF SameKinds(e.a.toks, e.b.toks, e.var = "case") THEN "ok"
               ELSE IF e.var = "case" THEN "letter-case-changes-tokens"
               ELSE IF e.var = "ws" \/ e.var = "wsu" THEN "amount-of-white-space-changes-tokens"
               ELSE "inserted-white-space-changes-tokens"

Verdict == CASE e.ev = "Lex" -> LexVerdict [] e.ev = "One" -> OneVerdict [] e.ev = "Pair" -> PairVerdict

TraceInit == l = 1 /\ input = <<>> /\ pos = 0 /\ ended = FALSE /\ closed = FALSE
TraceNext == /\ l <= Len(Trace)
             /\ LET v == Verdict IN
                   \/ v = "ok"
                   \/ v # "ok" /\ SubSeq(v, 1, 5) = "open:" /\ PrintT(<<"OPEN", l, "C16", v>>)
                   \/ v # "ok" /\ SubSeq(v, 1, 5) # "open:" /\ PrintT(<<"REJECT", l, "C16", v>>)
             /\ l' = l + 1
             /\ UNCHANGED lvars
TraceSpec == TraceInit /\ [][TraceNext]_<<l, lvars>>
Consumed == TLCGet("stats").diameter = Len(Trace) + 1
=============================================================================
