SPECIFICATION PlanSpec
CONSTANTS
  DevShowWrongErrVar = TRUE
  DevConstructDropsWriteError = FALSE
  DevConstructLeavesWriter = FALSE
  DevUpdateReturnsTable = TRUE
  DevMemoNoDrainOnCancel = FALSE
  DriverCloses = TRUE
  Plans = {}
  ChanSizes = {}
CHECK_DEADLOCK FALSE
