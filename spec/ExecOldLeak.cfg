SPECIFICATION Spec
CONSTANTS
  DevShowWrongErrVar = FALSE
  DevConstructDropsWriteError = FALSE
  DevConstructLeavesWriter = TRUE
  DevUpdateReturnsTable = TRUE
  DevMemoNoDrainOnCancel = FALSE
  DriverCloses = TRUE
  Plans = {"fetch3", "fetch2", "fanout", "update", "createdrop", "construct", "show", "memo"}
  ChanSizes = {0, 1, 2}
PROPERTIES NoGoroutineLeft
CHECK_DEADLOCK FALSE
