----------------------------- MODULE QueryTrace -----------------------------
(* Trace validation of query executions recorded from the real engine (harness/cmd/bqldrv) against  *)
(* Layer A (BQLSemantics.tla).  Events (all fields always present):                                 *)
(*  Q  one SELECT of the conjunctive/OPTIONAL fragment: rows must be the solutions (C03, C10)       *)
(*  G  grouped query vs the recorded ungrouped rows of the same pattern (C11)                       *)
(*  O  ordered / limited query vs the recorded plain rows (C12)                                     *)
(*  H  HAVING query vs the recorded rows without HAVING (C13)                                       *)
(*  M  metamorphic variant vs base result (C14): rel in {"eq" bag equality, "sub" base is a         *)
(*     sub-bag of variant, "seq" identical sequence}                                                *)
(*  E  a statement that must be rejected with an error (C12: invalid LIMIT)                         *)
(* Every event is independent: a rejected event prints <<"REJECT", line, property, class>>.         *)
EXTENDS BQLSemantics, Json, IOUtils

Trace == ndJsonDeserialize(IOEnv.TRACE_FILE)
VARIABLE l
e == Trace[l]

QVerdict ==
    IF OpenQuery(e) THEN
         \* chained OPTIONAL clauses: the rows themselves are open, that none is removed is not (C10)
         (IF ~OptChainJudgeable(e) \/ e.err THEN "open"
          ELSE IF ~Assert(ModelKeepsLeft(e), <<"Layer A does not keep the left rows of a chained OPTIONAL query", l>>) THEN "open"
          ELSE IF LeftKeptDev(e.rows, e, {}) THEN (IF PrintT(<<"CHAIN", l>>) THEN "open" ELSE "open")   \* counted by lib/fam_bql.py
          ELSE IF \E dv \in Deviations : LeftKeptDev(e.rows, e, {dv}) THEN CHOOSE dv \in Deviations : LeftKeptDev(e.rows, e, {dv})
          ELSE "optional-removes-row")
    ELSE IF e.err THEN "error-instead-of-rows"
    ELSE IF RowsOK(e.rows, e) THEN "ok"
    ELSE IF \E dv \in Deviations : RowsOKDev(e.rows, e, {dv})
         THEN CHOOSE dv \in Deviations : RowsOKDev(e.rows, e, {dv})
    ELSE IF RowsOKDev(e.rows, e, Deviations) THEN "oid-alias-unchecked+rows-without-bindings-dropped"
    ELSE LET S == Solutions(e)
             exp == {ProjRow(x.a, e.proj) : x \in S}
         IN  IF ~(Range(e.rows) \subseteq exp) THEN "row-not-a-solution"
             ELSE IF \E r \in exp : Count(e.rows, r) = 0 THEN "solution-missing"
             ELSE "multiplicity"

GVerdict ==
    IF e.baseerr THEN "open"
    ELSE IF ~SumJudgeable(e.base, Range(e.keys), e.spec) THEN "open"
    ELSE IF e.err THEN "error-instead-of-rows"
    ELSE IF GroupOK(e.rows, e.base, Range(e.keys), e.spec) THEN "ok"
    ELSE IF Len(e.rows) # Cardinality(GroupsOf(e.base, Range(e.keys))) THEN "group-count"
    ELSE "aggregate-value"

OVerdict ==
    IF e.baseerr THEN "open"
    ELSE IF e.err THEN "error-instead-of-rows"
    ELSE IF Len(e.order) > 0 /\ ~Judgeable(e.base, e.order) THEN "open"
    ELSE IF e.limit < 0 THEN    \* ORDER BY only: a sorted permutation of the plain result
         IF ~Permutation(e.rows, e.base) THEN "order-changes-rows"
         ELSE IF ~Sorted(e.rows, e.order) THEN "not-sorted"
         ELSE IF TotalOrder(e.base, e.order) /\ e.rows # e.rep THEN "not-deterministic"
         ELSE "ok"
    ELSE IF Len(e.order) = 0 THEN (IF AnyN(e.rows, e.limit, e.base) THEN "ok" ELSE "limit-rows")
    ELSE IF TopN(e.rows, e.limit, e.base, e.order) THEN "ok"
    ELSE IF Len(e.rows) # Min(e.limit, Len(e.base)) THEN "limit-count"
    ELSE IF ~SubBag(e.rows, e.base) THEN "limit-rows"
    ELSE "limit-not-first-rows"

HVerdict ==
    IF e.baseerr THEN "open"
    ELSE IF HavingOpen(e.e, e.base) THEN "open"
    ELSE IF e.err THEN (IF HavingSameKinds(e.e, e.base) THEN "error-instead-of-rows" ELSE "open")
    ELSE IF Permutation(e.rows, FilterSeq(e.base, e.e)) THEN "ok"
    ELSE IF Permutation(e.rows, FilterSeqDev(e.base, e.e)) THEN "numbers-compared-as-padded-text"
    ELSE "having-rows"

MVerdict ==
    IF e.baseerr /\ e.err THEN "ok"
    ELSE IF e.baseerr # e.err THEN "variant-error-differs"
    ELSE CASE e.rel = "eq"  -> IF Permutation(e.rows, e.base) THEN "ok" ELSE "variant-rows-differ"
           [] e.rel = "sub" -> IF SubBag(e.base, e.rows) THEN "ok" ELSE "not-monotone"
           [] e.rel = "seq" -> IF e.rows = e.base THEN "ok" ELSE "sequence-differs"

EVerdict == IF e.err THEN "ok" ELSE "accepted-instead-of-error"

Verdict == CASE e.ev = "Q" -> QVerdict [] e.ev = "G" -> GVerdict [] e.ev = "O" -> OVerdict
             [] e.ev = "H" -> HVerdict [] e.ev = "M" -> MVerdict [] e.ev = "E" -> EVerdict

Init == l = 1
Next == /\ l <= Len(Trace)
        /\ LET v == Verdict IN
              \/ v = "ok"
              \/ v # "ok" /\ PrintT(<<IF v = "open" THEN "OPEN" ELSE "REJECT", l, e.prop, v>>)
        /\ l' = l + 1
Spec == Init /\ [][Next]_l
Consumed == TLCGet("stats").diameter = Len(Trace) + 1
=============================================================================
