----------------------------- MODULE FaultTrace -----------------------------
(* C20 - Layer A monitor over what Executor.Execute REALLY did under an injected driver failure          *)
(* (ndjson written by harness/cmd/faultdrv: Start, Call*, Return | Panic | Timeout, After per fault plan).  *)
(*                                                                                                        *)
(*   if any driver call made for the statement failed, Execute returns a non-nil error;                   *)
(*   Execute never returns (nil, nil), never panics, returns within the watchdog;                         *)
(*   afterwards no goroutine started for it remains (settled count, stacks inside badwolf/).              *)
(* A table returned TOGETHER with the error (INSERT/DELETE hand back their empty table) is not forbidden  *)
(* by the property: counted as OPEN, never rejected.                                                      *)
(* The monitor never blocks: a rejected event prints <<"REJECT", l, "C20", class>>.  The class names the   *)
(* Layer B deviation of ExecPipeline.tla that predicts exactly the observed outcome, else "unexplained".   *)
EXTENDS Integers, Sequences, TLC, Json, IOUtils

Trace == ndJsonDeserialize(IOEnv.TRACE_FILE)

VARIABLES l,
          phase,     \* "idle" | "running" | "returned" | "hung"
          failed,    \* a driver call of the current run failed
          fmeth      \* method of the failed call
tvars == <<l, phase, failed, fmeth>>

e == Trace[l]

\* ExecPipeline.DevShowWrongErrVar: showPlan returns its outer (nil) err when GraphNames failed => (nil, nil)
LostClass == IF e.ptype = "SHOW" /\ fmeth = "GraphNames" /\ ~e.tbl THEN "show-graphnames-error-dropped"
             ELSE "unexplained"

\* ExecPipeline.DevMemoNoDrainOnCancel: a memoized lookup that sees its context cancelled (a sibling of the
\* fan-out failed) returns without draining the forwarded read, whose goroutine stays blocked on its send
LeakClass == IF e.cfg = "memo" /\ \A i \in DOMAIN e.wpkg : e.wpkg[i] = "storage/memoization" /\ e.wst[i] = "chan send"
             THEN "memoizer-abandons-forwarded-read-on-cancel"
             ELSE "unexplained"

Step ==
    CASE e.ev = "Start" -> phase' = "running" /\ failed' = FALSE /\ fmeth' = ""
      [] e.ev = "Call" -> /\ failed' = (failed \/ e.fail)
                          /\ fmeth' = IF e.fail THEN e.meth ELSE fmeth
                          /\ UNCHANGED phase
      [] e.ev = "Return" ->
            /\ IF failed /\ ~e.err THEN PrintT(<<"REJECT", l, "C20", LostClass>>)
               ELSE IF ~e.err /\ ~e.tbl THEN PrintT(<<"REJECT", l, "C20", "neither-table-nor-error">>)
               ELSE IF failed /\ e.tbl THEN PrintT(<<"OPEN", l, "C20", "table-with-error">>)
               ELSE TRUE
            /\ phase' = "returned" /\ UNCHANGED <<failed, fmeth>>
      [] e.ev = "Panic" -> PrintT(<<"REJECT", l, "C20", "panic">>) /\ phase' = "returned" /\ UNCHANGED <<failed, fmeth>>
      [] e.ev = "Timeout" -> PrintT(<<"REJECT", l, "C20", "timeout">>) /\ phase' = "hung" /\ UNCHANGED <<failed, fmeth>>
      [] e.ev = "After" ->
            /\ IF e.leaked > 0 THEN PrintT(<<"REJECT", l, "C20", LeakClass>>) ELSE TRUE
            /\ phase' = "idle" /\ UNCHANGED <<failed, fmeth>>

TraceInit == l = 1 /\ phase = "idle" /\ failed = FALSE /\ fmeth = ""
TraceNext == l <= Len(Trace) /\ Step /\ l' = l + 1
TraceSpec == TraceInit /\ [][TraceNext]_tvars

TView == l
Consumed == TLCGet("stats").diameter = Len(Trace) + 1
=============================================================================
