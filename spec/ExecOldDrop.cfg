SPECIFICATION Spec
CONSTANTS
  DevShowWrongErrVar = FALSE
  DevConstructDropsWriteError = TRUE
  DevConstructLeavesWriter = FALSE
  DevUpdateReturnsTable = TRUE
  DevMemoNoDrainOnCancel = FALSE
  DriverCloses = TRUE
  Plans = {"fetch3", "fetch2", "fanout", "update", "createdrop", "construct", "show", "memo"}
  ChanSizes = {0, 1, 2}
INVARIANTS FailureSurfaces
CHECK_DEADLOCK FALSE
