-------------------------------- MODULE Memo --------------------------------
(* C19 - the memoizing store (storage/memoization) must be observationally the store it wraps.       *)
(*                                                                                                  *)
(* Layer A (the only oracle): Transparent - every read through any handle returns what the wrapped  *)
(* graph returns for the same arguments and options at some instant between the read's invocation   *)
(* and its return, and never an answer older than the last write that had RETURNED before the read  *)
(* was invoked.  The wrapped graph is the sequential store of Store.tla / Lookups.tla.               *)
(*                                                                                                  *)
(* Layer B (implementation shaped, storage/memoization/memoization.go).  A read is                  *)
(*     CheckCache ; ( Replay | Forward ; Fill )                                                     *)
(* with the graph's mutex RELEASED between the three steps; a write is  Clear ; ForwardWrite ;      *)
(* Return; lookups only ever hit on non-empty cached results (`if v != nil`), Exist caches both     *)
(* answers.  The CURRENT code (all switches FALSE; /repo commits 090f7b2 8547f41 f075fea 1f60917):  *)
(* the key is (method name, LookupOptions incl. Offset, argument UUIDs); all handles of one graph   *)
(* share one cache; the writer keeps the mutex from Clear to the end of ForwardWrite and a Fill is  *)
(* dropped when a Clear happened since CheckCache (generation counter); Fill only after a           *)
(* successful forwarded read.  Each named deviation is a switch: TLC yields one minimal             *)
(* counterexample per deviation (the first four are the code as first read - each was confirmed on  *)
(* the real memoizer and repaired; the fifth is a seeded change, seeded/C19-1) and shows that the   *)
(* design with all switches off is transparent:                                                     *)
(*   DevKeyNoOffset    key without Offset                       => class offset-not-in-cache-key    *)
(*   DevPerHandle      caches per handle, write clears only its own  => write-through-other-handle  *)
(*   DevUnguardedFill  Fill is not ordered against Clear/ForwardWrite => fill-after-clear           *)
(*   DevFillOnError    a failed forwarded read fills the cache  => failed-read-cached               *)
(*   DevKeyNoMethod    two methods share one key when their argument UUIDs coincide (a node and the *)
(*                     object boxing it)                        => method-not-in-cache-key          *)
(*                                                                                                  *)
(* The same module enumerates ALL schedules of one writer and NR readers (cfg MemoSched*.cfg): the   *)
(* variable `sched` makes every path a state, a finished path is printed as one JSON line and the   *)
(* Go driver (harness/cmd/memodrv) forces it on the real memoizer with the verifYield hook.         *)
(* Grain: reader CheckCache(+invoke) | Forward | Fill(+return); writer Clear(+invoke) | ForwardWrite *)
(* | Return.  A reader's return is not a step of its own: returning later only widens the window of *)
(* acceptable answers, so it cannot expose anything the immediate return does not.                  *)
EXTENDS Store, Lookups, Json, MemoU

CONSTANTS DevKeyNoOffset, DevPerHandle, DevUnguardedFill, DevFillOnError, DevKeyNoMethod,
          NR,         \* number of readers (1 or 2)
          MaxFaults   \* how many forwarded reads may fail after delivering part of their answer

VARIABLES cache,   \* [1..2 -> set of entries [k, val]]      caches of handle A (1) and B (2)
          gen,     \* [1..2 -> Nat]  number of Clears seen by the cache (repair of DevUnguardedFill)
          lock,    \* [1..2 -> 0..1] the writer holds the mutex across Clear..ForwardWrite (repair only)
          pc,      \* [Procs -> {"start","fwd","fill","fwdw","ret","done"}]
          loc,     \* [Procs -> [val, err, g]]  forwarded answer and generation seen at CheckCache
          res,     \* [Procs -> [val, err]]     what the read returned
          inv,     \* [Procs -> index into hist at invocation]
          wret,    \* index into hist of the state produced by the last write that has returned
          winv,    \* [Procs -> wret at invocation]
          ok,      \* [Procs -> BOOLEAN]  Layer A verdict of the finished read
          hist,    \* sequence of the contents the wrapped graph went through
          faults,  \* forwarded reads failed so far
          var,     \* the variant: [c0, wop, rq, rh]
          sched    \* sequence of process ids: who moved (makes every path a state)

mvars == <<vars, cache, gen, lock, pc, loc, res, inv, wret, winv, ok, hist, faults, var, sched>>

G0 == Names[1]
Writer == 1
Readers == 2..(1 + NR)
Procs == 1..(1 + NR)
TB == 1          \* base triple: present or not in the initial content, never written
TW == 2          \* the triple the writer adds or removes

\* the object that boxes node n (universe index), 0 if the universe has none
ObjOfNode(n) == IF \E i \in DOMAIN OB : OB[i].kind = "node" /\ OB[i].ref = n
                THEN CHOOSE i \in DOMAIN OB : OB[i].kind = "node" /\ OB[i].ref = n ELSE 0

\* ---- requests: Exist(TW), TriplesForSubject with page size 1 at page 0 / page 1, and unpaged ----
Lk(max, off) == [m |-> "TriplesForSubject", c |-> "t", s |-> TS[TW].s, p |-> 0, o |-> 0, lo |-> 0, hi |-> 0,
                 fop |-> "", ff |-> "predicate", la |-> FALSE, max |-> max, off |-> off, t |-> 0]
ReqOf(n) == CASE n = "E"  -> [Lk(0, 0) EXCEPT !.m = "Exist", !.s = 0, !.t = TW]
              [] n = "L0" -> Lk(1, 0)
              [] n = "L1" -> Lk(1, 1)
              [] n = "LA" -> Lk(0, 0)
              \* the same node handed to ANOTHER method as the object boxing it (Object.UUID of a boxed node is the
              \* node's UUID): TriplesForObject(obj(s)); s is never an object in this universe, so the answer is empty
              [] n = "LO" -> [Lk(0, 0) EXCEPT !.m = "TriplesForObject", !.s = 0, !.o = ObjOfNode(TS[TW].s)]

RECURSIVE AscSeq(_)
AscSeq(S) == IF S = {} THEN <<>> ELSE LET m == CHOOSE x \in S : \A y \in S : x <= y
                                       IN  <<m>> \o AscSeq(S \ {m})

\* the wrapped graph's answer (Layer A) - the order of a listing is a fixed total order
Ans(C, q) == IF q.m = "Exist" THEN <<IF q.t \in C THEN 1 ELSE 0>>
             ELSE Page(AscSeq(Result(C, q)), q.max, q.off)

KeyOff(q) == IF DevKeyNoOffset THEN [q EXCEPT !.off = 0] ELSE q
\* without the method name a key is the options and the argument UUIDs: subject node s and object obj(s) coincide
Key(q) == IF DevKeyNoMethod /\ q.m \in {"TriplesForSubject", "TriplesForObject"}
          THEN [KeyOff(q) EXCEPT !.m = "*", !.s = IF q.m = "TriplesForObject" THEN OB[q.o].ref ELSE q.s, !.o = 0]
          ELSE KeyOff(q)
CacheOf(h) == IF DevPerHandle THEN h ELSE 1
Cacheable(q, val) == q.m = "Exist" \/ val # <<>>      \* `if v != nil`: an empty listing never hits

Q(p) == ReqOf(var.rq[p - 1])
H(p) == IF p = Writer THEN 1 ELSE var.rh[p - 1]
Cur == content[G0]

\* ---- Layer A ---------------------------------------------------------------------------------
OKRead(p, r) == \/ r.err       \* the wrapped graph itself failed: the error is the answer
                \/ \E i \in inv[p]..Len(hist) : i >= winv[p] /\ r.val = Ans(hist[i], Q(p))

Transparent == \A p \in Readers : ok[p]

\* ---- initial states: one per variant ------------------------------------------------------------
ReqNameSeqs == [1..NR -> ReqNames]
HandleSeqs == [1..NR -> 1..2]
VarNo(v) == LET rn(n) == CHOOSE i \in 1..Len(ReqOrder) : ReqOrder[i] = n
                nq == Len(ReqOrder)
                RECURSIVE Code(_)
                Code(i) == IF i > NR THEN 0 ELSE (rn(v.rq[i]) - 1) * 2 + (v.rh[i] - 1) + 2 * nq * Code(i + 1)
            IN  1 + v.c0 + 2 * (IF v.wop = "Add" THEN 0 ELSE 1) + 4 * Code(1)

Init0(v) ==
    /\ var = v
    /\ graphs = {G0}
    /\ content = [n \in NameSet |-> IF n = G0 THEN (IF v.c0 = 1 THEN {TB} ELSE {}) \cup (IF v.wop = "Remove" THEN {TW} ELSE {})
                                    ELSE {}]
    /\ last = [op |-> "Init", g |-> "", b |-> <<>>, ok |-> TRUE]
    /\ cache = [h \in 1..2 |-> {}]
    /\ gen = [h \in 1..2 |-> 0]
    /\ lock = [h \in 1..2 |-> 0]
    /\ pc = [p \in Procs |-> "start"]
    /\ loc = [p \in Procs |-> [val |-> <<>>, err |-> FALSE, g |-> 0]]
    /\ res = [p \in Procs |-> [val |-> <<>>, err |-> FALSE]]
    /\ inv = [p \in Procs |-> 1]
    /\ winv = [p \in Procs |-> 1]
    /\ wret = 1
    /\ ok = [p \in Procs |-> TRUE]
    /\ hist = <<content[G0]>>
    /\ faults = 0
    /\ sched = <<>>

MInit == \E c0 \in 0..1, wop \in {"Add", "Remove"}, rq \in ReqNameSeqs, rh \in HandleSeqs :
            LET v == [c0 |-> c0, wop |-> wop, rq |-> rq, rh |-> rh] IN
            /\ (PickAll \/ VarNo(v) \in PickSet)
            /\ Init0(v)

\* ---- reader ---------------------------------------------------------------------------------------
Finish(p, r) == /\ res' = [res EXCEPT ![p] = r]
                /\ ok' = [ok EXCEPT ![p] = OKRead(p, r)]
                /\ pc' = [pc EXCEPT ![p] = "done"]

\* CheckCache (this is also the invocation); on a hit the answer is replayed and the read returns
RCheck(p) ==
    /\ pc[p] = "start" /\ lock[CacheOf(H(p))] = 0
    /\ LET ch == CacheOf(H(p))
           hit == {e \in cache[ch] : e.k = Key(Q(p))}
       IN  IF hit # {}
           THEN /\ inv' = [inv EXCEPT ![p] = Len(hist)] /\ winv' = [winv EXCEPT ![p] = wret]
                /\ LET r == [val |-> (CHOOSE e \in hit : TRUE).val, err |-> FALSE] IN
                      /\ res' = [res EXCEPT ![p] = r]
                      /\ ok' = [ok EXCEPT ![p] = r.val = Ans(Cur, Q(p))]   \* window = this instant
                      /\ pc' = [pc EXCEPT ![p] = "done"]
                /\ UNCHANGED loc
           ELSE /\ inv' = [inv EXCEPT ![p] = Len(hist)] /\ winv' = [winv EXCEPT ![p] = wret]
                /\ loc' = [loc EXCEPT ![p].g = gen[ch]]
                /\ pc' = [pc EXCEPT ![p] = "fwd"]
                /\ UNCHANGED <<res, ok>>
    /\ UNCHANGED <<vars, cache, gen, lock, wret, hist, faults>>

\* Forward: the wrapped graph answers (whole listing under its read lock), or fails after j elements
RForward(p) ==
    /\ pc[p] = "fwd"
    /\ LET a == Ans(Cur, Q(p)) IN
          \/ /\ loc' = [loc EXCEPT ![p].val = a, ![p].err = FALSE]
             /\ UNCHANGED faults
          \/ /\ faults < MaxFaults /\ Q(p).m # "Exist" /\ Len(a) >= 2
             /\ \E j \in 1..(Len(a) - 1) : loc' = [loc EXCEPT ![p].val = SubSeq(a, 1, j), ![p].err = TRUE]
             /\ faults' = faults + 1
    /\ pc' = [pc EXCEPT ![p] = "fill"]
    /\ UNCHANGED <<vars, cache, gen, lock, res, inv, wret, winv, ok, hist>>

\* Fill (and return)
RFill(p) ==
    /\ pc[p] = "fill" /\ lock[CacheOf(H(p))] = 0
    /\ LET ch == CacheOf(H(p))
           store == /\ Cacheable(Q(p), loc[p].val)
                    /\ (DevFillOnError \/ ~loc[p].err)
                    /\ (DevUnguardedFill \/ gen[ch] = loc[p].g)
                    /\ (Q(p).m = "Exist" => ~loc[p].err)
       IN  cache' = IF store
                    THEN [cache EXCEPT ![ch] = {e \in @ : e.k # Key(Q(p))} \cup {[k |-> Key(Q(p)), val |-> loc[p].val]}]
                    ELSE cache
    /\ res' = [res EXCEPT ![p] = [val |-> loc[p].val, err |-> loc[p].err]]
    /\ ok' = [ok EXCEPT ![p] = OKRead(p, [val |-> loc[p].val, err |-> loc[p].err])]
    /\ pc' = [pc EXCEPT ![p] = "done"]
    /\ UNCHANGED <<vars, gen, lock, loc, inv, wret, winv, hist, faults>>

\* ---- writer -------------------------------------------------------------------------------------
WClear ==
    /\ pc[Writer] = "start" /\ lock[CacheOf(H(Writer))] = 0
    /\ LET ch == CacheOf(H(Writer)) IN
          /\ cache' = [cache EXCEPT ![ch] = {}]
          /\ gen' = [gen EXCEPT ![ch] = @ + 1]
          /\ lock' = IF DevUnguardedFill THEN lock ELSE [lock EXCEPT ![ch] = 1]
    /\ pc' = [pc EXCEPT ![Writer] = "fwdw"]
    /\ UNCHANGED <<vars, loc, res, inv, wret, winv, ok, hist, faults>>

WForward ==
    /\ pc[Writer] = "fwdw"
    /\ LET r == IF var.wop = "Add" THEN DoAdd(graphs, content, G0, <<TW>>) ELSE DoRemove(graphs, content, G0, <<TW>>) IN
          /\ content' = r.C
          /\ hist' = Append(hist, r.C[G0])
    /\ lock' = [h \in 1..2 |-> 0]
    /\ pc' = [pc EXCEPT ![Writer] = "ret"]
    /\ UNCHANGED <<graphs, last, cache, gen, loc, res, inv, wret, winv, ok, faults>>

WReturn ==
    /\ pc[Writer] = "ret"
    /\ wret' = Len(hist)
    /\ pc' = [pc EXCEPT ![Writer] = "done"]
    /\ UNCHANGED <<vars, cache, gen, lock, loc, res, inv, winv, ok, hist, faults>>

Step(p) == IF p = Writer THEN WClear \/ WForward \/ WReturn
           ELSE RCheck(p) \/ RForward(p) \/ RFill(p)

MNext == \E p \in Procs : Step(p) /\ sched' = Append(sched, p) /\ UNCHANGED var

MSpec == MInit /\ [][MNext]_mvars

Terminal == \A p \in Procs : pc[p] = "done"

MView == <<graphs, content, cache, gen, lock, pc, loc, res, inv, wret, winv, ok, hist, faults, var>>

\* every schedule ends (no step waits for ever): the only blocking is on the writer's mutex
NoStuck == Terminal \/ ENABLED MNext

\* one JSON line per finished schedule; `pred` = does Layer B predict a Transparent violation here
EmitSched == Terminal' =>
    PrintT(ToJson([c0 |-> var.c0, wop |-> var.wop, rq |-> var.rq, rh |-> var.rh, sched |-> sched',
                   pred |-> \E p \in Readers : ~ok'[p]]))
=============================================================================
