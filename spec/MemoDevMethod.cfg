SPECIFICATION MSpec
CONSTANTS
  DevKeyNoOffset = FALSE
  DevPerHandle = FALSE
  DevUnguardedFill = FALSE
  DevFillOnError = FALSE
  DevKeyNoMethod = TRUE
  NR = 2
  MaxFaults = 0
VIEW MView
INVARIANT Transparent
CHECK_DEADLOCK FALSE
