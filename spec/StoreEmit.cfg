SPECIFICATION Spec
VIEW View
INVARIANT TypeOK
ACTION_CONSTRAINT Emit
CHECK_DEADLOCK FALSE
