SPECIFICATION CSpec
CONSTANTS
  NP = 1
  MaxOps = 1
  Alphabet = {"LA"}
  DevSharedOptionsCell = TRUE
  DevAddPerTriple = FALSE
VIEW CView
INVARIANTS OptionsUntouched
CHECK_DEADLOCK FALSE
