SPECIFICATION Spec
VIEW View
INVARIANT TypeOK
PROPERTIES Isolation FailNoEffect AddRemoveExact RecreateEmpty
CHECK_DEADLOCK FALSE
