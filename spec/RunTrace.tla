------------------------------ MODULE RunTrace ------------------------------
(* Layer A monitor for C08: every Run(text, store) on the real engine (harness/cmd/rundrv: lexer ->  *)
(* parser with semantic hooks -> planner -> executor, as tools/vcli/bw/run.BQL does it) ends in      *)
(* exactly one of Table / Error; never in a Panic (recovered in the calling goroutine) nor a Timeout *)
(* (watchdog 10 s on inputs that take well under a millisecond), never kills the process (event      *)
(* Crash: panic in a goroutine the engine started, log.Fatalf, out of memory - observed as the exit  *)
(* of the child process), and once the call has returned the goroutines with engine frames are the   *)
(* ones that existed before (g_after = g_before, counted after the goroutines have settled).         *)
(*                                                                                                  *)
(* Layer B (model-checked on its own in spec/LexPipe.tla), reduced to what decides the one leak the  *)
(* pipeline lexer || channel || parser allows: the                                                   *)
(* lexer goroutine sends ntok tokens into a channel of capacity Cap; the parser holds LookAhead      *)
(* tokens plus one per token it consumed and may return early.  The sender terminates iff what is    *)
(* left fits the buffer.  LL1!Run bounds what the parser can have consumed.                          *)
EXTENDS LL1, IOUtils

Trace == ndJsonDeserialize(IOEnv.TRACE_FILE)
VARIABLE l
e == Trace[l]

Outcomes == {"Table", "Error"}
Cap == 2          \* lexer.New(input, 2*k) with k = 1
LookAhead == 2    \* LLk reads k+1 tokens ahead

Seen(ev) == IF ev.end = "ERROR" THEN Append(ev.kinds, "ERROR") ELSE ev.kinds
\* the lexer can only be left blocked if it has more to send than look-ahead + buffer take
LexerMayBlock(ev) == ev.ntok > LookAhead + Cap
\* ... and it must be, when even a parser that consumed all the grammar allows leaves more than that
LexerMustBlock(ev) == ev.ntok > Run(Seen(ev)).n + LookAhead + Cap

\* every way in which the run contradicts the property (a panicking run may also leave a goroutine)
Verdicts ==
    (IF e.ev = "Crash" THEN {"process-killed"}
     ELSE IF e.outcome = "Panic" THEN {"panic"}
     ELSE IF e.outcome = "Timeout" THEN {"no-return-within-watchdog"}
     ELSE IF e.outcome \notin Outcomes THEN {"neither-table-nor-error"}
     ELSE {})
    \cup
    (IF e.ev = "Run" /\ e.outcome # "Timeout" /\ e.g_after # e.g_before
     THEN (IF e.lex_only /\ LexerMayBlock(e) THEN {"lexer-goroutine-after-early-return"} ELSE {"goroutine-left-behind"})
     ELSE {})

TraceInit == l = 1
TraceNext == /\ l <= Len(Trace)
             /\ \A v \in Verdicts : PrintT(<<"REJECT", l, "C08", v>>)
             /\ (e.ev = "Run" /\ e.outcome \in Outcomes /\ e.g_after = e.g_before /\ e.stage = "parse" /\ LexerMustBlock(e))
                   => PrintT(<<"DRIFT", l, "C08", "layer-B-predicts-blocked-lexer-none-observed">>)
             /\ l' = l + 1
TraceSpec == TraceInit /\ [][TraceNext]_l
Consumed == TLCGet("stats").diameter = Len(Trace) + 1
=============================================================================
