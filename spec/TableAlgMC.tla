---------------------------- MODULE TableAlgMC ----------------------------
(* Small-scope model check of the lemmas the query properties rest on, for the operators of TableAlg.tla:  *)
(* every pair of tables with at most two rows over three cells, the left one over {a} or {a, b}, the right  *)
(* one over {b}, {c} or {b, c}.  One initial state per pair; the lemmas are state invariants.               *)
EXTENDS TableAlg

Cells == {[k |-> "I", v |-> 2], [k |-> "I", v |-> 7], Null}
RowsOver(bs) == [bs -> Cells]
SeqsUpTo2(S) == {<<>>} \cup {<<x>> : x \in S} \cup {<<x, y>> : x \in S, y \in S}
TablesOver(bs) == {Tbl(bs, rs) : rs \in SeqsUpTo2(RowsOver(bs))}
Left == TablesOver({"a"}) \cup TablesOver({"a", "b"})
Right == TablesOver({"b"}) \cup TablesOver({"c"}) \cup TablesOver({"b", "c"})

VARIABLES t, u
Init == t \in Left /\ u \in Right
Next == UNCHANGED <<t, u>>
Spec == Init /\ [][Next]_<<t, u>>

\* C10 at table level: a left outer join never loses a left row, keeps it once per agreeing right row and
\* exactly once, NULL-extended, when there is none
JoinKeepsLeft == \A i \in DOMAIN t.rows :
    LET E == {e \in JoinSet(t, u) : e[1] = i}
        ms == {j \in DOMAIN u.rows : Agree(t.rows[i], u.rows[j], t.bs \cap u.bs)}
    IN  /\ E # {}
        /\ \A e \in E : \A b \in t.bs : e[3][b] = t.rows[i][b]
        /\ (ms = {} => E = {<<i, 0, Extend(t.rows[i], t.bs \cup u.bs)>>})
        /\ (ms # {} => {e[2] : e \in E} = ms)
\* without shared bindings and with a non-empty right table the join is the product (as bags)
JoinIsProductWhenDisjoint ==
    (t.bs \cap u.bs = {} /\ u.rows # <<>>) => IsJoin(DotProduct(t, u).t.rows, t, u)
ProductSize == t.bs \cap u.bs = {} => Len(DotProduct(t, u).t.rows) = Len(t.rows) * Len(u.rows)
ProductFailsOnSharedBindings == t.bs \cap u.bs # {} => DotProduct(t, u).err /\ DotProduct(t, u).t = t

\* C12: Limit keeps a prefix; limits compose to the smaller one
LimitLemmas == \A n, m \in 0..3 :
    /\ Limit(Limit(t, n).t, m).t = Limit(t, Min(n, m)).t
    /\ \A i \in DOMAIN Limit(t, n).t.rows : Limit(t, n).t.rows[i] = t.rows[i]
\* C13: Filter removes exactly the rows that satisfy the predicate, is idempotent, and counts what it removed
FilterLemmas == \A b \in t.bs : \A c \in Cells :
    LET f == Filter(t, b, c).t IN
    /\ Filter(f, b, c).t = f
    /\ \A r \in Range(f.rows) : r[b] # c
    /\ Removed(t, b, c) = Count([i \in DOMAIN t.rows |-> t.rows[i][b]], c)
\* C11: the groups partition the rows: counts add up, one result row per group for any result IsReduce accepts
GroupsPartition == \A keys \in {<<"a">>} :
    LET G == Groups(t, keys) IN
    /\ \A i \in DOMAIN t.rows : \E g \in G : i \in Members(t, keys, g)
    /\ \A g1, g2 \in G : g1 # g2 => Members(t, keys, g1) \cap Members(t, keys, g2) = {}
\* C12: any two results IsSort accepts agree on the key sequence
SortKeyLemma == \A desc \in BOOLEAN :
    LET cfg == <<[b |-> "a", desc |-> desc]>>
        perms == {p \in SeqsUpTo2(Range(t.rows)) : IsSort(p, t, cfg)}
    IN  /\ (SortJudgeable(t, cfg) => perms # {})
        /\ \A p, q \in perms : \A i \in DOMAIN p : p[i]["a"].v = q[i]["a"].v
=============================================================================
