------------------------------- MODULE Store -------------------------------
(* Layer A - what a user of storage.Store / storage.Graph may rely on (C01).                        *)
(* A store is a map from graph names to independent SETS of triples.  Triples are abstract ids      *)
(* into the universe tables of StoreU (generated per run from universe/store.json); two triples are *)
(* the same triple iff they have the same id, i.e. subject, predicate (identifier, kind, instant)   *)
(* and object (kind and value) agree.                                                               *)
(*                                                                                                  *)
(* The Do* operators are the single source of truth: the actions below (exhaustive model) and the   *)
(* trace specification StoreTrace.tla (validation of what the real code did) both use them.         *)
EXTENDS Integers, Sequences, FiniteSets, TLC, StoreU

VARIABLES graphs,    \* set of names of the graphs that exist
          content,   \* [NameSet -> SUBSET TIds]; content[n] = {} whenever n \notin graphs
          last       \* label of the last action (history variable, hidden from the VIEW)
vars == <<graphs, content, last>>

NameSet == {Names[i] : i \in 1..Len(Names)}
TIds    == 1..NT
Range(s) == {s[i] : i \in DOMAIN s}

\* ---------------------------------------------------------------- operators (pure) ----
DoNewGraph(G, C, n) ==
    IF n \in G THEN [ok |-> FALSE, G |-> G, C |-> C]                   \* creating an existing name fails, no effect
    ELSE [ok |-> TRUE, G |-> G \cup {n}, C |-> [C EXCEPT ![n] = {}]]   \* a (re-)created graph starts empty

DoGetGraph(G, C, n) == [ok |-> n \in G, G |-> G, C |-> C]              \* getting a missing name fails, no effect

DoDeleteGraph(G, C, n) ==
    IF n \notin G THEN [ok |-> FALSE, G |-> G, C |-> C]                \* dropping a missing name fails, no effect
    ELSE [ok |-> TRUE, G |-> G \ {n}, C |-> [C EXCEPT ![n] = {}]]

\* A batch is a SEQUENCE of triple ids: duplicates, overlaps with the content and the empty batch
\* are all legal; re-adding a stored triple / removing an absent one succeeds without effect.
DoAdd(G, C, n, b)    == [ok |-> TRUE, G |-> G, C |-> [C EXCEPT ![n] = @ \cup Range(b)]]
DoRemove(G, C, n, b) == [ok |-> TRUE, G |-> G, C |-> [C EXCEPT ![n] = @ \ Range(b)]]

\* ---------------------------------------------------------------- exhaustive model ----
Batches == {<<>>} \cup {<<a>> : a \in TIds} \cup {<<a, b>> : a \in TIds, b \in TIds}

Init == /\ graphs = {}
        /\ content = [n \in NameSet |-> {}]
        /\ last = [op |-> "Init", g |-> "", b |-> <<>>, ok |-> TRUE]

Apply(r, op, n, b) == /\ graphs' = r.G
                      /\ content' = r.C
                      /\ last' = [op |-> op, g |-> n, b |-> b, ok |-> r.ok]

NewGraph(n)    == Apply(DoNewGraph(graphs, content, n), "NewGraph", n, <<>>)
GetGraph(n)    == Apply(DoGetGraph(graphs, content, n), "Graph", n, <<>>)
DeleteGraph(n) == Apply(DoDeleteGraph(graphs, content, n), "DeleteGraph", n, <<>>)
\* graph operations go through a handle freshly obtained with Store.Graph, so they need n \in graphs
Add(n, b)      == n \in graphs /\ Apply(DoAdd(graphs, content, n, b), "Add", n, b)
Remove(n, b)   == n \in graphs /\ Apply(DoRemove(graphs, content, n, b), "Remove", n, b)

Next == \E n \in NameSet :
           \/ NewGraph(n) \/ GetGraph(n) \/ DeleteGraph(n)
           \/ \E b \in Batches : Add(n, b) \/ Remove(n, b)

Spec == Init /\ [][Next]_vars

View == <<graphs, content>>

\* ---------------------------------------------------------------- properties ----
TypeOK == /\ graphs \subseteq NameSet
          /\ content \in [NameSet -> SUBSET TIds]
          /\ \A n \in NameSet \ graphs : content[n] = {}

\* what happens to one graph never affects another one
Isolation == [][\A m \in NameSet : (m # last'.g) => (content'[m] = content[m] /\ (m \in graphs') = (m \in graphs))]_vars

\* failing operations have no effect
FailNoEffect == [][(~last'.ok) => (graphs' = graphs /\ content' = content)]_vars

\* re-adding stored triples / removing absent ones has no effect; after Add all of the batch is in,
\* after Remove none of it is, and nothing else changes
AddRemoveExact ==
    [][/\ (last'.op = "Add") => (content'[last'.g] = content[last'.g] \cup Range(last'.b))
       /\ (last'.op = "Remove") => (content'[last'.g] = content[last'.g] \ Range(last'.b))
       /\ (last'.op \in {"Add", "Remove"}) => graphs' = graphs]_vars

\* a dropped and re-created graph starts empty
RecreateEmpty == [][(last'.op = "NewGraph" /\ last'.ok) => content'[last'.g] = {}]_vars

\* ---------------------------------------------------------------- edge emission ----
\* State encoding handed to the Go tour: per name (in the order of Names) -1 if the graph does not
\* exist, otherwise the bit mask of its triples.
RECURSIVE Mask(_)
Mask(S) == IF S = {} THEN 0 ELSE LET x == CHOOSE y \in S : TRUE IN 2^(x-1) + Mask(S \ {x})
Enc(G, C) == [i \in 1..Len(Names) |-> IF Names[i] \in G THEN Mask(C[Names[i]]) ELSE 0 - 1]

Emit == PrintT(<<"EDGE", Enc(graphs, content), last'.op, last'.g, last'.b, last'.ok, Enc(graphs', content')>>)
=============================================================================
