SPECIFICATION CSpec
CONSTANTS
  NP = 2
  MaxOps = 2
  Alphabet = {"A12", "A3", "R12", "L", "LA", "E2"}
  DevSharedOptionsCell = TRUE
  DevAddPerTriple = FALSE
VIEW CView
INVARIANTS NoPartialBatch NoDeadlock LocksFree OptionsKept
CHECK_DEADLOCK FALSE
