----------------------------- MODULE LexerStream -----------------------------
(* Layer A for C16: what a consumer of lexer.New(input, capacity) may rely on.                      *)
(*                                                                                                  *)
(* A run of the lexer on one input is the sequence of events Start(input), Tok(kind, text)*, Closed. *)
(* The tokens are non-overlapping substrings of the input in left-to-right order, exactly one       *)
(* EOF/ERROR token is emitted and it is the last one, then the channel is closed and nothing        *)
(* follows.  WHICH substrings become tokens of WHICH kind is deliberately left open (a new keyword   *)
(* must not raise an alarm); only relational facts are stated on top of the stream (LexerTrace).    *)
(*                                                                                                  *)
(* Texts are sequences of bytes.  Searching the left-most occurrence at or after the position       *)
(* already covered is complete: if any assignment of offsets makes the token texts ordered and      *)
(* non-overlapping, the greedy one does.                                                            *)
EXTENDS Integers, Sequences, SequencesExt, FiniteSets, TLC

Terminal == {"EOF", "ERROR"}

\* t occurs in inp at 0-based offset p
OccursAt(inp, t, p) == /\ p + Len(t) <= Len(inp)
                       /\ \A i \in 1..Len(t) : inp[p + i] = t[i]
\* left-most offset >= p at which t occurs in inp, -1 if there is none
RECURSIVE Find(_, _, _)
Find(inp, t, p) == IF p + Len(t) > Len(inp) THEN 0 - 1
                   ELSE IF OccursAt(inp, t, p) THEN p ELSE Find(inp, t, p + 1)

\* ------------------------------------------------------------------ the monitor as a state machine
VARIABLES input,   \* the text given to lexer.New
          pos,     \* number of bytes of input covered by the tokens seen so far
          ended,   \* the EOF / ERROR token has been seen
          closed   \* the channel has been closed
lvars == <<input, pos, ended, closed>>

Start(inp) == input' = inp /\ pos' = 0 /\ ended' = FALSE /\ closed' = FALSE

\* a token is acceptable only before the terminal token and the closure, and only if its text
\* occurs at or after pos; then pos moves past it
TokEnabled(tok) == ~ended /\ ~closed /\ Find(input, tok.t, pos) >= 0
Tok(tok) == /\ TokEnabled(tok)
            /\ pos' = Find(input, tok.t, pos) + Len(tok.t)
            /\ ended' = (tok.k \in Terminal)
            /\ UNCHANGED <<input, closed>>

\* the channel is closed after the terminal token and only then
Close == ended /\ ~closed /\ closed' = TRUE /\ UNCHANGED <<input, pos, ended>>

Complete == ended /\ closed

\* ------------------------------------------------------------------ the same monitor as a fold
\* (used by LexerTrace on the token list logged for one input)
S0 == [pos |-> 0, ended |-> FALSE, why |-> "ok"]
TokStep(inp, s, tok) ==
    IF s.why # "ok" THEN s
    ELSE IF s.ended THEN [s EXCEPT !.why = "token-after-terminal-token"]
    ELSE LET q == Find(inp, tok.t, s.pos) IN
         IF q < 0 THEN [s EXCEPT !.why = "token-text-not-an-ordered-substring"]
         ELSE [pos |-> q + Len(tok.t), ended |-> tok.k \in Terminal, why |-> "ok"]

\* verdict on one logged run r = [in, toks, closed, timeout]
WellFormed(r) ==
    IF r.timeout THEN "lexer-did-not-terminate"
    ELSE LET s == FoldLeft(LAMBDA a, tok : TokStep(r.in, a, tok), S0, r.toks) IN
         IF s.why # "ok" THEN s.why
         ELSE IF ~s.ended THEN "no-terminal-token"
         ELSE IF ~r.closed THEN "channel-not-closed"
         ELSE "ok"

\* ------------------------------------------------------------------ small exhaustive model
\* (LexerStream.cfg: every behaviour of the monitor over a 2-letter alphabet; sanity of the monitor itself)
CONSTANTS Bytes, MaxLen
Texts == UNION {[1..n -> Bytes] : n \in 0..MaxLen}
Tokens == {[k |-> k, t |-> t] : k \in {"X", "EOF", "ERROR"}, t \in Texts}
MInit == \E inp \in Texts : input = inp /\ pos = 0 /\ ended = FALSE /\ closed = FALSE
MNext == (\E tok \in Tokens : Tok(tok)) \/ Close
MSpec == MInit /\ [][MNext]_lvars
PosInRange == pos >= 0 /\ pos <= Len(input)
ClosedOnlyAfterEnd == closed => ended
NothingAfterClose == [][closed => UNCHANGED lvars]_lvars
PosMonotone == [][pos' >= pos]_lvars
=============================================================================
