SPECIFICATION CSpec
CONSTANTS
  NP = 2
  MaxOps = 1
  Alphabet = {"LA", "L", "A12"}
  DevSharedOptionsCell = TRUE
  DevAddPerTriple = FALSE
VIEW CView
INVARIANTS Refines
CHECK_DEADLOCK FALSE
