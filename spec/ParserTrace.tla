----------------------------- MODULE ParserTrace -----------------------------
(* Trace validation for the grammar / parser family: what the REAL lexer + parser did (ndjson from   *)
(* harness/cmd/parsedrv) is judged against Layer A = LL1.tla on the grammar table of the same tree. *)
(*                                                                                                  *)
(*  W  (C17)  a TLC-generated sentence parsed with a private BQL() carrying ProcessStart probes:    *)
(*            accepted iff LL1!Accepts(kinds as lexed), and the probes fired exactly the non-empty  *)
(*            alternatives LL1!Run takes, in order.  Alternatives (also the empty ones) of accepted *)
(*            and matching runs are collected; at the last line every alternative that no run took  *)
(*            is printed as <<"DEAD", rule, alternative>>.                                          *)
(*  P  (C18)  plain = Accepts(kinds);  sem => Accepts(kinds)  (the semantic layer may only reject    *)
(*            more).  A wrong plain answer that the named deviation "no end-of-input check"          *)
(*            predicts exactly gets the class trailing-tokens-accepted, anything else "unexplained". *)
(*  A  (C18)  a statement parsed after a history on ONE parser has the outcome (accepted + meaning) *)
(*            it has on a fresh parser.                                                              *)
(*                                                                                                  *)
(* Never blocks: a rejected event prints <<"REJECT", line, property, class>>; the whole trace must   *)
(* be consumed (POSTCONDITION Consumed).                                                             *)
EXTENDS LL1, IOUtils

Trace == ndJsonDeserialize(IOEnv.TRACE_FILE)

VARIABLES l, covered
tvars == <<l, covered>>
e == Trace[l]

\* the token kinds the parser sees: what the lexer produced, a terminal ERROR token included (an
\* ERROR token is a token no rule mentions); the terminal EOF is the end of input
Seen(ev) == IF ev.end = "ERROR" THEN Append(ev.kinds, "ERROR") ELSE ev.kinds

FirSet(fir) == {<<fir[k].r, fir[k].i>> : k \in DOMAIN fir}

StepW == /\ e.ev = "W"
         /\ LET p == Run(Seen(e))
                acc == p.done /\ p.n >= Len(Seen(e))
                ok == (e.acc = acc) /\ (e.fir = NonEmptyFirings(p.fir))
            IN  /\ \/ ok
                   \/ ~ok /\ PrintT(<<"REJECT", l, "C17", IF e.acc # acc THEN "witness-accept-mismatch"
                                                          ELSE "witness-alternatives-mismatch">>)
                /\ covered' = IF ok /\ acc THEN covered \cup FirSet(p.fir) ELSE covered

PVerdict == LET t == Seen(e)
                a == Accepts(t)
            IN  IF e.plain # a
                THEN (IF e.plain = AcceptsPrefix(t) THEN "trailing-tokens-accepted" ELSE "unexplained-plain")
                ELSE IF e.sem /\ ~a THEN "semantic-accepts-more"
                ELSE "ok"

StepP == /\ e.ev = "P"
         /\ LET v == PVerdict IN v = "ok" \/ (v # "ok" /\ PrintT(<<"REJECT", l, "C18", v>>))
         /\ UNCHANGED covered

StepA == /\ e.ev = "A"
         /\ \/ e.open /\ PrintT(<<"OPEN", l, "C18", "fresh-meaning-not-deterministic">>)
            \/ ~e.open /\ e.reused = e.fresh
            \/ ~e.open /\ e.reused # e.fresh
                /\ PrintT(<<"REJECT", l, "C18", IF e.reused.acc # e.fresh.acc THEN "history-changes-acceptance"
                                                ELSE "history-changes-meaning">>)
         /\ UNCHANGED covered

TraceInit == l = 1 /\ covered = {}

TraceNext == /\ l <= Len(Trace)
             /\ (StepW \/ StepP \/ StepA)
             /\ l' = l + 1
             /\ (l = Len(Trace) /\ e.ev = "W") =>
                   \A ra \in RuleAlt \ covered' : PrintT(<<"DEAD", ra[1], ra[2]>>)

TraceSpec == TraceInit /\ [][TraceNext]_tvars

Consumed == TLCGet("stats").diameter = Len(Trace) + 1
=============================================================================
