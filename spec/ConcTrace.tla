------------------------------ MODULE ConcTrace ------------------------------
(* C07 - recorded concurrent histories of the REAL store (ndjson written by harness/cmd/concdrv, built with  *)
(* -race) against Layer A: the sequential store of Store.tla / Lookups.tla.                                  *)
(*                                                                                                          *)
(* A history is a sequence of `inv` and `ret` events ordered by a global atomic sequence number (an `inv` is  *)
(* stamped before the call, a `ret` after it, so real-time order is preserved).  Between an operation's inv    *)
(* and ret TLC places SILENT linearisation steps: one for AddTriples(batch) (atomic: a lookup never sees part  *)
(* of a batch), one PER TRIPLE for RemoveTriples(batch), one for a lookup / Exist / GraphNames / NewGraph /    *)
(* Graph / DeleteGraph.  A step is enabled only if the Layer A outcome equals the recorded outcome (the inv    *)
(* event carries it), a `ret` only when its operation is linearised.  A history is REJECTED iff no placement   *)
(* of the silent steps lets TLC consume all of its events - decided by exhaustive search (depth-first queue,   *)
(* -workers 1); the furthest line reached in each history is kept in a TLC register (TLCSet/TLCGet) and        *)
(* printed by the POSTCONDITION as <<"HWM", run, line>>: accepted iff line = the history's last line + 1.      *)
(* Many histories are concatenated: `Reset` (with the length of its history) starts one; `Skip` jumps over a   *)
(* history so that a rejected one does not hide the following ones (the spec never blocks).                    *)
(*                                                                                                          *)
(* Race, Panic, Timeout, DoubleClose, NeverClosed, OptionsChanged are events the driver emits from the race     *)
(* detector's report, recover(), the watchdog and its channel/option observers: Layer A has no action that     *)
(* accepts them - each prints <<"REJECT", l, "C07", class>>.                                                   *)
(*                                                                                                          *)
(* AllowSharedOptions = TRUE switches on the named Layer B deviation of ConcStore.tla (DevSharedOptionsCell):  *)
(* a LatestAnchor lookup whose options VALUE is shared with another lookup that is in flight may answer with   *)
(* the error "cannot have LatestAnchor and FilterOptions" or with the un-filtered selection.  It is used only   *)
(* to CLASSIFY histories that the strict run rejected.                                                         *)
EXTENDS Store, Lookups, Json, IOUtils

CONSTANT AllowSharedOptions

Trace == ndJsonDeserialize(IOEnv.TRACE_FILE)

VARIABLES l,        \* next line
          run,      \* id of the current history (0 between histories)
          endl,     \* line after the last event of the current history
          pend      \* per process: [st, i] - "idle" | "pend" (invoked) | "lin" (linearised); i = next triple of a Remove
tvars == <<vars, l, run, endl, pend>>

e == Trace[l]
PMax == 8
Pids == 1..PMax
G1 == Names[1]
Idle == [p \in Pids |-> [st |-> "idle", i |-> 1, at |-> 0]]
Max(a, b) == IF a > b THEN a ELSE b
FirstRun == Trace[1].run
Reg(r) == 10 + r - FirstRun
RunLines == {i \in DOMAIN Trace : Trace[i].ev = "Reset"}

\* the invocation event of the operation process p has in flight
Inv(p) == Trace[pend[p].at]

Canon == /\ graphs' = {} /\ content' = [n \in NameSet |-> {}] /\ pend' = Idle /\ run' = 0 /\ endl' = 0

\* every legitimate step advances the high-water mark of its history; finishing a history canonicalises the state
Advance == /\ l' = l + 1
           /\ TLCSet(Reg(run), Max(TLCGet(Reg(run)), l + 1))

\* ---- history boundaries -----------------------------------------------------------------------------------------
StepReset == /\ e.ev = "Reset"
             /\ graphs' = Range(e.gs) \cap NameSet
             /\ content' = [n \in NameSet |-> IF n = G1 THEN Range(e.c) \cap (1..NTall) ELSE {}]
             /\ pend' = Idle /\ run' = e.run /\ endl' = l + e.len + 1
             /\ l' = l + 1
             /\ TLCSet(Reg(e.run), Max(TLCGet(Reg(e.run)), l + 1))

Skip == /\ e.ev = "Reset"
        /\ l' = l + e.len + 1
        /\ Canon

Finished == l + 1 = endl

\* ---- invoke / return -----------------------------------------------------------------------------------------------
StepInv == /\ e.ev = "inv" /\ pend[e.p].st = "idle"
           /\ pend' = [pend EXCEPT ![e.p] = [st |-> "pend", i |-> 1, at |-> l]]
           /\ UNCHANGED <<graphs, content, run, endl>>
           /\ Advance

StepRet == /\ e.ev = "ret" /\ pend[e.p].st = "lin"
           /\ IF Finished THEN Canon
              ELSE pend' = [pend EXCEPT ![e.p] = [st |-> "idle", i |-> 1, at |-> 0]] /\ UNCHANGED <<graphs, content, run, endl>>
           /\ Advance

\* ---- silent linearisation steps (Layer A) ---------------------------------------------------------------------------
\* another lookup using the same options value is in flight right now
SharedInFlight(p) == LET o == Inv(p) IN
    /\ o.so # 0
    /\ \E p2 \in Pids \ {p} : pend[p2].st # "idle" /\ Inv(p2).op = "Lookup" /\ Inv(p2).so = o.so

Unfiltered(C, q) == Window(Sel(C, q.s, q.p, q.o), q.lo, q.hi)

LookupOK(p, o) ==
    \/ ~o.err /\ BagIs(o.res, Result(content[o.g], o.q), o.q.c)
    \/ ExpectErr(o.q) /\ o.err /\ o.res = <<>>          \* LatestAnchor together with a filter: the driver may refuse
    \/ /\ AllowSharedOptions /\ o.q.la /\ SharedInFlight(p)
       /\ \/ o.err /\ o.res = <<>>
          \/ ~o.err /\ BagIs(o.res, Unfiltered(content[o.g], o.q), o.q.c)

Lin(p) ==
    /\ pend[p].st = "pend"
    /\ LET o == Inv(p)
           done == [pend EXCEPT ![p].st = "lin"]
       IN
       CASE o.op = "Add" ->
              /\ o.ok /\ o.g \in graphs
              /\ content' = DoAdd(graphs, content, o.g, o.b).C /\ pend' = done /\ UNCHANGED graphs
         [] o.op = "Remove" ->
              /\ o.ok /\ o.g \in graphs
              /\ IF Len(o.b) = 0 THEN pend' = done /\ UNCHANGED content
                 ELSE /\ content' = DoRemove(graphs, content, o.g, <<o.b[pend[p].i]>>).C
                      /\ pend' = IF pend[p].i = Len(o.b) THEN done ELSE [pend EXCEPT ![p].i = @ + 1]
              /\ UNCHANGED graphs
         [] o.op = "Exist" ->
              /\ ~o.err /\ o.g \in graphs /\ o.ok = (o.t \in content[o.g])
              /\ pend' = done /\ UNCHANGED <<graphs, content>>
         [] o.op = "Lookup" ->
              /\ o.g \in graphs /\ LookupOK(p, o)
              /\ pend' = done /\ UNCHANGED <<graphs, content>>
         [] o.op = "NewGraph" ->
              LET r == DoNewGraph(graphs, content, o.g) IN
              /\ r.ok = o.ok /\ graphs' = r.G /\ content' = r.C /\ pend' = done
         [] o.op = "DeleteGraph" ->
              LET r == DoDeleteGraph(graphs, content, o.g) IN
              /\ r.ok = o.ok /\ graphs' = r.G /\ content' = r.C /\ pend' = done
         [] o.op = "Graph" ->
              /\ o.ok = (o.g \in graphs) /\ pend' = done /\ UNCHANGED <<graphs, content>>
         [] o.op = "GraphNames" ->
              /\ ~o.err /\ Len(o.names) = Cardinality(graphs) /\ Range(o.names) = graphs
              /\ pend' = done /\ UNCHANGED <<graphs, content>>
    /\ UNCHANGED <<l, run, endl>>

\* ---- events Layer A never accepts -----------------------------------------------------------------------------------
LookupFns == {"Objects", "Subjects", "PredicatesForSubject", "PredicatesForObject", "PredicatesForSubjectAndObject",
              "TriplesForSubject", "TriplesForPredicate", "TriplesForObject", "TriplesForSubjectAndPredicate",
              "TriplesForPredicateAndObject", "Triples"}

FilterFns == {"executeFilter", "latestFilter", "isImmutableFilter", "isTemporalFilter"}

\* ConcStore.DevSharedOptionsCell: the only memory two LOOKUPS of storage/memory both touch and one of them writes is
\* the caller's options value: a race between two statements on lo.FilterOptions, or between such a statement and a
\* filter helper reading the filter options reached through it
BadClass ==
    CASE e.ev = "Race" ->
            IF /\ e.pk1 = "storage/memory" /\ e.pk2 = "storage/memory"
               /\ e.f1 \in LookupFns \cup FilterFns /\ e.f2 \in LookupFns \cup FilterFns
               /\ e.s1 # "" /\ e.s2 # "" /\ "lo.FilterOptions" \in {e.s1, e.s2}
            THEN "shared-lookupoptions-race" ELSE "unexplained"
      [] e.ev = "OptionsChanged" -> IF e.q.la THEN "lookupoptions-modified-during-latestanchor-lookup" ELSE "unexplained"
      [] e.ev = "Panic" -> IF e.shared /\ e.f1 \in {"latestFilter", "executeFilter"} /\ e.pk1 = "storage/memory"
                           THEN "shared-lookupoptions-panic" ELSE "unexplained"
      [] OTHER -> "unexplained"

StepBad == /\ e.ev \in {"Race", "Panic", "Timeout", "DoubleClose", "NeverClosed", "OptionsChanged"}
           /\ PrintT(<<"REJECT", l, "C07", BadClass>>)
           /\ IF Finished THEN Canon ELSE UNCHANGED <<graphs, content, pend, run, endl>>
           /\ Advance

\* AddTriples(batch) is ONE step of Layer A whatever the size of the batch: a reader that keeps asking for the number
\* of triples of the batch's subject (op = "Count") or for the existence of one triple of the batch (op = "Exist")
\* while the batch is added sees the value before the step (b[1]) and then the value after it (b[2]), never anything
\* in between and never the old value after the new one; its last observation is made after AddTriples returned.
BatchOK == /\ Len(e.res) >= 1
           /\ \A i \in DOMAIN e.res : e.res[i] \in {e.b[1], e.b[2]}
           /\ \A i \in DOMAIN e.res : \A j \in DOMAIN e.res : i < j => e.res[i] <= e.res[j]
           /\ e.res[Len(e.res)] = e.b[2]

StepBatch == /\ e.ev = "BatchObs"
             /\ IF BatchOK THEN TRUE ELSE PrintT(<<"REJECT", l, "C07", "batch-partially-visible">>)
             /\ IF Finished THEN Canon ELSE UNCHANGED <<graphs, content, pend, run, endl>>
             /\ Advance

\* summary line of a stress run (operation counts): nothing to judge
StepInfo == /\ e.ev = "Info"
            /\ IF Finished THEN Canon ELSE UNCHANGED <<graphs, content, pend, run, endl>>
            /\ Advance

TraceInit == /\ l = 1 /\ run = 0 /\ endl = 0 /\ pend = Idle
             /\ graphs = {} /\ content = [n \in NameSet |-> {}]
             /\ last = [op |-> "Init", g |-> "", b |-> <<>>, ok |-> TRUE]
             /\ \A i \in RunLines : TLCSet(Reg(Trace[i].run), 0)

TraceNext == /\ l <= Len(Trace)
             /\ \/ StepReset \/ Skip \/ StepInv \/ StepRet \/ StepBad \/ StepInfo \/ StepBatch
                \/ \E p \in Pids : Lin(p)
             /\ UNCHANGED last

TraceSpec == TraceInit /\ [][TraceNext]_tvars

\* how far each history could be explained
Report == \A i \in RunLines : PrintT(<<"HWM", Trace[i].run, i, Trace[i].len, TLCGet(Reg(Trace[i].run))>>)
=============================================================================
