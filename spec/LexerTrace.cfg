SPECIFICATION TraceSpec
POSTCONDITION Consumed
CONSTANTS Bytes = {1}
 MaxLen = 1
CHECK_DEADLOCK FALSE
