SPECIFICATION CSpec
CONSTANTS
  NP = 3
  MaxOps = 1
  Alphabet = {"LA"}
  DevSharedOptionsCell = TRUE
  DevAddPerTriple = FALSE
VIEW CView
INVARIANTS NoPanic
CHECK_DEADLOCK FALSE
