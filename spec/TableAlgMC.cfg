SPECIFICATION Spec
INVARIANT JoinKeepsLeft
INVARIANT JoinIsProductWhenDisjoint
INVARIANT ProductSize
INVARIANT ProductFailsOnSharedBindings
INVARIANT LimitLemmas
INVARIANT FilterLemmas
INVARIANT GroupsPartition
INVARIANT SortKeyLemma
CHECK_DEADLOCK FALSE
