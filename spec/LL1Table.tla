------------------------------ MODULE LL1Table ------------------------------
(* One-step "model" that evaluates the table facts of LL1.tla on the generated GrammarData and     *)
(* prints every violation as <<"TABLEFAIL", fact, rule, i, j, text>> (C17).  The tables are real    *)
(* code observations: a printed violation is a property violation, not a model error.              *)
EXTENDS LL1
VARIABLE phase
TInit == phase = 0
TNext == /\ phase = 0
         /\ phase' = 1
         /\ \A v \in TableViolations : PrintT(<<"TABLEFAIL", v[1], v[2], v[3], v[4], v[5]>>)
         /\ PrintT(<<"TABLESTATS", Cardinality(Rules), Cardinality(RuleAlt), NEmptyAlts,
                     Cardinality(Reachable), Cardinality(Productive)>>)
TSpec == TInit /\ [][TNext]_phase
=============================================================================
