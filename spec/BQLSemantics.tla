---------------------------- MODULE BQLSemantics ----------------------------
(* Layer A - the meaning of the query part of BQL, as far as properties C03 and C10-C14 state it.   *)
(*                                                                                                  *)
(* Values ("cells") are flat records [k, v]:                                                        *)
(*   "N" node (v = index in NODE)          "P" predicate (v = index in PRED)                        *)
(*   "I" int64 literal (v = the number)    "F" float64 literal (v = 2^24 * the number, exact)       *)
(*   "X" text literal (v = index in STR)   "B" bool literal (v = 0/1)                               *)
(*   "S" plain string produced by ID/TYPE  (v = index in STR)                                       *)
(*   "T" time anchor (v = instant rank)    "0" NULL (v = 0)                                         *)
(* Two cells are the same value iff they are the same record: kinds never mix, instants are ranks   *)
(* (zone-free), predicates are (identifier, kind, instant).  Universe tables come from BqlU         *)
(* (generated from universe/bql.json): NODE, PRED, TRI, and rank tables for ORDER BY / HAVING.      *)
(*                                                                                                  *)
(* Semantics decisions are listed in DESIGN.md Appendix A (D = documented in docs/bql.md).          *)
EXTENDS Integers, Sequences, FiniteSets, TLC, BqlU

Null == [k |-> "0", v |-> 0]
Cell(k, v) == [k |-> k, v |-> v]
Range(s) == {s[i] : i \in DOMAIN s}

IsTmp(p) == PRED[p].tmp

\* ---------------------------------------------------------------------------------------------
\* Match(c, t, opt): the bindings clause c produces on triple t, as a sequence of <<name, cell>>
\* pairs (name "" = unused slot), or Fail when t does not match.  opt = the clause is OPTIONAL:
\* an extraction that cannot apply yields NULL instead of a non-match (D, "OPTIONAL clause").
Fail == <<<<"!", Null>>>>

InBounds(n, lo, hi) == (lo = 0 \/ n >= lo) /\ (hi = 0 \/ n <= hi)

\* subject part
SubjOK(c, t) == c.s.c = 0 \/ t.s = c.s.c
SubjPairs(c, t) == LET s == t.s IN
    << <<c.s.b, Cell("N", s)>>, <<c.s.as, Cell("N", s)>>,
       <<c.s.ty, Cell("S", NODE[s].ty)>>, <<c.s.id, Cell("S", NODE[s].id)>> >>

\* predicate part (x = c.p, p = the triple's predicate); also used for predicate-valued objects
PredPartOK(x, p, opt) ==
    /\ (x.c # 0 => p = x.c)                                   \* fully written: same id, kind, instant
    /\ (x.pid # 0 => PRED[p].id = x.pid)                      \* "id"@[?t] or "id"@[lo,hi]
    /\ (x.bd => IsTmp(p) /\ x.lo >= 0 /\ x.hi >= 0 /\ InBounds(PRED[p].n, x.lo, x.hi))  \* closed interval, temporal only
    /\ ((x.ab # "" /\ ~opt) => IsTmp(p))                      \* anchor binding needs an anchor
    /\ ((x.at # "" /\ ~opt) => IsTmp(p))                      \* AT needs an anchor
TimeOrNull(p) == IF IsTmp(p) THEN Cell("T", PRED[p].n) ELSE Null
PredPairs(x, p) ==
    << <<x.b, Cell("P", p)>>, <<x.as, Cell("P", p)>>, <<x.id, Cell("S", PRED[p].id)>>,
       <<x.at, TimeOrNull(p)>>, <<x.ab, TimeOrNull(p)>> >>

\* object part
ObjOK(c, t, opt) == LET x == c.o  o == t.o IN
    /\ (x.ck # "" => o = Cell(x.ck, x.cv))
    /\ ((x.pid # 0 \/ x.bd) => o.k = "P")                     \* a predicate pattern needs a predicate object
    /\ (o.k = "P" => PredPartOK([c |-> 0, pid |-> x.pid, bd |-> x.bd, lo |-> x.lo, hi |-> x.hi,
                                 ab |-> x.ab, at |-> x.at], o.v, opt))
    /\ ((o.k # "P" /\ ~opt) => (x.ab = "" /\ x.at = ""))      \* AT / anchor binding need a predicate object
    /\ ((x.ty # "" /\ ~opt) => o.k = "N")                     \* TYPE needs a node
    /\ ((x.id # "" /\ ~opt) => o.k \in {"N", "P"})            \* ID needs a node or a predicate
ObjPairs(c, t) == LET x == c.o  o == t.o IN
    << <<x.b, o>>, <<x.as, o>>,
       <<x.ty, IF o.k = "N" THEN Cell("S", NODE[o.v].ty) ELSE Null>>,
       <<x.id, IF o.k = "N" THEN Cell("S", NODE[o.v].id)
               ELSE IF o.k = "P" THEN Cell("S", PRED[o.v].id) ELSE Null>>,
       <<x.at, IF o.k = "P" THEN TimeOrNull(o.v) ELSE Null>>,
       <<x.ab, IF o.k = "P" THEN TimeOrNull(o.v) ELSE Null>> >>

\* global BEFORE/AFTER/BETWEEN: closed bounds on the anchor of the matched triple's predicate;
\* immutable triples are unaffected (D)
GlobalOK(t, glo, ghi) == IsTmp(t.p) => InBounds(PRED[t.p].n, glo, ghi)

AllPairs(c, t) == SubjPairs(c, t) \o PredPairs(c.p, t.p) \o ObjPairs(c, t)
Named(ps) == {i \in DOMAIN ps : ps[i][1] # ""}
OidIdx == 13     \* position of the object's ID alias in AllPairs

\* Named deviations of the implementation (Layer B).  They are never part of a verdict: a rejected
\* case is re-evaluated with ONE deviation switched on and, if the observed rows are exactly what
\* that deviation predicts, the case is attributed to it (DESIGN 8).  dv is the SET of deviations that
\* are switched on; dv = {} is Layer A.
\*  "oid-alias-unchecked":  the ID alias of a NODE object is stored without the check that a binding
\*      repeated inside the clause takes one value (it overwrites the earlier value of that name)
\*  "rows-without-bindings-dropped": the result table cannot hold a row without bindings, so a clause
\*      without any binding that is not fully specified never adds rows: see Step
Unchecked(c, t, dv, i) == "oid-alias-unchecked" \in dv /\ i = OidIdx /\ t.o.k = "N"

\* a binding repeated inside one clause must take one value
Consistent(c, t, ps, dv) == \A i, j \in Named(ps) :
    (ps[i][1] = ps[j][1] /\ ~Unchecked(c, t, dv, i) /\ ~Unchecked(c, t, dv, j)) => ps[i][2] = ps[j][2]

\* Bounds written with BINDINGS: "id"@[?lo,?hi] (either side may also be a time or empty).  The binding is an INPUT of
\* the clause: its value in the row that is being extended (a time anchor bound by an earlier clause) is the bound.
\* c.p.lb / c.p.ub = the binding names ("" = the side is written as a time, c.p.lo / c.p.hi, or is empty).
PHasBoundNames(c) == "lb" \in DOMAIN c.p /\ (c.p.lb # "" \/ c.p.ub # "")
OHasBoundNames(c) == "lb" \in DOMAIN c.o /\ (c.o.lb # "" \/ c.o.ub # "")     \* the same for a predicate in the object position
HasBoundNames(c) == PHasBoundNames(c) \/ OHasBoundNames(c)
BoundOf(a, name, const) == IF name = "" THEN const
                           ELSE IF name \in DOMAIN a /\ a[name].k = "T" THEN a[name].v ELSE 0 - 1
\* the predicate part of clause c as it reads for the row assignment a (0 - 1 = no usable value: matches nothing)
PredFor(c, a) == IF ~PHasBoundNames(c) THEN c.p
                 ELSE [c.p EXCEPT !.lo = BoundOf(a, c.p.lb, c.p.lo), !.hi = BoundOf(a, c.p.ub, c.p.hi)]
ObjFor(c, a) == IF ~OHasBoundNames(c) THEN c.o
                ELSE [c.o EXCEPT !.lo = BoundOf(a, c.o.lb, c.o.lo), !.hi = BoundOf(a, c.o.ub, c.o.hi)]
Matches(c, t, glo, ghi, dv) ==
    /\ SubjOK(c, t) /\ PredPartOK(c.p, t.p, c.opt) /\ ObjOK(c, t, c.opt)
    /\ GlobalOK(t, glo, ghi)
    /\ Consistent(c, t, AllPairs(c, t), dv)

\* the partial assignment (function binding-name -> cell) of a matching triple (under a deviation
\* the last pair with a name wins, as in the implementation's row map)
Assign(c, t) == LET ps == AllPairs(c, t)
                    names == {ps[i][1] : i \in Named(ps)}
                    last(b) == CHOOSE i \in Named(ps) : ps[i][1] = b /\ \A j \in Named(ps) : ps[j][1] = b => j <= i
                IN  [b \in names |-> ps[last(b)][2]]

\* the binding names a clause can introduce
ClauseNames(c) == {c.s.b, c.s.as, c.s.ty, c.s.id, c.p.b, c.p.as, c.p.id, c.p.at, c.p.ab,
                   c.o.b, c.o.as, c.o.ty, c.o.id, c.o.at, c.o.ab} \ {""}

Compatible(a, m) == \A b \in DOMAIN a \cap DOMAIN m : a[b] = m[b]
Merge(a, m) == [b \in DOMAIN a \cup DOMAIN m |-> IF b \in DOMAIN a THEN a[b] ELSE m[b]]

\* ---------------------------------------------------------------------------------------------
\* Solutions: fold the clauses in textual order over the data D = set of <<graph index, triple>>
\* (a triple is a record [s |-> node index, p |-> predicate index, o |-> cell]).
\* Each element is [a |-> assignment, w |-> witness sequence of data elements (<<0, NoTriple>> for
\* an unmatched OPTIONAL clause)].  A mandatory clause keeps the compatible matches; an OPTIONAL
\* clause keeps every incoming solution: once per compatible match, or exactly once with the
\* clause's new bindings NULL when there is none (left outer join, C10).
Empty == [a |-> <<>>, w |-> <<>>]    \* <<>> is the function with empty domain
NoTriple == [s |-> 0, p |-> 0, o |-> Null]

Specific(c) == c.s.c # 0 /\ c.p.c # 0 /\ c.o.ck # ""

\* ---------------------------------------------------------------------------------------------
\* FILTER clauses (docs/bql.md "FILTER clause"; the filter functions of property C09 reached through BQL).
\* fs = sequence of [op |-> "latest"|"isTemporal"|"isImmutable", b |-> binding].  A filter applies to every
\* clause that has its binding in the predicate position (binding or AS alias) or in the object position; it
\* is handed to the driver lookup of that clause: of the lookup's candidates (the triples of ONE graph whose
\* fixed components equal the constants of the clause) left by the time window, the filter keeps
\*   isTemporal / isImmutable: the triples whose predicate (or predicate-valued object) is of that kind,
\*   latest: per predicate identifier, the temporal ones with the greatest anchor (ties kept);
\* an object that is not a predicate is dropped by every filter on the object field.  The rest of the clause
\* (identifier, extractions, repeated bindings) is matched on what the lookup returned.
ClauseField(c, f) == IF f.b \in ({c.p.b, c.p.as} \ {""}) THEN "P"
                     ELSE IF f.b \in ({c.o.b, c.o.as} \ {""}) THEN "O" ELSE ""
ClauseFilters(c, fs) == {i \in DOMAIN fs : ClauseField(c, fs[i]) # ""}
ConstMatch(c, t) == /\ (c.s.c = 0 \/ t.s = c.s.c) /\ (c.p.c = 0 \/ t.p = c.p.c)
                    /\ (c.o.ck = "" \/ t.o = Cell(c.o.ck, c.o.cv))
FPred(t, fld) == IF fld = "P" THEN t.p ELSE IF t.o.k = "P" THEN t.o.v ELSE 0
KeepsF(op, fld, C, d) ==
    LET p == FPred(d[2], fld) IN
    /\ p # 0
    /\ CASE op = "isTemporal"  -> IsTmp(p)
         [] op = "isImmutable" -> ~IsTmp(p)
         [] op = "latest"      -> /\ IsTmp(p)
                                  /\ \A u \in C : LET pu == FPred(u[2], fld) IN
                                        (pu # 0 /\ IsTmp(pu) /\ PRED[pu].id = PRED[p].id) => PRED[pu].n <= PRED[p].n
FilteredData(c, fs, D, glo, ghi) ==
    IF ClauseFilters(c, fs) = {} THEN D
    ELSE LET f == fs[CHOOSE i \in ClauseFilters(c, fs) : TRUE]
             fld == ClauseField(c, f)
             cand(g) == {d \in D : d[1] = g /\ ConstMatch(c, d[2]) /\ GlobalOK(d[2], glo, ghi)}
         IN  UNION {{d \in cand(g) : KeepsF(f.op, fld, cand(g), d)} : g \in {d[1] : d \in D}}
\* What the documentation does not fix (left open, never judged): several filters meeting in one clause or one
\* binding in both filterable positions of a clause (rejected or resolved arbitrarily), a filter binding in a
\* position no filter applies to, a filtered clause that is or may become fully specified (no lookup is made) or carries its own
\* time bounds (they narrow the window of the lookup), and `latest` on a clause that shares a binding with an
\* earlier clause (the lookup is then specialised per row, so "the lookup's candidates" depend on the plan).
\* clause i is written with a constant or an already bound name in each of its three positions: while joining it
\* becomes a fully specified triple, which is looked up with an existence test that takes no filter
MaySpecify(cs, i) ==
    LET c == cs[i]  prev == UNION {ClauseNames(cs[k]) : k \in 1..(i - 1)} IN
    /\ (c.s.c # 0 \/ {c.s.b, c.s.as} \cap prev # {})
    /\ (c.p.c # 0 \/ {c.p.b, c.p.as} \cap prev # {} \/ (c.p.pid # 0 /\ c.p.ab \in prev))
    /\ (c.o.ck # "" \/ {c.o.b, c.o.as} \cap prev # {} \/ (c.o.pid # 0 /\ c.o.ab \in prev))
FilterOpen(cs, fs) ==
    \/ \E i \in DOMAIN cs : Cardinality(ClauseFilters(cs[i], fs)) > 1
    \/ \E i \in DOMAIN cs, k \in DOMAIN fs : ClauseField(cs[i], fs[k]) # "" /\ MaySpecify(cs, i)
    \/ \E i \in DOMAIN cs, k \in DOMAIN fs :
          LET c == cs[i]  b == fs[k].b IN
          \/ (b \in {c.p.b, c.p.as} /\ b \in {c.o.b, c.o.as})
          \/ b \in ({c.s.b, c.s.as, c.s.ty, c.s.id, c.p.id, c.p.at, c.p.ab, c.o.ty, c.o.id, c.o.at, c.o.ab} \ {""})
          \/ (ClauseField(c, fs[k]) # "" /\ (Specific(c) \/ c.p.bd \/ c.o.bd))
          \/ (ClauseField(c, fs[k]) # "" /\ fs[k].op = "latest" /\
                  \E j \in 1..(i - 1) : ClauseNames(cs[j]) \cap ClauseNames(c) # {})
    \/ \E k \in DOMAIN fs : \A i \in DOMAIN cs : ClauseField(cs[i], fs[k]) = ""
\* names introduced by the clauses before position i
PrevNames(cs, i) == UNION {ClauseNames(cs[k]) : k \in 1..(i - 1)}
Step(S, cs, i, D0, glo, ghi, dv, fs) ==
    LET c == cs[i]
        D == FilteredData(c, fs, D0, glo, ghi)
        cx(x) == IF HasBoundNames(c) THEN [c EXCEPT !.p = PredFor(c, x.a), !.o = ObjFor(c, x.a)] ELSE c
        ext(x) == {[a |-> Merge(x.a, Assign(c, d[2])), w |-> Append(x.w, d)] :
                      d \in {d \in D : Matches(cx(x), d[2], glo, ghi, dv) /\ Compatible(x.a, Assign(c, d[2]))}}
        nul(x) == [a |-> Merge(x.a, [b \in ClauseNames(c) |-> Null]), w |-> Append(x.w, <<0, NoTriple>>)]
    IN  IF "rows-without-bindings-dropped" \in dv /\ ClauseNames(c) = {} /\ ~Specific(c)
        \* deviation: such a clause never adds rows to the table: it is skipped while the table has no
        \* bindings yet and empties the result (product with an empty table) afterwards
        THEN (IF PrevNames(cs, i) = {} \/ c.opt THEN S ELSE {})
        ELSE UNION {IF c.opt /\ ext(x) = {}
                    \* deviation: the one solution of a binding-free prefix (the empty row) does not
                    \* exist in the table, so an unmatched OPTIONAL clause after it yields nothing
                    THEN (IF "rows-without-bindings-dropped" \in dv /\ DOMAIN x.a = {} /\ ClauseNames(c) # {} THEN {} ELSE {nul(x)})
                    ELSE ext(x) : x \in S}

RECURSIVE Fold(_, _, _, _, _, _, _, _)
Fold(S, cs, i, D, glo, ghi, dv, fs) ==
    IF i > Len(cs) THEN S ELSE Fold(Step(S, cs, i, D, glo, ghi, dv, fs), cs, i + 1, D, glo, ghi, dv, fs)
\* the FILTER clauses of a query record (absent field = none)
FiltersOf(q) == IF "filters" \in DOMAIN q THEN q.filters ELSE <<>>

\* data = set of <<graph index, triple record [s, p, o]>>; q.graphs lists universe triple indices
Data(graphs) == UNION {{<<g, TRI[graphs[g][i]]>> : i \in DOMAIN graphs[g]} : g \in DOMAIN graphs}

SolutionsOver(D, q, dv) == Fold({Empty}, q.clauses, 1, D, q.glo, q.ghi, dv, FiltersOf(q))
SolutionsDev(q, dv) == SolutionsOver(Data(q.graphs), q, dv)
Solutions(q) == SolutionsDev(q, {})

\* the row a solution projects to: proj = sequence of source binding names
ProjRow(a, proj) == [i \in DOMAIN proj |-> a[proj[i]]]

Count(seq, x) == Cardinality({i \in DOMAIN seq : seq[i] = x})

\* One row per assignment: a projected row r must occur at least once per distinct total assignment
\* projecting to it and at most once per witness tuple (the two differ only when distinct triples
\* give the same assignment - a clause with an unbound component - or when one triple is stored in
\* several FROM graphs: the multiplicity the property leaves open).
RowsOKDev(rows, q, dv) ==
    LET S == SolutionsDev(q, dv)
        exp == {ProjRow(x.a, q.proj) : x \in S}
        up(r) == Cardinality({x \in S : ProjRow(x.a, q.proj) = r})
        lo(r) == Cardinality({x.a : x \in {y \in S : ProjRow(y.a, q.proj) = r}})
    IN  /\ Range(rows) \subseteq exp                        \* no row that is not a solution
        /\ \A r \in exp : Count(rows, r) >= lo(r) /\ Count(rows, r) <= up(r)   \* none missing
RowsOK(rows, q) == RowsOKDev(rows, q, {})
Deviations == {"oid-alias-unchecked", "rows-without-bindings-dropped"}

\* Patterns whose meaning the property leaves open: an OPTIONAL clause sharing a binding that only
\* an earlier OPTIONAL clause introduced (NULL-vs-value compatibility is not defined).
\* Not judged: a bound binding that no earlier MANDATORY clause binds in a position that always holds a time (the anchor
\* binding or AT alias of a predicate) - the engine then fails the statement or ignores the bound, and nothing says which;
\* such a clause in first position or inside OPTIONAL; the name reused by the clause itself.
TimeNames(c) == {c.p.ab, c.p.at, c.o.ab, c.o.at} \ {""}
PRED_TEMPORAL_ONLY(c) == TRUE   \* a mandatory clause only matches when its AT / anchor bindings get a time (PredPartOK, ObjOK)
BoundNamesOpen(cs) == \E i \in DOMAIN cs : HasBoundNames(cs[i]) /\
    LET c == cs[i]  ns == ((IF PHasBoundNames(c) THEN {c.p.lb, c.p.ub} ELSE {}) \cup (IF OHasBoundNames(c) THEN {c.o.lb, c.o.ub} ELSE {})) \ {""}
        ok == UNION {TimeNames(cs[k]) : k \in {k \in 1..(i - 1) : ~cs[k].opt /\ PRED_TEMPORAL_ONLY(cs[k])}}
    IN  \/ c.opt \/ ~(ns \subseteq ok) \/ ns \cap ClauseNames(c) # {}
OpenQuery(q) ==
    \/ BoundNamesOpen(q.clauses)
    \/ (FiltersOf(q) # <<>> /\ FilterOpen(q.clauses, FiltersOf(q)))
    \/ \E i, j \in DOMAIN q.clauses : i < j /\ q.clauses[i].opt /\ q.clauses[j].opt /\
        \E b \in ClauseNames(q.clauses[i]) \cap ClauseNames(q.clauses[j]) :
            \A k \in 1..(i-1) : b \notin ClauseNames(q.clauses[k])

\* What C10 states for the open pattern of chained OPTIONAL clauses whatever the treatment of NULL: no row is removed.
\* j = the first OPTIONAL clause that shares a name only an earlier OPTIONAL clause introduced; when every clause from j on
\* is OPTIONAL, each solution of the clauses before j appears in the result (on the projected names it assigns), at least
\* once per distinct assignment.
OptChainAt(cs, j) == cs[j].opt /\ \E i \in 1..(j - 1) : cs[i].opt /\
    \E b \in ClauseNames(cs[i]) \cap ClauseNames(cs[j]) : \A k \in 1..(i - 1) : b \notin ClauseNames(cs[k])
OptChainJudgeable(q) ==
    /\ ~BoundNamesOpen(q.clauses) /\ FiltersOf(q) = <<>>
    /\ \E j \in DOMAIN q.clauses : OptChainAt(q.clauses, j)
    /\ LET j == CHOOSE j \in DOMAIN q.clauses : OptChainAt(q.clauses, j) /\ \A k \in 1..(j - 1) : ~OptChainAt(q.clauses, k)
       IN  \A k \in j..Len(q.clauses) : q.clauses[k].opt
LeftKeptDev(rows, q, dv) ==
    LET cs == q.clauses
        j == CHOOSE j \in DOMAIN cs : OptChainAt(cs, j) /\ \A k \in 1..(j - 1) : ~OptChainAt(cs, k)
        S == SolutionsDev([q EXCEPT !.clauses = SubSeq(cs, 1, j - 1)], dv)
        A == {x.a : x \in S}
        agrees(r, a) == \A k \in DOMAIN q.proj : q.proj[k] \in DOMAIN a => r[k] = a[q.proj[k]]
        same(a1, a2) == \A k \in DOMAIN q.proj : q.proj[k] \in DOMAIN a1 => a1[q.proj[k]] = a2[q.proj[k]]
    IN  \A a \in A : Cardinality({n \in DOMAIN rows : agrees(rows[n], a)}) >= Cardinality({a2 \in A : same(a, a2)})

\* The same fact about Layer A itself (checked by TLC for every chained query of a trace, QueryTrace!QVerdict): every
\* solution of the pattern before the chain is extended by some solution of the whole pattern - so LeftKeptDev asks of
\* the engine nothing that the oracle does not do, whichever way NULL joins.
ModelKeepsLeft(q) ==
    LET cs == q.clauses
        j == CHOOSE j \in DOMAIN cs : OptChainAt(cs, j) /\ \A k \in 1..(j - 1) : ~OptChainAt(cs, k)
        A == {x.a : x \in SolutionsDev([q EXCEPT !.clauses = SubSeq(cs, 1, j - 1)], {})}
        S == Solutions(q)
    IN  \A a \in A : \E x \in S : \A b \in DOMAIN a : x.a[b] = a[b]

\* ---------------------------------------------------------------------------------------------
\* GROUP BY (C11): rows/grouped are sequences of rows; a row is a sequence of cells.
\* spec = sequence of output columns [op |-> "key"|"count"|"countd"|"sum", i |-> input column]
\* keys = set of input columns that are grouping keys.
KeyOf(r, keys) == [i \in keys |-> r[i]]
GroupsOf(rows, keys) == {KeyOf(rows[i], keys) : i \in DOMAIN rows}
Members(rows, keys, g) == {i \in DOMAIN rows : KeyOf(rows[i], keys) = g}
RECURSIVE SumSet(_, _, _)
SumSet(rows, col, I) == IF I = {} THEN 0 ELSE LET i == CHOOSE i \in I : TRUE IN rows[i][col].v + SumSet(rows, col, I \ {i})
AggRow(rows, keys, spec, g) ==
    LET I == Members(rows, keys, g)
        any == CHOOSE i \in I : TRUE
    IN [j \in DOMAIN spec |->
          CASE spec[j].op = "key"    -> rows[any][spec[j].i]
            [] spec[j].op = "count"  -> Cell("I", Cardinality(I))
            [] spec[j].op = "countd" -> Cell("I", Cardinality({rows[i][spec[j].i] : i \in I}))
            [] spec[j].op = "sum"    -> Cell(rows[any][spec[j].i].k, SumSet(rows, spec[j].i, I))]
\* sums are judged only when every cell of the summed column is of one numeric kind
\* ... and at most three int64 cells are numbers beyond TLC's integers (BqlU.BIGINT: abstract stand-ins, ordered like
\* the numbers they stand for and additive for up to three of them, see harness/bqlu IntAbstract)
SumJudgeable(rows, keys, spec) ==
    \A j \in DOMAIN spec : spec[j].op = "sum" =>
        /\ \E k \in {"I", "F"} : \A i \in DOMAIN rows : rows[i][spec[j].i].k = k
        \* at most three stand-ins per column: q * BIGINT + r stands for q * 2^53 + r, additive up to q = 3 (32-bit integers)
        /\ Cardinality({i \in DOMAIN rows : rows[i][spec[j].i].k = "I" /\
                            (rows[i][spec[j].i].v >= BIGINT \/ rows[i][spec[j].i].v <= 0 - BIGINT)}) <= 3
GroupOK(grouped, rows, keys, spec) ==
    LET exp == {AggRow(rows, keys, spec, g) : g \in GroupsOf(rows, keys)}
    IN  /\ Len(grouped) = Cardinality(GroupsOf(rows, keys))       \* exactly one row per group
        /\ Range(grouped) = exp

\* ---------------------------------------------------------------------------------------------
\* ORDER BY / LIMIT (C12).  order = sequence of [i |-> column, desc |-> BOOL].
\* Rank of a cell within its kind: numbers numerically, times chronologically, every other value by
\* its printed form (rank tables computed in BqlU from the documented printed forms).
Rank(c) == CASE c.k \in {"I", "F", "T"} -> c.v
             [] c.k = "N" -> NODE[c.v].pr
             [] c.k = "P" -> PRED[c.v].pr
             [] c.k = "X" -> STRPR[c.v].x
             [] c.k = "S" -> STRPR[c.v].s
             [] c.k = "B" -> c.v
             [] OTHER -> 0
\* Deviation "numbers-compared-as-padded-text" for sorting (classification only)
DevSortRank(c) == IF c.k \in {"I", "F"} /\ c.v < 0 THEN 0 - 1000000 - c.v ELSE Rank(c)
\* key columns judged only when all their values are of one kind
OneKind(rows, col) == \A i, j \in DOMAIN rows : rows[i][col].k = rows[j][col].k
\* ... and no predicate that some triple stores in a second spelling of its anchor (pr = 0: its printed form is not a
\* function of the value)
Judgeable(rows, order) == \A o \in Range(order) :
    /\ OneKind(rows, o.i)
    /\ \A i \in DOMAIN rows : rows[i][o.i].k = "P" => PRED[rows[i][o.i].v].pr # 0
RECURSIVE CmpFrom(_, _, _, _)
\* -1: r1 strictly before r2, 0: tie on all keys from position k on, 1: strictly after
CmpFrom(r1, r2, order, k) ==
    IF k > Len(order) THEN 0
    ELSE LET a == Rank(r1[order[k].i])  b == Rank(r2[order[k].i]) IN
         IF a = b THEN CmpFrom(r1, r2, order, k + 1)
         ELSE IF (a < b) = (~order[k].desc) THEN 0 - 1 ELSE 1
Sorted(seq, order) == \A i \in 1..(Len(seq) - 1) : CmpFrom(seq[i], seq[i + 1], order, 1) <= 0
Permutation(s1, s2) == Len(s1) = Len(s2) /\ \A x \in Range(s1) \cup Range(s2) : Count(s1, x) = Count(s2, x)
SubBag(s1, s2) == \A x \in Range(s1) : Count(s1, x) <= Count(s2, x)
Min(a, b) == IF a < b THEN a ELSE b
\* res = the first min(n, N) rows of the ordered result: right length, sorted, a sub-bag of full,
\* and no excluded row strictly precedes an included one (ties may fall either way)
TopN(res, n, full, order) ==
    /\ Len(res) = Min(n, Len(full))
    /\ SubBag(res, full)
    /\ Sorted(res, order)
    /\ \A x \in Range(full) : Count(res, x) < Count(full, x) =>
          \A i \in DOMAIN res : CmpFrom(x, res[i], order, 1) >= 0
\* without ORDER BY: any min(n, N) of the qualifying rows
AnyN(res, n, full) == Len(res) = Min(n, Len(full)) /\ SubBag(res, full)
\* the key list determines a total order on the rows: no two different rows tie
TotalOrder(rows, order) == \A i, j \in DOMAIN rows : rows[i] # rows[j] => CmpFrom(rows[i], rows[j], order, 1) # 0

\* ---------------------------------------------------------------------------------------------
\* HAVING (C13).  Expression trees as flat node tables: e = sequence of nodes
\*   [op |-> "not"|"and"|"or"|"cmp", l, r : child indices, cop |-> "="|"<"|">",
\*    lc |-> column index (0 = constant), lk/lv |-> constant cell, rc, rk, rv]
\* root = node 1.
Operand(row, col, k, v) == IF col > 0 THEN row[col] ELSE Cell(k, v)
\* numbers numerically, times as instants, text and extracted ids/types lexicographically (a text
\* literal and a string produced by ID/TYPE are both "text" here and compare by their characters);
\* values of different kinds never compare true; = on nodes, predicates, bools is identity
HKind(c) == IF c.k \in {"X", "S"} THEN "txt" ELSE c.k
HRank(c) == IF c.k \in {"X", "S"} THEN STRPR[c.v].s ELSE c.v
Ordered(k) == k \in {"I", "F", "T", "txt"}
CmpOpen(a, b, cop) == HKind(a) = HKind(b) /\ ~Ordered(HKind(a)) /\ cop # "="     \* < > on nodes/predicates/bools: not stated
CmpHolds(a, b, cop) ==
    IF HKind(a) # HKind(b) \/ a.k = "0" THEN FALSE
    ELSE IF Ordered(HKind(a))
         THEN CASE cop = "=" -> HRank(a) = HRank(b)
                [] cop = "<" -> HRank(a) < HRank(b)
                [] cop = ">" -> HRank(a) > HRank(b)
         ELSE cop = "=" /\ a = b
\* Deviation "numbers-compared-as-padded-text" (Layer B, classification only): int64/float64 cells are
\* compared through their zero padded decimal text, which reverses the order of two negative numbers
DevRank(c) == IF c.k \in {"I", "F"} /\ c.v < 0 THEN 0 - 1000000 - c.v ELSE HRank(c)
CmpHoldsDev(a, b, cop) ==
    IF HKind(a) # HKind(b) \/ a.k = "0" THEN FALSE
    ELSE IF Ordered(HKind(a))
         THEN CASE cop = "=" -> DevRank(a) = DevRank(b)
                [] cop = "<" -> DevRank(a) < DevRank(b)
                [] cop = ">" -> DevRank(a) > DevRank(b)
         ELSE cop = "=" /\ a = b
RECURSIVE Eval(_, _, _, _)
Eval(e, n, row, dv) ==
    LET x == e[n] IN
    CASE x.op = "not" -> ~Eval(e, x.l, row, dv)
      [] x.op = "and" -> Eval(e, x.l, row, dv) /\ Eval(e, x.r, row, dv)
      [] x.op = "or"  -> Eval(e, x.l, row, dv) \/ Eval(e, x.r, row, dv)
      [] x.op = "cmp" -> IF dv THEN CmpHoldsDev(Operand(row, x.lc, x.lk, x.lv), Operand(row, x.rc, x.rk, x.rv), x.cop)
                         ELSE CmpHolds(Operand(row, x.lc, x.lk, x.lv), Operand(row, x.rc, x.rk, x.rv), x.cop)
\* some comparison of the expression is between operands whose order the property does not state
\* ... or between two bindings holding values of different kinds (the property only says that a
\* value never compares true with a CONSTANT of another kind)
HavingOpen(e, rows) == \E n \in DOMAIN e : e[n].op = "cmp" /\ \E i \in DOMAIN rows :
    LET a == Operand(rows[i], e[n].lc, e[n].lk, e[n].lv)
        b == Operand(rows[i], e[n].rc, e[n].rk, e[n].rv)
    IN  CmpOpen(a, b, e[n].cop) \/ (e[n].lc > 0 /\ e[n].rc > 0 /\ HKind(a) # HKind(b))
\* every comparison is between operands of one kind for every row (then an error is not acceptable)
HavingSameKinds(e, rows) == \A n \in DOMAIN e : e[n].op = "cmp" => \A i \in DOMAIN rows :
    HKind(Operand(rows[i], e[n].lc, e[n].lk, e[n].lv)) = HKind(Operand(rows[i], e[n].rc, e[n].rk, e[n].rv))
FilterSeq(rows, e) == SelectSeq(rows, LAMBDA r : Eval(e, 1, r, FALSE))
FilterSeqDev(rows, e) == SelectSeq(rows, LAMBDA r : Eval(e, 1, r, TRUE))
=============================================================================
