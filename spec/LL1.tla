-------------------------------- MODULE LL1 --------------------------------
(* Layer A for C17 / C18: what a user of the BQL grammar table and of grammar.Parser may rely on.   *)
(*                                                                                                  *)
(* GrammarData.tla is GENERATED ON EVERY RUN from grammar.BQL() / grammar.SemanticBQL() of the      *)
(* current tree (harness/cmd/grammardump): Start, Kinds, Plain, Semantic, where a table maps a rule *)
(* name to the ordered sequence of its alternatives and an alternative is a sequence of elements    *)
(* [tok |-> BOOLEAN, v |-> STRING] (token kind or rule name).                                       *)
(*                                                                                                  *)
(*  1. table facts (C17): TableViolations must be empty                                             *)
(*  2. MinYield: least fixpoint giving every productive rule a shortest token sequence              *)
(*  3. the derivation machine (DSpec): all leftmost derivations, used to GENERATE sentences that    *)
(*     reach every (rule, alternative, preceding token kind)                                        *)
(*  4. the predictive recogniser Pda / Accepts (C18): first alternative whose first token is the    *)
(*     current token, the empty alternative when it is reached; the WHOLE input must be consumed    *)
EXTENDS Integers, Sequences, SequencesExt, FiniteSets, TLC, Json, GrammarData

G == Plain
Rules == DOMAIN G
Alts(r) == DOMAIN G[r]
RuleAlt == UNION {{<<r, i>> : i \in Alts(r)} : r \in Rules}
IsEmpty(a) == Len(a) = 0

\* ------------------------------------------------------------------ 1. table facts ----
\* every violation is a tuple <<fact, rule, i, j, text>> (i, j alternative indexes or 0)
SymRefs(T, r) == UNION {{T[r][i][k].v : k \in {k \in DOMAIN T[r][i] : ~T[r][i][k].tok}} : i \in DOMAIN T[r]}

FirstNotToken == {<<"FirstIsToken", ra[1], ra[2], 0, G[ra[1]][ra[2]][1].v>> :
                     ra \in {x \in RuleAlt : ~IsEmpty(G[x[1]][x[2]]) /\ ~G[x[1]][x[2]][1].tok}}

\* two alternatives of one rule that begin with the same token: the later one can never be chosen
SameFirst == UNION {{<<"DistinctFirstTokens", r, ij[1], ij[2], G[r][ij[1]][1].v>> :
                        ij \in {x \in Alts(r) \X Alts(r) :
                                   /\ x[1] < x[2] /\ ~IsEmpty(G[r][x[1]]) /\ ~IsEmpty(G[r][x[2]])
                                   /\ G[r][x[1]][1].tok /\ G[r][x[2]][1].tok
                                   /\ G[r][x[1]][1].v = G[r][x[2]][1].v}} : r \in Rules}

\* an empty alternative that is not the last one: everything after it is dead (covers "two empty alternatives")
EmptyNotLast == {<<"EmptyAlternativeLast", ra[1], ra[2], Len(G[ra[1]]), "">> :
                    ra \in {x \in RuleAlt : IsEmpty(G[x[1]][x[2]]) /\ x[2] # Len(G[x[1]])}}

MissingRule == UNION {{<<"ReferencedRuleExists", r, 0, 0, s>> : s \in SymRefs(G, r) \ Rules} : r \in Rules}
                 \cup (IF Start \in Rules THEN {} ELSE {<<"ReferencedRuleExists", Start, 0, 0, Start>>})

NoAlternative == {<<"RuleHasAlternative", r, 0, 0, "">> : r \in {x \in Rules : Len(G[x]) = 0}}

RECURSIVE Reach(_)
Reach(S) == LET T == S \cup UNION {SymRefs(G, r) \cap Rules : r \in S}
            IN  IF T = S THEN S ELSE Reach(T)
Reachable == IF Start \in Rules THEN Reach({Start}) ELSE {}
Unreachable == {<<"ReachableFromStart", r, 0, 0, "">> : r \in Rules \ Reachable}

\* ---- 2. productive rules and their shortest yields: least fixpoint, computed by iteration ----
\* a yield is a sequence of [k |-> token kind, own |-> rule whose alternative contains the token]
NoY == [def |-> FALSE, y |-> <<>>]
RECURSIVE SeqY(_, _, _)
SeqY(Y, r, alt) ==
    IF Len(alt) = 0 THEN [def |-> TRUE, y |-> <<>>]
    ELSE LET e == Head(alt)
             h == IF e.tok THEN [def |-> TRUE, y |-> <<[k |-> e.v, own |-> r]>>]
                  ELSE IF e.v \in Rules THEN Y[e.v] ELSE NoY
             t == SeqY(Y, r, Tail(alt))
         IN  IF h.def /\ t.def THEN [def |-> TRUE, y |-> h.y \o t.y] ELSE NoY
\* rev = FALSE: among the shortest yields the one of the FIRST alternative; rev = TRUE: of the LAST one
\* (the two completions together exercise the first and the last alternatives of every rule)
Better(a, b, rev) == a.def /\ (~b.def \/ Len(a.y) < Len(b.y) \/ (rev /\ Len(a.y) = Len(b.y)))
RECURSIVE BestFrom(_, _, _, _, _)
BestFrom(Y, r, i, best, rev) ==
    IF i > Len(G[r]) THEN best
    ELSE LET c == SeqY(Y, r, G[r][i]) IN BestFrom(Y, r, i + 1, IF Better(c, best, rev) THEN c ELSE best, rev)
RECURSIVE FixY(_, _, _)
FixY(Y, rev, fuel) == LET Z == [r \in Rules |-> BestFrom(Y, r, 1, Y[r], rev)]
                      IN  IF Z = Y \/ fuel = 0 THEN Y ELSE FixY(Z, rev, fuel - 1)
MinYield    == FixY([r \in Rules |-> NoY], FALSE, 500)
MinYieldRev == FixY([r \in Rules |-> NoY], TRUE, 500)
Productive == {r \in Rules : MinYield[r].def}
Unproductive == {<<"Productive", r, 0, 0, "">> : r \in Rules \ Productive}

\* the grammar with semantic hooks has exactly the rules and alternatives of the plain grammar
TableDiff == {<<"PlainEqualsSemantic", r, 0, 0, "rule only in one table">> :
                 r \in (DOMAIN Plain \ DOMAIN Semantic) \cup (DOMAIN Semantic \ DOMAIN Plain)}
             \cup {<<"PlainEqualsSemantic", r, Len(Plain[r]), Len(Semantic[r]), "alternatives differ">> :
                      r \in {x \in DOMAIN Plain \cap DOMAIN Semantic : Plain[x] # Semantic[x]}}

TableViolations == FirstNotToken \cup SameFirst \cup EmptyNotLast \cup MissingRule \cup NoAlternative
                   \cup Unreachable \cup Unproductive \cup TableDiff

NEmptyAlts == Cardinality({x \in RuleAlt : IsEmpty(G[x[1]][x[2]])})

\* ------------------------------------------------------------------ 3. derivation machine ----
\* stack elements carry the rule that pushed them
Elem(e, r) == [tok |-> e.tok, v |-> e.v, own |-> r]
Push(r, i) == [k \in 1..Len(G[r][i]) |-> Elem(G[r][i][k], r)]
StartStack == <<[tok |-> FALSE, v |-> Start, own |-> ""]>>

RECURSIVE CompleteSt(_, _)
CompleteSt(st, Y) == IF Len(st) = 0 THEN <<>>
                     ELSE LET e == Head(st)
                          IN  (IF e.tok THEN <<[k |-> e.v, own |-> e.own]>>
                               ELSE IF e.v \in Productive THEN Y[e.v].y ELSE <<>>) \o CompleteSt(Tail(st), Y)

\* ------------------------------------------------------------------ 4. predictive recogniser ----
\* The alternative of rule r taken when the current token kind is c: alternatives are tried in
\* order; an empty alternative is taken as soon as it is reached; 0 = no alternative applies;
\* -1 = an alternative that begins with a rule is reached (the parser refuses such a table).
RECURSIVE Choice(_, _, _)
Choice(r, c, i) == IF i > Len(G[r]) THEN 0
                   ELSE LET a == G[r][i] IN
                        IF IsEmpty(a) THEN i
                        ELSE IF ~a[1].tok THEN 0 - 1
                        ELSE IF a[1].v = c THEN i ELSE Choice(r, c, i + 1)

\* Expands rules on top of the stack until a token is on top, the stack is empty, or no
\* alternative applies (ok = FALSE); c is the current token kind.
RECURSIVE Expand(_, _, _)
Expand(st, c, fir) ==
    IF Len(st) = 0 \/ Head(st).tok THEN [st |-> st, fir |-> fir, ok |-> TRUE]
    ELSE LET top == Head(st) IN
         IF top.v \notin Rules THEN [st |-> st, fir |-> fir, ok |-> FALSE]
         ELSE LET i == Choice(top.v, c, 1) IN
              IF i <= 0 THEN [st |-> st, fir |-> fir, ok |-> FALSE]
              ELSE Expand(G[top.v][i] \o Tail(st), c, Append(fir, [r |-> top.v, i |-> i]))

\* One token of input.  Configuration: st = pending stack (elements of the table), fir = alternatives
\* taken so far (the empty ones included), n = tokens consumed, live = still running, done = the
\* start rule was completed.
StepTok(cfg, c) ==
    IF ~cfg.live THEN cfg
    ELSE LET x == Expand(cfg.st, c, cfg.fir) IN
         IF ~x.ok THEN [cfg EXCEPT !.live = FALSE, !.st = x.st, !.fir = x.fir]
         ELSE IF Len(x.st) = 0 THEN [cfg EXCEPT !.live = FALSE, !.done = TRUE, !.st = x.st, !.fir = x.fir]
         ELSE IF Head(x.st).v = c
              THEN [cfg EXCEPT !.st = Tail(x.st), !.fir = x.fir, !.n = @ + 1]
              ELSE [cfg EXCEPT !.live = FALSE, !.st = x.st, !.fir = x.fir]

\* Runs the predictive machine on the token kinds toks (the end-of-input token is NOT part of toks;
\* beyond the end the current token is "EOF", as often as the parser asks for it).  The machine
\* stops as soon as the start rule is completed - whether input is left is judged by Accepts.
Run(toks) == FoldLeft(StepTok, [st |-> <<[tok |-> FALSE, v |-> Start]>>, fir |-> <<>>, n |-> 0, live |-> TRUE, done |-> FALSE],
                      toks \o <<"EOF", "EOF">>)

\* C18: accepted iff the WHOLE token sequence, up to end of input, is one statement
Accepts(toks) == LET p == Run(toks) IN p.done /\ p.n >= Len(toks)

\* named deviation "no end-of-input check" (Layer B, classification only): a statement followed by
\* anything is accepted as soon as the start rule is completed
AcceptsPrefix(toks) == Run(toks).done

NonEmptyFirings(fir) == SelectSeq(fir, LAMBDA f : ~IsEmpty(G[f.r][f.i]))
=============================================================================
