SPECIFICATION DSpec
VIEW DView
CONSTRAINT DBound
ACTION_CONSTRAINT DEmit
CONSTANTS MaxStack = 14
 MaxOut = 30
 Rev = FALSE
CHECK_DEADLOCK FALSE
