SPECIFICATION MSpec
CONSTANTS
  DevKeyNoOffset = FALSE
  DevPerHandle = FALSE
  DevUnguardedFill = FALSE
  DevFillOnError = TRUE
  NR = 2
  MaxFaults = 1
VIEW MView
INVARIANT Transparent
CHECK_DEADLOCK FALSE
