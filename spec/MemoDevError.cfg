SPECIFICATION MSpec
CONSTANTS
  DevKeyNoOffset = FALSE
  DevPerHandle = FALSE
  DevUnguardedFill = FALSE
  DevFillOnError = TRUE
  DevKeyNoMethod = FALSE
  NR = 2
  MaxFaults = 1
VIEW MView
INVARIANT Transparent
CHECK_DEADLOCK FALSE
