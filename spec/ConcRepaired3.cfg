SPECIFICATION CSpec
CONSTANTS
  NP = 3
  MaxOps = 1
  Alphabet = {"A12", "A23", "R12", "L", "LA", "E2", "NEW", "DEL", "GET", "NAMES"}
  DevSharedOptionsCell = FALSE
  DevAddPerTriple = FALSE
VIEW CView
INVARIANTS Refines NoPartialBatch NoDeadlock NoPanic LocksFree OptionsKept OptionsUntouched
CHECK_DEADLOCK FALSE
