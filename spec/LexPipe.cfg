SPECIFICATION Spec
CONSTANTS MaxTok = 9
 Cap = 2
 LookAhead = 2
 Drain = FALSE
INVARIANTS TypeOK LeakIff ParserAlwaysReturns
CHECK_DEADLOCK FALSE
