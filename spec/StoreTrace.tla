----------------------------- MODULE StoreTrace -----------------------------
(* Trace validation for the store family: checks what the REAL code did (ndjson written by          *)
(* harness/cmd/storedrv) against Layer A (Store.tla, Lookups.tla).                                  *)
(*                                                                                                  *)
(* The trace spec never blocks: every event is judged, a rejected event prints                      *)
(*     <<"REJECT", line, property, class>>                                                          *)
(* and the spec re-anchors on the logged observation so that the rest of the trace is still         *)
(* checked.  The whole trace must be consumed (POSTCONDITION), otherwise the run is an INFRA error. *)
EXTENDS Store, Lookups, Json, IOUtils

Trace == ndJsonDeserialize(IOEnv.TRACE_FILE)

VARIABLE l
tvars == <<vars, l>>

e == Trace[l]

\* ---- observation after a store / graph operation --------------------------------------------
\* names: what Store.GraphNames delivered; obs[i] = [g, x, ls, ex, ex2]: for universe name g whether
\* Store.Graph succeeded, the Graph.Triples(DefaultLookup) listing as triple ids (0 = a triple that
\* is not in the universe) and the universe triples for which Graph.Exist said true.
ObsOK(obs, names, G, C) ==
    /\ Len(names) = Cardinality(G)
    /\ Range(names) = G
    /\ \A i \in DOMAIN obs : LET o == obs[i] IN
          /\ o.x = (o.g \in G)
          /\ o.x => /\ Len(o.ls) = Cardinality(C[o.g])     \* each stored triple listed exactly once
                    /\ Range(o.ls) = C[o.g]
                    /\ Range(o.ex) = C[o.g]                \* the existence test reflects the same set
                    /\ Len(o.ex) = Cardinality(C[o.g])
                    /\ Range(o.ex2) = C[o.g]               \* ... also when asked with the anchors in another zone
                    /\ Len(o.ex2) = Cardinality(C[o.g])

ObsG(names) == Range(names) \cap NameSet
ObsC(obs) == [n \in NameSet |->
                 IF \E i \in DOMAIN obs : obs[i].g = n /\ obs[i].x
                 THEN LET i == CHOOSE i \in DOMAIN obs : obs[i].g = n /\ obs[i].x
                      IN  Range(obs[i].ls) \cap (1..NTall)
                 ELSE {}]

OpResult == CASE e.op = "NewGraph"    -> DoNewGraph(graphs, content, e.g)
              [] e.op = "Graph"       -> DoGetGraph(graphs, content, e.g)
              [] e.op = "DeleteGraph" -> DoDeleteGraph(graphs, content, e.g)
              [] e.op = "Add"         -> DoAdd(graphs, content, e.g, e.b)
              [] e.op = "Remove"      -> DoRemove(graphs, content, e.g, e.b)

StepOp == /\ e.ev = "Op"
          /\ LET r == OpResult
                 flagOK == r.ok = e.ok
                 \* an operation after which the driver did not look at the store (histories with rare listings): only
                 \* the result flag is judged, the model moves on and the next observation is judged against it
                 unobserved == "sparse" \in DOMAIN e /\ e.sparse
                 obsOK == unobserved \/ ObsOK(e.obs, e.names, r.G, r.C)
             IN  IF flagOK /\ obsOK
                 THEN graphs' = r.G /\ content' = r.C
                 ELSE /\ PrintT(<<"REJECT", l, "C01", IF flagOK THEN "observation" ELSE "result-flag">>)
                      /\ graphs' = IF unobserved THEN r.G ELSE ObsG(e.names)
                      /\ content' = IF unobserved THEN r.C ELSE ObsC(e.obs)

\* a new store (Reset) or a chunk boundary (Anchor: the observation validated by the previous chunk)
StepAnchor == /\ e.ev \in {"Reset", "Anchor"}
              /\ graphs' = ObsG(e.names)
              /\ content' = ObsC(e.obs)

\* ---- lookups ------------------------------------------------------------------------------------
LVerdict ==
    LET C == content[e.g] IN
    IF e.g \notin graphs THEN "harness-graph-missing"
    ELSE IF ExpectErr(e) \/ Open(e) THEN "open"
    ELSE IF e.err THEN "error-instead-of-result"
    ELSE IF e.k = "base" THEN
         IF ~BagIs(e.res, Result(C, e), e.c)
         THEN (IF BagIs(e.res, DevResult(C, e, e.canon), e.c) THEN "dev" ELSE "unexplained")
         ELSE IF e.res # e.res2 THEN "nondeterministic-order" ELSE "ok"
    ELSE IF e.res = Page(e.base, e.max, e.off) THEN "ok" ELSE "page"

StepL == /\ e.ev = "L"
         /\ LET v == LVerdict IN
               \/ v = "ok"
               \/ v # "ok" /\ PrintT(<<IF v = "open" THEN "OPEN" ELSE "REJECT", l, e.prop, v>>)
         /\ UNCHANGED <<graphs, content>>

\* ---- index dumps (Layer B binding: memory.VerifDumpIndexes, build tag verif) ----------------------
\* e.idx = sequence of [n |-> index name, bs |-> sequence of buckets, each a sequence of triple ids].
\* Every secondary index must be a projection of the master index: no triple that is not stored, the
\* non-empty buckets are exactly the classes of the stored triples under the index's key, and the
\* SP/PO/SO maps hold no empty bucket.  Keys are not interpreted (no UUID of the code under test).
Key(n, t) == CASE n = "S" -> <<TS[t].s>> [] n = "P" -> <<PR[TS[t].p].id>> [] n = "O" -> <<TS[t].o>>
               [] n = "SP" -> <<TS[t].s, PR[TS[t].p].id>> [] n = "PO" -> <<PR[TS[t].p].id, TS[t].o>>
               [] n = "SO" -> <<TS[t].s, TS[t].o>> [] OTHER -> <<0>>
BucketsOK(n, bs, C) ==
    LET sets == {Range(bs[i]) : i \in DOMAIN bs}
        nonEmpty == sets \ {{}}
    IN  /\ \A i \in DOMAIN bs : Len(bs[i]) = Cardinality(Range(bs[i]))
        /\ UNION sets \subseteq C
        /\ nonEmpty = {{t2 \in C : Key(n, t2) = Key(n, t)} : t \in C}
        /\ Cardinality({i \in DOMAIN bs : bs[i] # <<>>}) = Cardinality(nonEmpty)   \* no key twice
        /\ (n \in {"SP", "PO", "SO"} => {} \notin sets)
StepD == /\ e.ev = "D"
         /\ LET bad == {i \in DOMAIN e.idx : ~BucketsOK(e.idx[i].n, e.idx[i].bs, content[e.g])} IN
               \/ bad = {}
               \/ bad # {} /\ PrintT(<<"REJECT", l, "C02", "index-not-a-projection-" \o e.idx[CHOOSE i \in bad : TRUE].n>>)
         /\ UNCHANGED <<graphs, content>>

TraceInit == /\ l = 1
             /\ graphs = {}
             /\ content = [n \in NameSet |-> {}]
             /\ last = [op |-> "Init", g |-> "", b |-> <<>>, ok |-> TRUE]

TraceNext == /\ l <= Len(Trace)
             /\ (StepOp \/ StepAnchor \/ StepL \/ StepD)
             /\ l' = l + 1
             /\ UNCHANGED last

TraceSpec == TraceInit /\ [][TraceNext]_tvars

\* every line consumed
Consumed == TLCGet("stats").diameter = Len(Trace) + 1
=============================================================================
