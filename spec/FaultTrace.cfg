SPECIFICATION TraceSpec
VIEW TView
POSTCONDITION Consumed
CHECK_DEADLOCK FALSE
