SPECIFICATION MSpec
CONSTANTS
  DevKeyNoOffset = FALSE
  DevPerHandle = FALSE
  DevUnguardedFill = FALSE
  DevFillOnError = FALSE
  DevKeyNoMethod = FALSE
  NR = 2
  MaxFaults = 1
VIEW MView
INVARIANTS Transparent NoStuck
CHECK_DEADLOCK FALSE
