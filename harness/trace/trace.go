// Package trace writes ndjson traces (one JSON object per line).
package trace

import (
	"bufio"
	"encoding/json"
	"os"
	"sync"
)

type Writer struct {
	mu sync.Mutex
	f  *os.File
	w  *bufio.Writer
	N  int
}

func New(path string) (*Writer, error) {
	f, err := os.Create(path)
	if err != nil {
		return nil, err
	}
	return &Writer{f: f, w: bufio.NewWriterSize(f, 1<<20)}, nil
}

// Emit writes one event. Slices must be non-nil to be rendered as [] (use trace.Ints).
func (t *Writer) Emit(ev interface{}) {
	b, err := json.Marshal(ev)
	if err != nil {
		panic(err)
	}
	t.mu.Lock()
	t.w.Write(b)
	t.w.WriteByte('\n')
	t.N++
	t.mu.Unlock()
}

// Flush writes buffered events to the file (drivers that may be killed by the code under test).
func (t *Writer) Flush() {
	t.mu.Lock()
	t.w.Flush()
	t.mu.Unlock()
}

func (t *Writer) Close() error {
	t.mu.Lock()
	defer t.mu.Unlock()
	if err := t.w.Flush(); err != nil {
		return err
	}
	return t.f.Close()
}

// Ints returns a non-nil copy (so that JSON renders [] and never null).
func Ints(a []int) []int {
	r := make([]int, 0, len(a))
	return append(r, a...)
}
