//go:build !memohook

package main

// The tree under test has no verifYield hook in storage/memoization: schedules cannot be forced.
const hookAvailable = false

func installHook(f func(point string)) {}
