//go:build memohook

package main

import "github.com/google/badwolf/storage/memoization"

// Built only when the tree under test carries the verifYield hook (proposed_fixes/hook_memo.diff).
const hookAvailable = true

func installHook(f func(point string)) { memoization.VerifYield = f }
