// memodrv drives the REAL memoizing store (storage/memoization) and records what it did as an ndjson
// trace that spec/MemoTrace.tla validates (C19).
//
//	memodrv sched -universe U -in schedules.ndjson -out T [-seed N] [-stats S]
//	    forces every TLC-enumerated schedule (spec/Memo.tla) on the real memoizer through the verifYield
//	    hook; the plain answers are read from the wrapped memory graph at every instant
//	memodrv keys  -universe U -out T [-every N]   cache-key injectivity sweep (see runKeys)
//	memodrv seq   -universe U -out T -runs R -steps N [-faults] [-seed N] [-stats S]
//	    single-goroutine lock-step histories on memoization.New(store) and a plain twin memory store:
//	    all Graph methods, all option shapes (window, filters, LatestAnchor, MaxElements, Offset), two
//	    handles of one graph, fresh handles, and (with -faults) forwarded reads that fail part-way
package main

import (
	"bufio"
	"context"
	"encoding/json"
	"flag"
	"fmt"
	"math/rand"
	"os"
	"sort"
	"sync"
	"time"

	"github.com/google/badwolf/storage"
	"github.com/google/badwolf/storage/memoization"
	"github.com/google/badwolf/storage/memory"

	"verif/harness/faultstore"
	"verif/harness/storeops"
	"verif/harness/trace"
	"verif/harness/uni"
)

const gname = "?g1"

type qx struct {
	storeops.Q
	T int `json:"t"` // Exist: triple id (0 for lookups)
}

type plE struct {
	Pid int   `json:"pid"`
	Res []int `json:"res"`
	Err bool  `json:"err"`
}

// event: one line of the trace; every event carries every field.
type event struct {
	Ev    string `json:"ev"`   // Reset | G
	Mode  string `json:"mode"` // sched | seq
	Run   int    `json:"run"`
	Sid   int    `json:"sid"`  // index of the schedule (sched mode)
	Pred  bool   `json:"pred"` // Reset: Layer B predicts a violation of Transparent for this schedule
	Pid   int    `json:"pid"`  // 1 = writer / the only process of seq mode, 2.. = readers
	At    string `json:"at"`   // yield point reached by this grant: read.miss read.fill write.cleared ret done
	First bool   `json:"first"`
	Kind  string `json:"kind"` // r | w | n (new handle)
	H     int    `json:"h"`
	Wop   string `json:"wop"`
	B     []int  `json:"b"`
	Q     qx     `json:"q"`
	Res   []int  `json:"res"`
	Err   bool   `json:"err"`
	Fault int    `json:"fault"` // -1 none; j: the forwarded read was made to fail after j elements
	Pl    []plE  `json:"pl"`    // plain answers, now, for every pending read
	C     []int  `json:"c"`     // listing of the wrapped/plain graph now (sorted ids)
}

var (
	ctx   = context.Background()
	u     *uni.Universe
	tw    *trace.Writer
	rng   *rand.Rand
	stats = map[string]int{}
)

func must(err error) {
	if err != nil {
		fmt.Fprintln(os.Stderr, "memodrv:", err)
		os.Exit(3)
	}
}

// ------------------------------------------------------------------------------------------------
// requests

func canonCP(abs int) int {
	for i, c := range u.CPreds {
		if c.Abs == abs {
			return i + 1
		}
	}
	return 0
}

func mkQ(m, c string, s, cp, o int) qx {
	q := storeops.Q{M: m, C: c, S: s, CP: cp, O: o, Ff: "predicate", Canon: true}
	if cp > 0 {
		q.P = u.CPreds[cp-1].Abs
		q.Canon = canonCP(q.P) == cp
	}
	return qx{Q: q}
}

// read performs request q on g; armed >= 0 arms a one-shot fault on the wrapped driver.
// reuseLO (sequential modes only: one goroutine): some lookups are made with one shared, mutated options value
var (
	reuseLO  bool
	sharedLO = &storage.LookupOptions{}
)

func read(g storage.Graph, q qx) ([]int, bool) {
	if q.M == "Exist" {
		ok, err := g.Exist(ctx, u.Triple(q.T))
		if err != nil {
			return []int{}, true
		}
		if ok {
			return []int{1}, false
		}
		return []int{0}, false
	}
	lo := storeops.Options(u, &q.Q)
	if reuseLO && rng.Intn(3) == 0 {
		// a caller that keeps ONE options value and re-points its fields between lookups (a window sweep, a paging loop)
		sharedLO.MaxElements, sharedLO.Offset = lo.MaxElements, lo.Offset
		sharedLO.LowerAnchor, sharedLO.UpperAnchor = lo.LowerAnchor, lo.UpperAnchor
		sharedLO.LatestAnchor, sharedLO.FilterOptions = lo.LatestAnchor, lo.FilterOptions
		lo = sharedLO
	}
	res, err, closed := storeops.Lookup(ctx, u, g, &q.Q, lo)
	if err == storeops.ErrTimeout || !closed {
		must(fmt.Errorf("lookup %+v did not finish (closed=%v err=%v)", q, closed, err))
	}
	return res, err != nil
}

func listing(g storage.Graph) []int {
	res, err := read(g, qx{Q: storeops.Q{M: "Triples", C: "t", Ff: "predicate", Canon: true}})
	if err {
		must(fmt.Errorf("plain listing failed"))
	}
	sort.Ints(res)
	return res
}

// ------------------------------------------------------------------------------------------------
// forced schedules

type schedule struct {
	C0    int      `json:"c0"`
	Wop   string   `json:"wop"`
	Rq    []string `json:"rq"`
	Rh    []int    `json:"rh"`
	Sched []int    `json:"sched"`
	Pred  bool     `json:"pred"`
}

type proc struct {
	id      int
	kind    string
	h       int
	q       qx
	wop     string
	b       []int
	resume  chan struct{}
	release chan struct{} // closed when the run is abandoned: every parked process runs on freely
	started bool
	grants  int
	fin     bool
	at      string
	res     []int
	err     bool
}

var (
	cur     *proc
	arrive  chan string // per run, buffered: a process reports the point it reached
	freeRun bool
	frMu    sync.Mutex
	recMu   sync.Mutex
	recPts  []string
	recMode bool
)

func isFree() bool {
	frMu.Lock()
	defer frMu.Unlock()
	return freeRun
}

func setFree(v bool) {
	frMu.Lock()
	freeRun = v
	frMu.Unlock()
}

// gate is the verifYield hook.
func gate(point string) {
	if recMode {
		recMu.Lock()
		recPts = append(recPts, point)
		recMu.Unlock()
		return
	}
	if isFree() {
		return
	}
	p := cur
	arrive <- point
	p.park()
}

// park waits for the next grant (or for the run to be abandoned).
func (p *proc) park() {
	select {
	case <-p.resume:
	case <-p.release:
	}
}

// method table for the abstract lookup of the model: fixed components and a pair (tb, tw) of universe
// triples that both match them.
type mdef struct {
	name    string
	c       string
	s, p, o bool
	tb, tw  int
	q       qx
}

var mdefs []mdef

func buildMethods() {
	for _, m := range storeops.Methods {
		d := mdef{name: m.Name, c: m.C, s: m.S, p: m.P, o: m.O}
	search:
		for i, a := range u.Triples {
			for j, b := range u.Triples {
				if i >= j {
					continue
				}
				if (m.S && a.S != b.S) || (m.P && a.P != b.P) || (m.O && a.O != b.O) {
					continue
				}
				// the returned component must differ so that pages are distinguishable
				switch m.C {
				case "o":
					if a.O == b.O {
						continue
					}
				case "s":
					if a.S == b.S {
						continue
					}
				case "p":
					if a.P == b.P {
						continue
					}
				}
				d.tb, d.tw = i+1, j+1
				s, cp, o := 0, 0, 0
				if m.S {
					s = a.S
				}
				if m.P {
					cp = canonCP(a.P)
				}
				if m.O {
					o = a.O
				}
				d.q = mkQ(m.Name, m.C, s, cp, o)
				break search
			}
		}
		if d.tb == 0 {
			must(fmt.Errorf("no triple pair for method %s", m.Name))
		}
		mdefs = append(mdefs, d)
	}
}

func runSchedules(in string) {
	if !hookAvailable {
		must(fmt.Errorf("built without the memohook tag: the tree under test has no verifYield hook"))
	}
	installHook(gate)
	buildMethods()
	inner := memory.NewStore()
	ms := memoization.New(inner)
	_, err := ms.NewGraph(ctx, gname)
	must(err)
	ig, err := inner.Graph(ctx, gname)
	must(err)
	f, err := os.Open(in)
	must(err)
	defer f.Close()
	sc := bufio.NewScanner(f)
	sc.Buffer(make([]byte, 1<<20), 1<<20)
	run := 0
	stuckSig := map[string]int{}
	for sc.Scan() {
		var s schedule
		must(json.Unmarshal(sc.Bytes(), &s))
		run++
		md := mdefs[(run+int(rng.Int63n(1<<30)))%len(mdefs)]
		// initial content of the run: written THROUGH the memoizing store (a tree whose handles share one
		// cache per graph would otherwise start the run with the previous run's cache), un-gated
		setFree(true)
		h0, err := ms.Graph(ctx, gname)
		must(err)
		must(h0.RemoveTriples(ctx, storeops.Batch(u, listing(ig))))
		var init []int
		if s.C0 == 1 {
			init = append(init, md.tb)
		}
		if s.Wop == "Remove" {
			init = append(init, md.tw)
		}
		must(h0.AddTriples(ctx, storeops.Batch(u, init)))
		setFree(false)
		hs := make([]storage.Graph, 3)
		for i := 1; i <= 2; i++ {
			hs[i], err = ms.Graph(ctx, gname)
			must(err)
		}
		procs := []*proc{nil, {id: 1, kind: "w", h: 1, wop: s.Wop, b: []int{md.tw}, resume: make(chan struct{})}}
		for i, rn := range s.Rq {
			p := &proc{id: i + 2, kind: "r", h: s.Rh[i], resume: make(chan struct{}), b: []int{}}
			switch rn {
			case "E":
				p.q = qx{Q: storeops.Q{M: "Exist", C: "t", Ff: "predicate", Canon: true}, T: md.tw}
			case "L0":
				p.q = md.q
				p.q.Max, p.q.Off = 1, 0
			case "L1":
				p.q = md.q
				p.q.Max, p.q.Off = 1, 1
			default:
				p.q = md.q
			}
			procs = append(procs, p)
		}
		pending := func() []plE {
			pl := []plE{}
			for _, p := range procs[1:] {
				if p.kind == "r" && p.started && !p.fin {
					r, e := read(ig, p.q)
					pl = append(pl, plE{Pid: p.id, Res: r, Err: e})
				}
			}
			return pl
		}
		c := listing(ig)
		tw.Emit(event{Ev: "Reset", Mode: "sched", Run: run, Sid: run, Pred: s.Pred, B: []int{}, Res: []int{}, Fault: -1, Pl: []plE{}, C: c,
			Q: qx{Q: storeops.Q{M: md.name}}})
		arrive = make(chan string, 16)
		release := make(chan struct{})
		var wg sync.WaitGroup
		for _, p := range procs[1:] {
			p.release = release
		}
		body := func(p *proc) {
			defer wg.Done()
			p.park()
			if p.kind == "r" {
				p.res, p.err = read(hs[p.h], p.q)
				arrive <- "ret"
				return
			}
			var e error
			if p.wop == "Add" {
				e = hs[p.h].AddTriples(ctx, storeops.Batch(u, p.b))
			} else {
				e = hs[p.h].RemoveTriples(ctx, storeops.Batch(u, p.b))
			}
			p.err = e != nil
			arrive <- "ret"
			p.park()
			arrive <- "done"
		}
		sig := func(p *proc) string {
			// who is asked to move, and which parked processes could be holding a lock it needs
			k := fmt.Sprintf("%s@%s<-", p.kind, p.at)
			for _, o := range procs[1:] {
				if o != p && o.started && !o.fin {
					k += fmt.Sprintf("%s@%s/same=%v,", o.kind, o.at, o.h == p.h)
				}
			}
			return k
		}
		grant := func(p *proc) bool {
			first := p.grants == 0
			s0 := sig(p)
			if stuckSig[s0] >= 2 {
				stats["unforceable_skipped"]++
				return false
			}
			cur = p
			if !p.started {
				p.started = true
				wg.Add(1)
				go body(p)
			}
			p.grants++
			p.resume <- struct{}{}
			select {
			case at := <-arrive:
				p.at = at
			case <-time.After(500 * time.Millisecond): // >= 10^4 x the duration of a step; only discards the run
				stuckSig[s0]++
				stats["unforceable_timeout"]++
				return false
			}
			if (p.kind == "r" && p.at == "ret") || p.at == "done" {
				p.fin = true
			}
			if p.kind == "w" {
				c = listing(ig)
			}
			e := event{Ev: "G", Mode: "sched", Run: run, Sid: run, Pid: p.id, At: p.at, First: first, Kind: p.kind, H: p.h, Wop: p.wop,
				B: trace.Ints(p.b), Q: p.q, Res: []int{}, Fault: -1, C: c}
			if p.kind == "r" && p.at == "ret" {
				e.Res, e.Err = trace.Ints(p.res), p.err
			}
			if p.kind == "w" && p.at == "ret" {
				e.Err = p.err
			}
			// plain answers for the pending reads (including one that returns in this event)
			e.Pl = pending()
			if p.kind == "r" && p.fin {
				r, er := read(ig, p.q)
				e.Pl = append(e.Pl, plE{Pid: p.id, Res: r, Err: er})
			}
			tw.Emit(e)
			stats["grants"]++
			return true
		}
		okRun := true
		for _, pid := range s.Sched {
			p := procs[pid]
			if p.fin {
				stats["drift_extra_step"]++
				continue
			}
			if !grant(p) {
				okRun = false
				break
			}
		}
		if okRun {
			for _, p := range procs[1:] {
				for !p.fin {
					stats["drift_missing_step"]++
					if !grant(p) {
						okRun = false
						break
					}
				}
				if !okRun {
					break
				}
			}
		}
		if !okRun {
			// unforceable on this tree: release every parked process, wait for the calls to end; the
			// run is marked so that the trace specification judges nothing after this point
			setFree(true)
			close(release)
			fin := make(chan struct{})
			go func() { wg.Wait(); close(fin) }()
			select {
			case <-fin:
			case <-time.After(120 * time.Second):
				must(fmt.Errorf("run %d: processes did not finish even when run freely", run))
			}
			setFree(false)
			tw.Emit(event{Ev: "Abort", Mode: "sched", Run: run, Sid: run, B: []int{}, Res: []int{}, Fault: -1, Pl: []plE{}, C: listing(ig)})
			stats["runs_unforceable"]++
			continue
		}
		stats["runs"]++
		if s.Pred {
			stats["runs_predicted_violation"]++
		}
	}
	must(sc.Err())
}

// ------------------------------------------------------------------------------------------------
// sequential lock-step histories

func randQ() qx {
	m := storeops.Methods[rng.Intn(len(storeops.Methods))]
	s, cp, o := 0, 0, 0
	if m.S {
		s = 1 + rng.Intn(len(u.Nodes))
	}
	if m.P {
		cp = 1 + rng.Intn(len(u.CPreds))
	}
	if m.O {
		o = 1 + rng.Intn(len(u.Objs))
	}
	q := mkQ(m.Name, m.C, s, cp, o)
	ni := len(u.Instants)
	if rng.Intn(3) == 0 {
		q.Lo = rng.Intn(ni + 1)
		q.Hi = rng.Intn(ni + 1)
	}
	switch rng.Intn(8) {
	case 0:
		q.La = true
	case 1, 2:
		q.Fop = []string{"latest", "isTemporal", "isImmutable", "bogus"}[rng.Intn(4)]
		q.Ff = []string{"predicate", "object", "subject"}[rng.Intn(3)]
	case 3:
		q.La = true
		q.Fop, q.Ff = "latest", "predicate"
	}
	if rng.Intn(2) == 0 {
		q.Max = rng.Intn(4)
		q.Off = rng.Intn(4)
	}
	return q
}

func runSeq(runs, steps int, faults bool) {
	reuseLO = true
	defer func() { reuseLO = false }()
	if hookAvailable {
		installHook(gate)
		recMode = true
	}
	for run := 1; run <= runs; run++ {
		inner := memory.NewStore()
		fs := faultstore.New(inner)
		ms := memoization.New(fs)
		twin := memory.NewStore()
		hs := make([]storage.Graph, 3)
		var err error
		hs[1], err = ms.NewGraph(ctx, gname) // the handle NewGraph returns is a handle like any other
		must(err)
		hs[2], err = ms.Graph(ctx, gname)
		must(err)
		pg, err := twin.NewGraph(ctx, gname)
		must(err)
		tw.Emit(event{Ev: "Reset", Mode: "seq", Run: run, B: []int{}, Res: []int{}, Fault: -1, Pl: []plE{}, C: []int{}})
		// pool of requests; about half of the pool are re-pagings of other pool members
		var pool []qx
		for len(pool) < 10 {
			q := randQ()
			pool = append(pool, q)
			if (q.Lo > 0 || q.Hi > 0) && rng.Intn(2) == 0 {
				// the same request with a bound moved by less than a second (an anchor AT the bound falls out)
				q3 := q
				d := []int{500000000, -500000000, 1, -1, 999999999}[rng.Intn(5)]
				if q.Lo > 0 && (q.Hi == 0 || rng.Intn(2) == 0) {
					q3.LoD = d
				} else {
					q3.HiD = d
				}
				pool = append(pool, q3)
			}
			if rng.Intn(2) == 0 {
				q2 := q
				if q2.Max == 0 {
					q2.Max = 1 + rng.Intn(2)
					pool[len(pool)-1].Max = q2.Max
				}
				q2.Off = (q.Off + 1 + rng.Intn(2)) % 4
				pool = append(pool, q2)
			}
		}
		for i := 1; i <= u.NT(); i += 3 {
			pool = append(pool, qx{Q: storeops.Q{M: "Exist", C: "t", Ff: "predicate", Canon: true}, T: 1 + rng.Intn(u.NT())})
		}
		emit := func(kind string, h int, wop string, b []int, q qx, res []int, er bool, fault int, pts []string, cBefore, cAfter []int, plain func() plE) {
			pts = append(pts, "ret")
			for i, at := range pts {
				e := event{Ev: "G", Mode: "seq", Run: run, Pid: 1, At: at, First: i == 0, Kind: kind, H: h, Wop: wop, B: trace.Ints(b), Q: q,
					Res: []int{}, Fault: -1, Pl: []plE{}, C: cBefore}
				if at == "ret" {
					e.Res, e.Err, e.Fault, e.C = trace.Ints(res), er, fault, cAfter
				}
				if kind == "r" {
					e.Pl = []plE{plain()}
				}
				tw.Emit(e)
			}
		}
		c := listing(pg)
		for st := 0; st < steps; st++ {
			h := 1 + rng.Intn(2)
			r := rng.Intn(100)
			recMu.Lock()
			recPts = nil
			recMu.Unlock()
			switch {
			case r < 22 || st == 0:
				n := rng.Intn(4)
				if st == 0 {
					n = u.NT() * 2 / 3
				}
				b := make([]int, n)
				for j := range b {
					b[j] = 1 + rng.Intn(u.NT())
				}
				wop := "Add"
				var e1, e2 error
				if r < 12 || st == 0 {
					e1 = hs[h].AddTriples(ctx, storeops.Batch(u, b))
					e2 = pg.AddTriples(ctx, storeops.Batch(u, b))
				} else {
					wop = "Remove"
					e1 = hs[h].RemoveTriples(ctx, storeops.Batch(u, b))
					e2 = pg.RemoveTriples(ctx, storeops.Batch(u, b))
				}
				if e2 != nil {
					must(fmt.Errorf("plain write failed: %v", e2))
				}
				c2 := listing(pg)
				emit("w", h, wop, b, qx{}, nil, e1 != nil, -1, append([]string{}, recPts...), c, c2, nil)
				c = c2
				stats["seq_writes"]++
			case r < 26:
				hs[h], err = ms.Graph(ctx, gname)
				must(err)
				emit("n", h, "", nil, qx{}, nil, false, -1, nil, c, c, nil)
				stats["seq_newhandle"]++
			default:
				q := pool[rng.Intn(len(pool))]
				fault := -1
				if faults && q.M != "Exist" && rng.Intn(12) == 0 {
					fault = rng.Intn(3)
					fs.ArmNextStream(fault)
				}
				res, er := read(hs[h], q)
				if fault >= 0 {
					if !fs.FaultHit() {
						fault = -1 // served from the cache: the wrapped driver was not called
					}
					fs.Reset(nil)
				}
				pr, pe := read(pg, q)
				emit("r", h, "", nil, q, res, er, fault, append([]string{}, recPts...), c, c, func() plE { return plE{Pid: 1, Res: pr, Err: pe} })
				stats["seq_reads"]++
				stats["seq:"+q.M]++
				if fault >= 0 {
					stats["seq_faults"]++
				}
			}
		}
	}
}

// runKeys: cache-key injectivity sweep. For every lookup method a fresh memoizing store holding the whole
// universe; every combination of arguments (all universe values, stored or not) and a grid of option shapes
// is read once through ONE handle, in lock-step with a plain twin store. Two different requests that the
// memoizer maps to one key are exposed when the second is answered with the cached answer of the first.
// every: keep one argument tuple in `every` (seeded), 1 = all.
func runKeys(every int) {
	reuseLO = true
	defer func() { reuseLO = false }()
	if hookAvailable {
		installHook(gate)
		recMode = true
	}
	ni := len(u.Instants)
	type shape struct {
		lo, hi   int
		loD, hiD int // nanoseconds added to the bounds
		fop, ff  string
		la       bool
		max, off int
	}
	var base []shape
	for lo := 0; lo <= ni; lo++ {
		for hi := 0; hi <= ni; hi++ {
			base = append(base, shape{lo: lo, hi: hi, ff: "predicate"})
		}
	}
	// bounds that differ from an anchor of the universe by less than a second (in both directions) and by one
	// nanosecond: windows that only a key with the full precision of the bounds tells apart
	for x := 1; x <= ni; x++ {
		for _, d := range []int{500000000, -500000000, 1, -1} {
			base = append(base, shape{lo: x, loD: d, ff: "predicate"}, shape{hi: x, hiD: d, ff: "predicate"})
		}
	}
	for _, op := range []string{"latest", "isTemporal", "isImmutable", "bogus"} {
		for _, f := range []string{"predicate", "object", "subject"} {
			base = append(base, shape{fop: op, ff: f})
		}
	}
	base = append(base, shape{la: true, ff: "predicate"}, shape{la: true, fop: "latest", ff: "predicate"}, shape{la: true, lo: 2, ff: "predicate"})
	// LatestAnchor together with every upper bound and the last lower bounds: the latest anchor INSIDE a window is not
	// the latest anchor of the graph (a key that leaves the bounds out when LatestAnchor is set mixes them up)
	for x := 1; x <= ni; x++ {
		base = append(base, shape{la: true, hi: x, ff: "predicate"})
		if x >= ni-1 {
			base = append(base, shape{la: true, lo: x, ff: "predicate"})
		}
	}
	base = append(base, shape{la: true, lo: 2, hi: ni - 1, ff: "predicate"})
	pages := [][2]int{{0, 0}, {1, 0}, {1, 1}, {1, 2}, {2, 0}, {2, 1}, {3, 0}}
	run := 0
	all := make([]int, u.NT())
	for i := range all {
		all[i] = i + 1
	}
	issue := func(h, pg storage.Graph, c []int, m storeops.Method, sv, cp, ov int, sh shape, pgn [2]int) {
		q := mkQ(m.Name, m.C, sv, cp, ov)
		q.Lo, q.Hi, q.Fop, q.La, q.Max, q.Off = sh.lo, sh.hi, sh.fop, sh.la, pgn[0], pgn[1]
		q.LoD, q.HiD = sh.loD, sh.hiD
		if sh.ff != "" {
			q.Ff = sh.ff
		}
		recMu.Lock()
		recPts = nil
		recMu.Unlock()
		res, er := read(h, q)
		pr, pe := read(pg, q)
		pts := append(append([]string{}, recPts...), "ret")
		for i, at := range pts {
			e := event{Ev: "G", Mode: "seq", Run: run, Pid: 1, At: at, First: i == 0, Kind: "r", H: 1, B: []int{}, Q: q,
				Res: []int{}, Fault: -1, Pl: []plE{{Pid: 1, Res: pr, Err: pe}}, C: c}
			if at == "ret" {
				e.Res, e.Err = trace.Ints(res), er
			}
			tw.Emit(e)
		}
		stats["key_reads"]++
		if len(pts) == 1 {
			stats["key_hits"]++
		}
	}
	fresh := func(name string) (storage.Graph, storage.Graph, []int) {
		run++
		ms := memoization.New(memory.NewStore())
		twin := memory.NewStore()
		h, err := ms.NewGraph(ctx, gname)
		must(err)
		pg, err := twin.NewGraph(ctx, gname)
		must(err)
		must(h.AddTriples(ctx, storeops.Batch(u, all)))
		must(pg.AddTriples(ctx, storeops.Batch(u, all)))
		c := listing(pg)
		tw.Emit(event{Ev: "Reset", Mode: "seq", Run: run, B: []int{}, Res: []int{}, Fault: -1, Pl: []plE{}, C: c, Q: qx{Q: storeops.Q{M: name}}})
		return h, pg, c
	}
	args := func(m storeops.Method) (ss, ps, os_ []int) {
		ss, ps, os_ = []int{0}, []int{0}, []int{0}
		if m.S {
			ss = seq(len(u.Nodes))
		}
		if m.P {
			ps = seq(len(u.CPreds))
		}
		if m.O {
			os_ = seq(len(u.Objs))
		}
		return
	}
	// (a) per method: all arguments x the whole grid of option shapes and pages
	for _, m := range storeops.Methods {
		h, pg, c := fresh(m.Name)
		ss, ps, os_ := args(m)
		for si, sv := range ss {
			// a new memoizing store for every value of the first argument that varies (the subject, else the predicate):
			// one store per method made traces of more than a million events, which TLC validates in one piece
			// (the cross-argument collisions are the matter of part (b) below, on one store)
			if si > 0 {
				h, pg, c = fresh(m.Name)
			}
			for pi, cp := range ps {
				if len(ss) == 1 && pi > 0 {
					h, pg, c = fresh(m.Name)
				}
				for _, ov := range os_ {
					if every > 1 && rng.Intn(every) != 0 {
						continue
					}
					for _, sh := range base {
						for _, pgn := range pages {
							issue(h, pg, c, m, sv, cp, ov, sh, pgn)
						}
					}
				}
			}
		}
	}
	// (b) across methods: ONE memoizing store answers every method with every argument tuple (a few option
	// shapes), once with the methods in the listed order and once reversed, so that two requests of
	// DIFFERENT methods mapped to one key (same argument UUIDs, e.g. a node and the object boxing it)
	// are exposed whichever of the two comes first.
	few := []shape{{ff: "predicate"}, {lo: 2, hi: 4, ff: "predicate"}, {fop: "isTemporal", ff: "predicate"}, {la: true, ff: "predicate"}}
	fewPages := [][2]int{{0, 0}, {1, 1}}
	for pass := 0; pass < 2; pass++ {
		ms := append([]storeops.Method{}, storeops.Methods...)
		if pass == 1 {
			for i, j := 0, len(ms)-1; i < j; i, j = i+1, j-1 {
				ms[i], ms[j] = ms[j], ms[i]
			}
		}
		h, pg, c := fresh("*")
		for _, sh := range few {
			for _, pgn := range fewPages {
				for _, m := range ms {
					ss, ps, os_ := args(m)
					for _, sv := range ss {
						for _, cp := range ps {
							for _, ov := range os_ {
								issue(h, pg, c, m, sv, cp, ov, sh, pgn)
								stats["key_cross_reads"]++
							}
						}
					}
				}
			}
		}
	}
}

func seq(n int) []int {
	r := make([]int, n)
	for i := range r {
		r[i] = i + 1
	}
	return r
}

func main() {
	if len(os.Args) < 2 {
		must(fmt.Errorf("usage: memodrv sched|seq ..."))
	}
	mode := os.Args[1]
	fl := flag.NewFlagSet(mode, flag.ExitOnError)
	up := fl.String("universe", "", "universe json")
	in := fl.String("in", "", "schedules ndjson (sched)")
	out := fl.String("out", "", "trace output")
	seed := fl.Int64("seed", 1, "seed")
	runs := fl.Int("runs", 10, "number of histories (seq)")
	steps := fl.Int("steps", 300, "operations per history (seq)")
	faults := fl.Bool("faults", false, "inject failing forwarded reads (seq)")
	every := fl.Int("every", 1, "keys: keep one argument tuple in N")
	statsOut := fl.String("stats", "", "stats json output")
	must(fl.Parse(os.Args[2:]))
	var err error
	u, err = uni.Load(*up)
	must(err)
	rng = rand.New(rand.NewSource(*seed))
	tw, err = trace.New(*out)
	must(err)
	switch mode {
	case "sched":
		runSchedules(*in)
	case "seq":
		runSeq(*runs, *steps, *faults)
	case "keys":
		runKeys(*every)
	default:
		must(fmt.Errorf("unknown mode %q", mode))
	}
	must(tw.Close())
	stats["events"] = tw.N
	if hookAvailable {
		stats["hook"] = 1
	}
	if *statsOut != "" {
		b, _ := json.Marshal(stats)
		must(os.WriteFile(*statsOut, b, 0o644))
	}
}
