// faultdrv executes BQL statements against a fault injecting storage driver (harness/faultstore, a pure
// implementation of storage.Store/Graph) and records what Executor.Execute did (C20).
//
//	faultdrv calls -corpus C -out calls.ndjson
//	    fault-free run of every statement of the corpus (direct and through the memoizing store): the
//	    sequence of driver calls it makes - the domain of the fault plans that TLC enumerates
//	faultdrv run -corpus C -plans plans.ndjson -out trace.ndjson [-stats S]
//	    executes every fault plan on a fresh store and writes the events Start, Call*, Return|Timeout, After
//	    that spec/FaultTrace.tla monitors
package main

import (
	"bufio"
	"context"
	"encoding/json"
	"flag"
	"fmt"
	"os"
	"regexp"
	"runtime"
	"sort"
	"strings"
	"time"

	"github.com/google/badwolf/bql/grammar"
	"github.com/google/badwolf/bql/planner"
	"github.com/google/badwolf/bql/semantic"
	"github.com/google/badwolf/bql/table"
	"github.com/google/badwolf/storage"
	"github.com/google/badwolf/storage/memoization"
	"github.com/google/badwolf/storage/memory"

	"verif/harness/faultstore"
	"verif/harness/trace"
)

type corpus struct {
	Setup      []string `json:"setup"`
	Statements []string `json:"statements"`
	ChanSize   int      `json:"chan_size"`
	BulkSize   int      `json:"bulk_size"`
}

type plan struct {
	Stmt int    `json:"stmt"` // 1-based index into the corpus
	Cfg  string `json:"cfg"`  // direct | memo
	At   int    `json:"at"`   // 1-based position in the fault-free call sequence (0 = no fault)
	Key  string `json:"key"`
	Occ  int    `json:"occ"`
	Meth string `json:"meth"`
	Kind string `json:"kind"`
	Mode string `json:"mode"` // before | after | write | none
	J    int    `json:"j"`
}

type callsRec struct {
	Stmt  int               `json:"stmt"`
	Cfg   string            `json:"cfg"`
	Text  string            `json:"text"`
	Ptype string            `json:"ptype"`
	Err   bool              `json:"err"`
	Rows  int               `json:"rows"`
	Calls []faultstore.Call `json:"calls"`
}

// event: every event carries every field.
type event struct {
	Ev     string   `json:"ev"` // Start | Call | Return | Timeout | After
	Run    int      `json:"run"`
	Stmt   int      `json:"stmt"`
	Cfg    string   `json:"cfg"`
	Ptype  string   `json:"ptype"`
	At     int      `json:"at"`
	Mode   string   `json:"mode"`
	J      int      `json:"j"`
	Meth   string   `json:"meth"`
	Kind   string   `json:"kind"`
	G      string   `json:"g"`
	Fail   bool     `json:"fail"`
	N      int      `json:"n"`
	Tbl    bool     `json:"tbl"`
	Rows   int      `json:"rows"`
	Err    bool     `json:"err"`
	Errt   string   `json:"errt"`
	Leaked int      `json:"leaked"`
	Where  []string `json:"where"` // "state @ innermost frame of the code under test" of every goroutine left
	Wst    []string `json:"wst"`   // its wait state (chan send, chan receive, select, ...)
	Wpkg   []string `json:"wpkg"`  // package of that frame (storage/memoization, bql/planner, ...)
}

var (
	ctx   = context.Background()
	cp    corpus
	tw    *trace.Writer
	stats = map[string]int{}
)

func must(err error) {
	if err != nil {
		fmt.Fprintln(os.Stderr, "faultdrv:", err)
		os.Exit(3)
	}
}

func mkPlan(st storage.Store, text string) (planner.Executor, error) {
	p, err := grammar.NewParser(grammar.SemanticBQL())
	if err != nil {
		return nil, err
	}
	stm := &semantic.Statement{}
	if err := p.Parse(grammar.NewLLk(text, 1), stm); err != nil {
		return nil, err
	}
	return planner.New(ctx, st, stm, cp.ChanSize, cp.BulkSize, nil)
}

// freshStore builds the initial state directly on a new in-memory store.
func freshStore() storage.Store {
	st := memory.NewStore()
	for _, s := range cp.Setup {
		pl, err := mkPlan(st, s)
		must(err)
		if _, err := pl.Execute(ctx); err != nil {
			must(fmt.Errorf("setup statement failed: %v", err))
		}
	}
	return st
}

func underTest(cfg string, fs *faultstore.Store) storage.Store {
	if cfg == "memo" {
		return memoization.New(fs)
	}
	return fs
}

// ---- goroutine accounting ---------------------------------------------------------------------------

var goHdr = regexp.MustCompile(`^goroutine (\d+) \[([^\]]*)\]`)

// badwolfGoroutines returns id -> "state @ innermost badwolf frame" of the goroutines that have a frame of
// the code under test on their stack.
func badwolfGoroutines() map[string]string {
	buf := make([]byte, 1<<20)
	for {
		n := runtime.Stack(buf, true)
		if n < len(buf) {
			buf = buf[:n]
			break
		}
		buf = make([]byte, 2*len(buf))
	}
	res := map[string]string{}
	for _, blk := range strings.Split(string(buf), "\n\n") {
		lines := strings.Split(blk, "\n")
		m := goHdr.FindStringSubmatch(lines[0])
		if m == nil {
			continue
		}
		frame := ""
		for _, l := range lines[1:] {
			if strings.HasPrefix(l, "github.com/google/badwolf/") {
				f := l
				if i := strings.LastIndex(f, "("); i > 0 {
					f = f[:i]
				}
				frame = strings.TrimPrefix(f, "github.com/google/badwolf/")
				break
			}
		}
		if frame != "" {
			st := m[2]
			if i := strings.Index(st, ","); i > 0 {
				st = st[:i] // drop "N minutes"
			}
			res[m[1]] = st + " @ " + frame
		}
	}
	return res
}

var ignored = map[string]bool{} // goroutines already reported as leaked by an earlier run

// settle waits until no goroutine of the code under test remains (other than already reported ones) and
// returns the ones that are still there after the bound.
func settle(bound time.Duration) []string {
	deadline := time.Now().Add(bound)
	d := 200 * time.Microsecond
	for {
		gs := badwolfGoroutines()
		var left []string
		for id, w := range gs {
			if !ignored[id] {
				left = append(left, id+" "+w)
			}
		}
		if len(left) == 0 {
			return nil
		}
		if time.Now().After(deadline) {
			sort.Strings(left)
			return left
		}
		time.Sleep(d)
		if d < 50*time.Millisecond {
			d *= 2
		}
	}
}

type result struct {
	tbl  *table.Table
	err  error
	pnc  string
	done bool
}

// execute runs the statement with a watchdog.
func execute(pl planner.Executor, bound time.Duration) result {
	ch := make(chan result, 1)
	go func() {
		defer func() {
			if r := recover(); r != nil {
				ch <- result{pnc: fmt.Sprint(r), done: true}
			}
		}()
		t, err := pl.Execute(ctx)
		ch <- result{tbl: t, err: err, done: true}
	}()
	select {
	case r := <-ch:
		return r
	case <-time.After(bound):
		return result{}
	}
}

var skipBad bool

func runCalls(out string) {
	w, err := trace.New(out)
	must(err)
	for _, cfg := range []string{"direct", "memo"} {
		for i, text := range cp.Statements {
			fs := faultstore.New(freshStore())
			pl, err := mkPlan(underTest(cfg, fs), text)
			if err != nil {
				if skipBad {
					continue // a generated candidate the parser or planner refuses: not part of the corpus
				}
				must(fmt.Errorf("corpus statement %d does not parse/plan: %v\n%s", i+1, err, text))
			}
			r := execute(pl, 20*time.Second)
			if !r.done {
				must(fmt.Errorf("corpus statement %d hangs without any fault: %s", i+1, text))
			}
			if left := settle(5 * time.Second); left != nil {
				must(fmt.Errorf("corpus statement %d leaves goroutines without any fault: %v", i+1, left))
			}
			rows := 0
			if r.tbl != nil {
				rows = r.tbl.NumRows()
			}
			calls := fs.Calls()
			if calls == nil {
				calls = []faultstore.Call{}
			}
			w.Emit(callsRec{Stmt: i + 1, Cfg: cfg, Text: text, Ptype: pl.Type(), Err: r.err != nil || r.pnc != "", Rows: rows, Calls: calls})
		}
	}
	must(w.Close())
}

func runPlans(plansPath string) {
	f, err := os.Open(plansPath)
	must(err)
	defer f.Close()
	sc := bufio.NewScanner(f)
	sc.Buffer(make([]byte, 1<<20), 1<<20)
	run := 0
	const watchdog = 15 * time.Second // a fault-free statement of the corpus takes well under a millisecond
	for sc.Scan() {
		if stats["timeouts"] >= 5 {
			// five statements already hung (each confirmed by a second attempt): the verdict is settled and every
			// further hang would cost two more watchdog periods
			stats["plans_skipped_after_5_timeouts"]++
			continue
		}
		var p plan
		must(json.Unmarshal(sc.Bytes(), &p))
		run++
		text := cp.Statements[p.Stmt-1]
		var fs *faultstore.Store
		var pl planner.Executor
		var r result
		for attempt := 0; attempt < 2; attempt++ {
			fs = faultstore.New(freshStore())
			if p.At > 0 {
				fs.Reset(&faultstore.Plan{Key: p.Key, Occ: p.Occ, Mode: p.Mode, J: p.J})
			}
			pl, err = mkPlan(underTest(p.Cfg, fs), text)
			must(err)
			r = execute(pl, watchdog)
			if r.done {
				break
			}
			// the watchdog fired: whatever is still running belongs to this attempt
			for id := range badwolfGoroutines() {
				ignored[id] = true
			}
			stats["watchdog_fired"]++
		}
		base := event{Run: run, Stmt: p.Stmt, Cfg: p.Cfg, Ptype: pl.Type(), At: p.At, Mode: p.Mode, J: p.J, Where: []string{}, Wst: []string{}, Wpkg: []string{}}
		e := base
		e.Ev, e.Meth, e.Kind = "Start", p.Meth, p.Kind
		tw.Emit(e)
		for _, c := range fs.Calls() {
			e = base
			e.Ev, e.Meth, e.Kind, e.G, e.Fail, e.N = "Call", c.Method, c.Kind, c.Graph, c.Failed, c.Delivered
			tw.Emit(e)
		}
		e = base
		if !r.done {
			e.Ev = "Timeout"
			tw.Emit(e)
			stats["timeouts"]++
		} else {
			e.Ev = "Return"
			e.Tbl = r.tbl != nil
			if r.tbl != nil {
				e.Rows = r.tbl.NumRows()
			}
			e.Err = r.err != nil
			if r.err != nil {
				e.Errt = r.err.Error()
				if len(e.Errt) > 160 {
					e.Errt = e.Errt[:160]
				}
			}
			if r.pnc != "" {
				e.Ev, e.Errt = "Panic", r.pnc
			}
			tw.Emit(e)
		}
		// a goroutine of a finished statement ends within microseconds; one that is still there after
		// a second (looked at twice) is waiting for something that will not come
		left := settle(time.Second)
		if left != nil {
			left = settle(time.Second)
		}
		e = base
		e.Ev, e.Leaked = "After", len(left)
		for _, l := range left {
			id := strings.SplitN(l, " ", 2)
			ignored[id[0]] = true
			e.Where = append(e.Where, id[1])
			sf := strings.SplitN(id[1], " @ ", 2)
			pkg := sf[1]
			if i := strings.LastIndex(pkg, "/"); i >= 0 {
				if k := strings.Index(pkg[i:], "."); k >= 0 {
					pkg = pkg[:i+k]
				}
			} else if k := strings.Index(pkg, "."); k >= 0 {
				pkg = pkg[:k]
			}
			e.Wst = append(e.Wst, sf[0])
			e.Wpkg = append(e.Wpkg, pkg)
		}
		tw.Emit(e)
		stats["runs"]++
		if fs.FaultHit() {
			stats["faults_hit"]++
		}
		stats["ptype:"+pl.Type()]++
	}
	must(sc.Err())
}

func main() {
	if len(os.Args) < 2 {
		must(fmt.Errorf("usage: faultdrv calls|run ..."))
	}
	mode := os.Args[1]
	fl := flag.NewFlagSet(mode, flag.ExitOnError)
	cpath := fl.String("corpus", "", "corpus json")
	plans := fl.String("plans", "", "fault plans ndjson (run)")
	out := fl.String("out", "", "output")
	statsOut := fl.String("stats", "", "stats json output")
	fl.BoolVar(&skipBad, "skip-bad", false, "calls: skip statements that do not parse/plan instead of stopping")
	must(fl.Parse(os.Args[2:]))
	b, err := os.ReadFile(*cpath)
	must(err)
	must(json.Unmarshal(b, &cp))
	// the library's own permanent goroutines (tracer, blank node id generator) are not the statement's
	mkPlan(memory.NewStore(), "show graphs;")
	for id := range badwolfGoroutines() {
		ignored[id] = true
	}
	switch mode {
	case "calls":
		runCalls(*out)
	case "run":
		tw, err = trace.New(*out)
		must(err)
		runPlans(*plans)
		must(tw.Close())
		stats["events"] = tw.N
	default:
		must(fmt.Errorf("unknown mode %q", mode))
	}
	if *statsOut != "" {
		b, _ := json.Marshal(stats)
		must(os.WriteFile(*statsOut, b, 0o644))
	}
}
