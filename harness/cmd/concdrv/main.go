// concdrv drives the REAL in-memory store from several goroutines (built with -race) and records what it did
// as ndjson for spec/ConcTrace.tla (C07).
//
//	concdrv small    -universe U -out T -runs N [-seed S]
//	    many SMALL histories (2-4 goroutines x 1-4 operations on one store) with invoke/return events stamped by
//	    a global atomic counter: TLC searches a linearisation of each one
//	concdrv targeted -universe U -out T
//	    deterministic schedules that need no hook: a lookup is parked inside its critical section by not
//	    draining its (unbuffered) result channel while another call runs / while its options value is inspected
//	concdrv hammer   -universe U -out T -runs N   2-8 goroutines x 400 LatestAnchor lookups through one shared options value
//	concdrv stress   -universe U -out T -runs N [-seed S]
//	    long runs of 2-8 goroutines x 50-500 operations (graph operations, store operations, shared options,
//	    BQL statements on the same store) for the race detector, panics, dead-locks and channel closing
//
// Data races are reported by the race detector on stderr / GORACE log_path; lib/fam_conc.py turns the reports
// into Race events.
package main

import (
	"context"
	"encoding/json"
	"flag"
	"fmt"
	"math/rand"
	"os"
	"runtime"
	"runtime/debug"
	"sort"
	"strings"
	"sync"
	"sync/atomic"
	"time"

	"github.com/google/badwolf/bql/grammar"
	"github.com/google/badwolf/bql/planner"
	"github.com/google/badwolf/bql/semantic"
	"github.com/google/badwolf/storage"
	"github.com/google/badwolf/storage/memory"
	"github.com/google/badwolf/triple"
	"github.com/google/badwolf/triple/node"
	"github.com/google/badwolf/triple/predicate"

	"verif/harness/storeops"
	"verif/harness/trace"
	"verif/harness/uni"
)

// event: every event carries every field (spec/ConcTrace.tla).
type event struct {
	Ev     string     `json:"ev"` // Reset inv ret Info BatchObs | Race Panic Timeout DoubleClose NeverClosed OptionsChanged
	Run    int        `json:"run"`
	Len    int        `json:"len"` // Reset: number of events of the history that follow
	P      int        `json:"p"`
	Op     string     `json:"op"` // Add Remove Exist Lookup NewGraph Graph DeleteGraph GraphNames
	G      string     `json:"g"`
	B      []int      `json:"b"`
	T      int        `json:"t"`
	Q      storeops.Q `json:"q"`
	So     int        `json:"so"` // id of the shared options value used (0 = a private value)
	Res    []int      `json:"res"`
	Names  []string   `json:"names"`
	Ok     bool       `json:"ok"`
	Err    bool       `json:"err"`
	C      []int      `json:"c"`  // Reset: content of ?g1
	Gs     []string   `json:"gs"` // Reset: existing graphs
	F1     string     `json:"f1"`
	F2     string     `json:"f2"`
	Pk1    string     `json:"pk1"`
	Pk2    string     `json:"pk2"`
	S1     string     `json:"s1"` // Race: what the racing statement touches (lo.FilterOptions | filterOptions. | "")
	S2     string     `json:"s2"`
	Shared bool       `json:"shared"`
	Info   string     `json:"info"`
	seq    int64
}

func blank(ev string, run int) event {
	return event{Ev: ev, Run: run, B: []int{}, Res: []int{}, Names: []string{}, C: []int{}, Gs: []string{}}
}

var (
	ctx   = context.Background()
	u     *uni.Universe
	tw    *trace.Writer
	stats = map[string]int{}
	ctr   int64
)

const g1 = "?g1"

func must(err error) {
	if err != nil {
		fmt.Fprintln(os.Stderr, "concdrv:", err)
		os.Exit(3)
	}
}

func stamp() int64 { return atomic.AddInt64(&ctr, 1) }

// sharedOptions allocates the options value that several goroutines pass to their lookups (the allocation
// site names the value in race reports).
//
//go:noinline
func sharedOptions(q *storeops.Q) *storage.LookupOptions { return storeops.Options(u, q) }

// ---- one lookup with channel observation -------------------------------------------------------------------

type lres struct {
	res      []int
	err      bool
	closed   bool   // the callee closed the channel
	panicked string // recovered panic of the call
}

type callRes struct {
	err error
	pnc string
}

// consume receives from the UNBUFFERED result channel until the callee closes it. If the call returns and the
// channel is still open (every send of an unbuffered channel has completed by then) the channel was never closed.
func consume[T any](ch chan T, done chan callRes, conv func(T) int, after func()) (res []int, closed bool, cr callRes) {
	res = []int{}
	for {
		select {
		case x, ok := <-ch:
			if !ok {
				return res, true, <-done
			}
			res = append(res, conv(x))
			after()
		case cr = <-done:
			select {
			case _, ok := <-ch:
				return res, !ok, cr
			default:
				return res, false, cr
			}
		}
	}
}

// lookup runs q on g with options lo over an UNBUFFERED channel; the consumer yields between receives so that the
// lookup stays inside its critical section for a while. gate, if non-nil, is called after the first element.
func lookup(g storage.Graph, q *storeops.Q, lo *storage.LookupOptions, gate func()) (r lres) {
	var s *node.Node
	var p *predicate.Predicate
	var o *triple.Object
	if q.S > 0 {
		s = u.Node(q.S)
	}
	if q.CP > 0 {
		p = u.CPred(q.CP)
	}
	if q.O > 0 {
		o = u.Obj(q.O)
	}
	done := make(chan callRes, 1)
	guard := func(f func() error) {
		go func() {
			var cr callRes
			defer func() {
				if x := recover(); x != nil {
					cr.pnc = fmt.Sprintf("%v\n%s", x, debug.Stack())
				}
				done <- cr
			}()
			cr.err = f()
		}()
	}
	first := true
	after := func() {
		if first && gate != nil {
			gate()
		}
		first = false
		runtime.Gosched()
	}
	var cr callRes
	switch q.C {
	case "o":
		ch := make(chan *triple.Object)
		guard(func() error { return g.Objects(ctx, s, p, lo, ch) })
		r.res, r.closed, cr = consume(ch, done, u.ObjID, after)
	case "s":
		ch := make(chan *node.Node)
		guard(func() error { return g.Subjects(ctx, p, o, lo, ch) })
		r.res, r.closed, cr = consume(ch, done, u.NodeID, after)
	case "p":
		ch := make(chan *predicate.Predicate)
		guard(func() error {
			switch q.M {
			case "PredicatesForSubject":
				return g.PredicatesForSubject(ctx, s, lo, ch)
			case "PredicatesForObject":
				return g.PredicatesForObject(ctx, o, lo, ch)
			}
			return g.PredicatesForSubjectAndObject(ctx, s, o, lo, ch)
		})
		r.res, r.closed, cr = consume(ch, done, u.PredID, after)
	default:
		ch := make(chan *triple.Triple)
		guard(func() error {
			switch q.M {
			case "TriplesForSubject":
				return g.TriplesForSubject(ctx, s, lo, ch)
			case "TriplesForPredicate":
				return g.TriplesForPredicate(ctx, p, lo, ch)
			case "TriplesForObject":
				return g.TriplesForObject(ctx, o, lo, ch)
			case "TriplesForSubjectAndPredicate":
				return g.TriplesForSubjectAndPredicate(ctx, s, p, lo, ch)
			case "TriplesForPredicateAndObject":
				return g.TriplesForPredicateAndObject(ctx, p, o, lo, ch)
			}
			return g.Triples(ctx, lo, ch)
		})
		r.res, r.closed, cr = consume(ch, done, u.TripleID, after)
	}
	r.err = cr.err != nil
	r.panicked = cr.pnc
	return r
}

func optsEqual(a, b *storage.LookupOptions) bool {
	if a.MaxElements != b.MaxElements || a.Offset != b.Offset || a.LatestAnchor != b.LatestAnchor {
		return false
	}
	if (a.LowerAnchor == nil) != (b.LowerAnchor == nil) || (a.UpperAnchor == nil) != (b.UpperAnchor == nil) {
		return false
	}
	if a.LowerAnchor != nil && !a.LowerAnchor.Equal(*b.LowerAnchor) {
		return false
	}
	if a.UpperAnchor != nil && !a.UpperAnchor.Equal(*b.UpperAnchor) {
		return false
	}
	if (a.FilterOptions == nil) != (b.FilterOptions == nil) {
		return false
	}
	if a.FilterOptions != nil && *a.FilterOptions != *b.FilterOptions {
		return false
	}
	return true
}

// ---- operations of the small histories -------------------------------------------------------------------------

type op struct {
	kind string
	g    string
	b    []int
	t    int
	q    storeops.Q
	so   int
}

func canonCP(abs int) int {
	for i, c := range u.CPreds {
		if c.Abs == abs {
			return i + 1
		}
	}
	return 0
}

func randLookup(rng *rand.Rand) storeops.Q {
	m := storeops.Methods[rng.Intn(len(storeops.Methods))]
	q := storeops.Q{M: m.Name, C: m.C, Ff: "predicate", Canon: true}
	t := u.Triples[rng.Intn(len(u.Triples))] // arguments of a triple of the universe: answers are often non-empty
	if m.S {
		q.S = t.S
	}
	if m.P {
		q.P = t.P
		q.CP = canonCP(t.P)
	}
	if m.O {
		q.O = t.O
	}
	switch rng.Intn(6) {
	case 0:
		q.Lo = 1 + rng.Intn(len(u.Instants))
	case 1:
		q.Hi = 1 + rng.Intn(len(u.Instants))
	case 2:
		q.Fop = []string{"latest", "isTemporal", "isImmutable"}[rng.Intn(3)]
		q.Ff = []string{"predicate", "object"}[rng.Intn(2)]
	}
	return q
}

func randOps(rng *rand.Rand, n int, sharedQ *storeops.Q) []op {
	ops := make([]op, 0, n)
	for len(ops) < n {
		r := rng.Intn(100)
		switch {
		case r < 25:
			k := 1 + rng.Intn(6)
			b := make([]int, k)
			for i := range b {
				b[i] = 1 + rng.Intn(u.NT())
			}
			ops = append(ops, op{kind: "Add", g: g1, b: b})
		case r < 40:
			k := rng.Intn(4)
			b := make([]int, k)
			for i := range b {
				b[i] = 1 + rng.Intn(u.NT())
			}
			ops = append(ops, op{kind: "Remove", g: g1, b: b})
		case r < 50:
			ops = append(ops, op{kind: "Exist", g: g1, t: 1 + rng.Intn(u.NT())})
		case r < 72:
			ops = append(ops, op{kind: "Lookup", g: g1, q: randLookup(rng)})
		case r < 80:
			q := randLookup(rng)
			q.Lo, q.Hi, q.Fop, q.Ff, q.La = 0, 0, "", "predicate", true
			if rng.Intn(5) == 0 {
				q.Fop = "isTemporal" // LatestAnchor together with a filter: the lookup's error path
			}
			ops = append(ops, op{kind: "Lookup", g: g1, q: q})
		case r < 86:
			if sharedQ != nil {
				ops = append(ops, op{kind: "Lookup", g: g1, q: *sharedQ, so: 1})
			}
		default:
			gn := []string{"?g2", "?g3"}[rng.Intn(2)]
			ops = append(ops, op{kind: []string{"NewGraph", "Graph", "DeleteGraph", "GraphNames"}[rng.Intn(4)], g: gn})
		}
	}
	return ops
}

// perform executes one operation and returns its inv and ret events (and any event Layer A never accepts).
func perform(run, p int, st storage.Store, h storage.Graph, o op, shared *storage.LookupOptions) []event {
	inv := blank("inv", run)
	inv.P, inv.Op, inv.G, inv.B, inv.T, inv.Q, inv.So = p, o.kind, o.g, trace.Ints(o.b), o.t, o.q, o.so
	var extra []event
	inv.seq = stamp()
	switch o.kind {
	case "Add":
		inv.Ok = h.AddTriples(ctx, storeops.Batch(u, o.b)) == nil
	case "Remove":
		inv.Ok = h.RemoveTriples(ctx, storeops.Batch(u, o.b)) == nil
	case "Exist":
		ok, err := h.Exist(ctx, u.Triple(o.t))
		inv.Ok, inv.Err = ok, err != nil
	case "Lookup":
		lo := shared
		var snap storage.LookupOptions
		if o.so == 0 {
			lo = storeops.Options(u, &o.q)
			snap = *lo
			if lo.FilterOptions != nil {
				c := *lo.FilterOptions
				snap.FilterOptions = &c
			}
		}
		r := lookup(h, &o.q, lo, nil)
		inv.Res, inv.Err = r.res, r.err
		if r.panicked != "" {
			e := blank("Panic", run)
			e.P, e.Q, e.So, e.Shared, e.Info = p, o.q, o.so, o.so != 0, firstLines(r.panicked, 12)
			e.F1, e.Pk1 = panicFrame(r.panicked)
			if strings.Contains(r.panicked, "close of closed channel") {
				e.Ev = "DoubleClose"
			}
			extra = append(extra, e)
		}
		if !r.closed && r.panicked == "" {
			e := blank("NeverClosed", run)
			e.P, e.Q, e.So, e.Info = p, o.q, o.so, fmt.Sprintf("%s returned (error=%v) and left its result channel open", o.q.M, r.err)
			extra = append(extra, e)
		}
		if o.so == 0 && !optsEqual(lo, &snap) {
			e := blank("OptionsChanged", run)
			e.P, e.Q, e.Info = p, o.q, "options value differs after the lookup returned"
			extra = append(extra, e)
		}
	case "NewGraph":
		_, err := st.NewGraph(ctx, o.g)
		inv.Ok = err == nil
	case "Graph":
		_, err := st.Graph(ctx, o.g)
		inv.Ok = err == nil
	case "DeleteGraph":
		inv.Ok = st.DeleteGraph(ctx, o.g) == nil
	case "GraphNames":
		ch := make(chan string)
		errc := make(chan error, 1)
		go func() { errc <- st.GraphNames(ctx, ch) }()
		names := []string{}
		for n := range ch {
			names = append(names, n)
			runtime.Gosched()
		}
		inv.Err = <-errc != nil
		sort.Strings(names)
		inv.Names = names
	}
	ret := blank("ret", run)
	ret.P, ret.Op = p, o.kind
	ret.seq = stamp()
	for i := range extra {
		extra[i].seq = stamp()
	}
	return append([]event{inv, ret}, extra...)
}

func firstLines(s string, n int) string {
	l := strings.Split(s, "\n")
	if len(l) > n {
		l = l[:n]
	}
	return strings.Join(l, " | ")
}

// panicFrame returns function and package of the innermost badwolf frame of a recovered panic's stack.
func panicFrame(stack string) (string, string) {
	for _, l := range strings.Split(stack, "\n") {
		if strings.HasPrefix(l, "github.com/google/badwolf/") {
			f := strings.TrimPrefix(l, "github.com/google/badwolf/")
			if i := strings.LastIndex(f, "("); i > 0 {
				f = f[:i]
			}
			return splitFn(f)
		}
	}
	return "", ""
}

// splitFn("storage/memory.(*memory).Objects.func1") = ("Objects", "storage/memory")
func splitFn(f string) (string, string) {
	pkg, rest := f, ""
	if i := strings.LastIndex(f, "/"); i >= 0 {
		if k := strings.Index(f[i:], "."); k >= 0 {
			pkg, rest = f[:i+k], f[i+k+1:]
		}
	} else if k := strings.Index(f, "."); k >= 0 {
		pkg, rest = f[:k], f[k+1:]
	}
	parts := strings.Split(rest, ".")
	fn := ""
	for _, x := range parts {
		if strings.HasPrefix(x, "(") || strings.HasPrefix(x, "func") || x == "" || (x[0] >= '0' && x[0] <= '9') {
			continue
		}
		fn = x
		break
	}
	return fn, pkg
}

func listing(g storage.Graph) []int {
	q := storeops.Q{M: "Triples", C: "t", Ff: "predicate", Canon: true}
	r := lookup(g, &q, &storage.LookupOptions{}, nil)
	sort.Ints(r.res)
	return r.res
}

func emitHistory(run int, gs []string, c []int, evs []event) {
	sort.Slice(evs, func(i, j int) bool { return evs[i].seq < evs[j].seq })
	r := blank("Reset", run)
	r.Len, r.Gs, r.C = len(evs), gs, trace.Ints(c)
	tw.Emit(r)
	for _, e := range evs {
		tw.Emit(e)
	}
}

// ---- small histories ------------------------------------------------------------------------------------------------

func runSmall(runs int, seed int64) {
	for run := 1; run <= runs; run++ {
		rng := rand.New(rand.NewSource(seed*1000003 + int64(run)))
		for attempt := 0; ; attempt++ {
			evs, gs, c, ok := oneSmall(run, rng.Int63())
			if ok {
				emitHistory(run, gs, c, evs)
				break
			}
			stats["watchdog_fired"]++
			smallStore = nil
			if attempt == 1 {
				e := blank("Timeout", run)
				e.Info = "small history did not finish within 10 s (twice)"
				emitHistory(run, gs, c, []event{e})
				stats["timeouts"]++
				return // goroutines of the run are still stuck: nothing sound can follow
			}
		}
		stats["runs"]++
	}
}

var smallStore storage.Store

func oneSmall(run int, seed int64) ([]event, []string, []int, bool) {
	rng := rand.New(rand.NewSource(seed))
	// one store serves all histories (memory.NewGraph pre-allocates ~2 MB): bring it to the initial state
	if smallStore == nil {
		smallStore = memory.NewStore()
		_, err := smallStore.NewGraph(ctx, g1)
		must(err)
	}
	st := smallStore
	h0, err := st.Graph(ctx, g1)
	must(err)
	must(h0.RemoveTriples(ctx, storeops.Batch(u, listing(h0))))
	for _, n := range []string{"?g2", "?g3"} {
		if _, err := st.Graph(ctx, n); err == nil {
			must(st.DeleteGraph(ctx, n))
		}
	}
	gs := []string{g1}
	if rng.Intn(3) == 0 {
		_, err := st.NewGraph(ctx, "?g2")
		must(err)
		gs = append(gs, "?g2")
	}
	var init []int
	for i := 1; i <= u.NT(); i++ {
		if rng.Intn(100) < 45 {
			init = append(init, i)
		}
	}
	must(h0.AddTriples(ctx, storeops.Batch(u, init)))
	c := listing(h0)
	ng := 2 + rng.Intn(3)
	var sharedQ *storeops.Q
	var shared *storage.LookupOptions
	if rng.Intn(2) == 0 {
		q := randLookup(rng)
		q.Lo, q.Hi, q.Fop, q.Ff, q.La = 0, 0, "", "predicate", true
		sharedQ = &q
		shared = sharedOptions(&q)
	}
	progs := make([][]op, ng)
	for i := range progs {
		progs[i] = randOps(rng, 1+rng.Intn(4), sharedQ)
	}
	out := make([][]event, ng)
	var wg sync.WaitGroup
	start := make(chan struct{})
	for i := 0; i < ng; i++ {
		h, err := st.Graph(ctx, g1)
		must(err)
		wg.Add(1)
		go func(i int, h storage.Graph) {
			defer wg.Done()
			<-start
			for _, o := range progs[i] {
				out[i] = append(out[i], perform(run, i+1, st, h, o, shared)...)
			}
		}(i, h)
	}
	close(start)
	fin := make(chan struct{})
	go func() { wg.Wait(); close(fin) }()
	select {
	case <-fin:
	case <-time.After(10 * time.Second): // a history takes well under a millisecond
		return nil, gs, c, false
	}
	var evs []event
	for _, l := range out {
		evs = append(evs, l...)
	}
	for _, e := range evs {
		if e.Ev == "inv" {
			stats["op:"+e.Op]++
		}
	}
	return evs, gs, c, true
}

// ---- targeted schedules ------------------------------------------------------------------------------------------------

func runTargeted() {
	run := 0
	// content with several temporal predicates so that a LatestAnchor listing has more than one element
	all := make([]int, u.NT())
	for i := range all {
		all[i] = i + 1
	}
	q := storeops.Q{M: "Triples", C: "t", Ff: "predicate", Canon: true, La: true}
	for _, m := range storeops.Methods {
		// T1: one caller. The lookup is parked after its first element (unbuffered channel, not drained): the
		// caller looks at its own options value - ordered after the lookup's writes by the channel receive.
		run++
		st := memory.NewStore()
		h, err := st.NewGraph(ctx, g1)
		must(err)
		must(h.AddTriples(ctx, storeops.Batch(u, all)))
		c := listing(h)
		mq := q
		mq.M, mq.C = m.Name, m.C
		// arguments for which the fault-free LatestAnchor answer has at least two elements: only then is the
		// lookup still parked (on its second send) while the caller looks, and the look is ordered after the
		// lookup's writes by the first receive. Methods without such arguments in the universe are skipped.
		found := false
		for _, t := range u.Triples {
			cq := mq
			if m.S {
				cq.S = t.S
			}
			if m.P {
				cq.P, cq.CP = t.P, canonCP(t.P)
			}
			if m.O {
				cq.O = t.O
			}
			if r := lookup(h, &cq, storeops.Options(u, &cq), nil); !r.err && len(r.res) >= 2 {
				mq, found = cq, true
				break
			}
		}
		if !found {
			stats["targeted_methods_skipped"]++
			run--
			continue
		}
		lo := storeops.Options(u, &mq)
		snap := *lo
		var evs []event
		inv := blank("inv", run)
		inv.P, inv.Op, inv.G, inv.Q = 1, "Lookup", g1, mq
		inv.seq = stamp()
		changed := false
		r := lookup(h, &mq, lo, func() {
			if !optsEqual(lo, &snap) {
				changed = true
			}
		})
		inv.Res, inv.Err = r.res, r.err
		evs = append(evs, inv)
		if changed {
			e := blank("OptionsChanged", run)
			e.P, e.Q, e.Info = 1, mq, "FilterOptions of the caller's value is set while the lookup is parked on its first send"
			e.seq = stamp()
			evs = append(evs, e)
			stats["t1_options_changed"]++
		}
		if len(r.res) == 0 {
			stats["t1_empty_answer"]++
		}
		ret := blank("ret", run)
		ret.P, ret.Op = 1, "Lookup"
		ret.seq = stamp()
		evs = append(evs, ret)
		emitHistory(run, []string{g1}, c, evs)
		stats["runs"]++

		// T2: two callers share ONE options value. A is parked after its first element, B runs to completion
		// meanwhile (ordered by the channel receive: no data race), then A is drained.
		run++
		lo2 := sharedOptions(&mq)
		var evs2 []event
		invA := blank("inv", run)
		invA.P, invA.Op, invA.G, invA.Q, invA.So = 1, "Lookup", g1, mq, 1
		invA.seq = stamp()
		var invB, retB event
		rA := lookup(h, &mq, lo2, func() {
			invB = blank("inv", run)
			invB.P, invB.Op, invB.G, invB.Q, invB.So = 2, "Lookup", g1, mq, 1
			invB.seq = stamp()
			rB := lookup(h, &mq, lo2, nil)
			invB.Res, invB.Err = rB.res, rB.err
			retB = blank("ret", run)
			retB.P, retB.Op = 2, "Lookup"
			retB.seq = stamp()
			if rB.err {
				stats["t2_spurious_error"]++
			}
		})
		invA.Res, invA.Err = rA.res, rA.err
		retA := blank("ret", run)
		retA.P, retA.Op = 1, "Lookup"
		retA.seq = stamp()
		evs2 = append(evs2, invA, retA)
		if invB.Ev != "" {
			evs2 = append(evs2, invB, retB)
		}
		emitHistory(run, []string{g1}, c, evs2)
		stats["runs"]++
	}
}

// ---- stress ------------------------------------------------------------------------------------------------------------------

func bql(st storage.Store, text string) error {
	p, err := grammar.NewParser(grammar.SemanticBQL())
	if err != nil {
		return err
	}
	stm := &semantic.Statement{}
	if err := p.Parse(grammar.NewLLk(text, 1), stm); err != nil {
		return fmt.Errorf("parse: %v", err)
	}
	pl, err := planner.New(ctx, st, stm, 2, 3, nil)
	if err != nil {
		return err
	}
	_, err = pl.Execute(ctx)
	return err
}

var bqlStatements = []string{
	`insert data into ?g1 {/u<a> "p"@[] /u<b> . /u<x%d> "knows"@[] /u<a>};`,
	`delete data from ?g1 {/u<x%d> "knows"@[] /u<a>};`,
	`select ?s, ?p, ?o from ?g1 where {?s ?p ?o};`,
	`select ?s, ?o from ?g1 where {?s "knows"@[] ?o . ?o "p"@[] ?z};`,
	`select ?s, count(?o) as ?n from ?g1 where {?s ?p ?o} group by ?s;`,
	`select ?p, ?o from ?g1 where {/u<a> ?p ?o . FILTER latest(?p)};`,
	`construct {?s "known_by"@[] ?o} into ?gb from ?g1 where {?o "knows"@[] ?s};`,
	`deconstruct {?s "known_by"@[] ?o} in ?gb from ?g1 where {?o "knows"@[] ?s};`,
	`insert data into ?g1, ?gb {/u<x%d> "knows"@[] /u<b>};`,
	`show graphs;`,
	`create graph ?gc%d;`,
	`drop graph ?gc%d;`,
}

func runStress(runs int, seed int64) {
	// every statement of the list must parse on its own, sequentially: otherwise the list is wrong (harness error)
	for _, s := range bqlStatements {
		if strings.Contains(s, "%d") {
			s = fmt.Sprintf(s, 1)
		}
		p, err := grammar.NewParser(grammar.SemanticBQL())
		must(err)
		if err := p.Parse(grammar.NewLLk(s, 1), &semantic.Statement{}); err != nil {
			must(fmt.Errorf("stress statement does not parse: %s: %v", s, err))
		}
	}
	for run := 1; run <= runs; run++ {
		rng := rand.New(rand.NewSource(seed*7919 + int64(run)))
		st := memory.NewStore()
		h0, err := st.NewGraph(ctx, g1)
		must(err)
		_, err = st.NewGraph(ctx, "?gb")
		must(err)
		var init []int
		for i := 1; i <= u.NT(); i++ {
			if rng.Intn(2) == 0 {
				init = append(init, i)
			}
		}
		must(h0.AddTriples(ctx, storeops.Batch(u, init)))
		// every third run: the goroutines work through handles of a graph that another goroutine keeps dropping and
		// creating again (a handle outlives its graph: what it then reads or writes is not judged, that nothing
		// panics, races or blocks is)
		target := g1
		dropped := run%3 == 0
		if dropped {
			target = "?gd"
			hd, err := st.NewGraph(ctx, target)
			must(err)
			must(hd.AddTriples(ctx, storeops.Batch(u, init)))
		}
		ng := 2 + rng.Intn(7)
		nops := 50 + rng.Intn(451)
		q := randLookup(rng)
		q.Lo, q.Hi, q.Fop, q.Ff, q.La = 0, 0, "", "predicate", true
		shared := sharedOptions(&q)
		var mu sync.Mutex
		var bad []event
		var wg sync.WaitGroup
		var nlook, nclosed, nbql, nbqlerr, nops64 int64
		if dropped {
			wg.Add(1)
			go func() {
				defer wg.Done()
				for k := 0; k < 30+nops/10; k++ {
					_ = st.DeleteGraph(ctx, target)
					runtime.Gosched()
					_, _ = st.NewGraph(ctx, target)
					runtime.Gosched()
				}
			}()
			stats["stress_runs_on_dropped_graph"]++
		}
		for i := 0; i < ng; i++ {
			h, err := st.Graph(ctx, target)
			if err != nil {
				// dropped at this moment by the goroutine above: take the handle of a new one
				h, err = st.NewGraph(ctx, fmt.Sprintf("%sx%d", target, i))
			}
			must(err)
			wg.Add(1)
			go func(i int, h storage.Graph, seed int64) {
				defer wg.Done()
				defer func() {
					if x := recover(); x != nil {
						e := blank("Panic", run)
						e.P, e.Info = i+1, firstLines(fmt.Sprintf("%v\n%s", x, debug.Stack()), 12)
						e.F1, e.Pk1 = panicFrame(string(debug.Stack()))
						mu.Lock()
						bad = append(bad, e)
						mu.Unlock()
					}
				}()
				r := rand.New(rand.NewSource(seed))
				for k := 0; k < nops; k++ {
					atomic.AddInt64(&nops64, 1)
					if r.Intn(100) < 12 {
						s := bqlStatements[r.Intn(len(bqlStatements))]
						if strings.Contains(s, "%d") {
							s = fmt.Sprintf(s, r.Intn(4))
						}
						atomic.AddInt64(&nbql, 1)
						if err := bql(st, s); err != nil {
							if strings.HasPrefix(err.Error(), "parse:") {
								// every statement of the list parses on its own (checked at start-up): a parse error here
								// is an answer no sequential execution gives - an observation, not a harness error
								e := blank("Panic", run)
								e.P, e.Info = i+1, firstLines("statement rejected by the parser only when parsed concurrently: "+s+": "+err.Error(), 3)
								e.F1, e.Pk1 = "bql/grammar.(*Parser).Parse", "grammar"
								mu.Lock()
								bad = append(bad, e)
								mu.Unlock()
								continue
							}
							atomic.AddInt64(&nbqlerr, 1) // e.g. dropping a graph another goroutine just dropped
						}
						continue
					}
					o := randOps(r, 1, &q)[0]
					if o.kind == "Lookup" {
						atomic.AddInt64(&nlook, 1)
					}
					evs := perform(run, i+1, st, h, o, shared)
					if o.kind == "Lookup" {
						atomic.AddInt64(&nclosed, 1) // perform returned: the range over the channel ended
					}
					for _, e := range evs[2:] {
						if o.so != 0 || o.q.La {
							e.Shared = true
						}
						mu.Lock()
						bad = append(bad, e)
						mu.Unlock()
					}
				}
			}(i, h, rng.Int63())
		}
		fin := make(chan struct{})
		go func() { wg.Wait(); close(fin) }()
		timedOut := false
		select {
		case <-fin:
		case <-time.After(300 * time.Second): // a run takes a few hundred milliseconds under -race
			timedOut = true
		}
		info := blank("Info", run)
		info.Info = fmt.Sprintf("goroutines=%d ops=%d lookups=%d closed=%d bql=%d bql_errors=%d", ng, nops64, nlook, nclosed, nbql, nbqlerr)
		evs := []event{info}
		if timedOut {
			e := blank("Timeout", run)
			e.Info = "stress run did not finish within 300 s: " + info.Info
			evs = append(evs, e)
		}
		for i := range bad {
			bad[i].seq = int64(i + 2)
		}
		info.seq = 1
		evs[0] = info
		evs = append(evs, bad...)
		emitHistory(run, []string{g1, "?gb"}, []int{}, evs)
		stats["runs"]++
		stats["stress_ops"] += int(nops64)
		stats["stress_lookups"] += int(nlook)
		stats["stress_bql"] += int(nbql)
		stats["stress_goroutines"] += ng
		if timedOut {
			stats["timeouts"]++
			return
		}
	}
}

// runHammer: G goroutines do nothing but LatestAnchor lookups through ONE shared options value (the Layer B
// counterexamples of ConcStore.tla: spurious error, un-filtered answer, nil dereference between the two reads of
// lo.FilterOptions). Events Layer A does not accept are logged; the answers themselves are summarised.
func runHammer(runs int, seed int64) {
	all := make([]int, u.NT())
	for i := range all {
		all[i] = i + 1
	}
	for run := 1; run <= runs; run++ {
		rng := rand.New(rand.NewSource(seed*104729 + int64(run)))
		st := memory.NewStore()
		h0, err := st.NewGraph(ctx, g1)
		must(err)
		must(h0.AddTriples(ctx, storeops.Batch(u, all)))
		q := storeops.Q{M: "Triples", C: "t", Ff: "predicate", Canon: true, La: true}
		shared := sharedOptions(&q)
		want := lookup(h0, &q, storeops.Options(u, &q), nil)
		ng := 2 + rng.Intn(7)
		var mu sync.Mutex
		var bad []event
		var nerr, nwrong, nok int64
		var wg sync.WaitGroup
		for i := 0; i < ng; i++ {
			wg.Add(1)
			go func(i int) {
				defer wg.Done()
				for k := 0; k < 400; k++ {
					evs := perform(run, i+1, st, h0, op{kind: "Lookup", g: g1, q: q, so: 1}, shared)
					switch {
					case evs[0].Err:
						atomic.AddInt64(&nerr, 1)
					case len(evs[0].Res) != len(want.res):
						atomic.AddInt64(&nwrong, 1)
					default:
						atomic.AddInt64(&nok, 1)
					}
					for _, e := range evs[2:] {
						e.Shared = true
						mu.Lock()
						bad = append(bad, e)
						mu.Unlock()
					}
				}
			}(i)
		}
		fin := make(chan struct{})
		go func() { wg.Wait(); close(fin) }()
		info := blank("Info", run)
		select {
		case <-fin:
		case <-time.After(300 * time.Second):
			e := blank("Timeout", run)
			e.Info = "hammer run did not finish within 300 s"
			bad = append(bad, e)
			stats["timeouts"]++
		}
		info.Info = fmt.Sprintf("goroutines=%d ok=%d spurious_errors=%d other_answers=%d", ng, nok, nerr, nwrong)
		info.seq = 1
		for i := range bad {
			bad[i].seq = int64(i + 2)
		}
		emitHistory(run, []string{g1}, []int{}, append([]event{info}, bad...))
		stats["runs"]++
		stats["hammer_lookups"] += int(nok + nerr + nwrong)
		stats["hammer_spurious_errors"] += int(nerr)
		stats["hammer_other_answers"] += int(nwrong)
		stats["hammer_panics"] += len(bad)
		if stats["timeouts"] > 0 {
			return
		}
	}
}

// ---- large batches ---------------------------------------------------------------------------------------------------

// runBatch: AddTriples(batch) is ONE atomic step for a batch of ANY size. One writer adds N fresh triples that share
// a subject (N around every power of two up to a few thousand) to a graph that already holds `pre` triples of that
// subject, while readers keep calling TriplesForSubject (count of results) and Exist(first / last / middle triple of
// the batch). Each reader logs the sequence of its observations (consecutive repetitions collapsed) as one BatchObs
// event: b = <<lowest legal value, highest legal value>>, res = observations in real-time order. The last observation
// of every reader is made after AddTriples returned.
func runBatch(runs int, seed int64) {
	sizes := []int{1, 2, 3, 7, 8, 9, 15, 16, 17, 31, 32, 33, 63, 64, 65, 100, 127, 128, 129, 200, 255, 256, 257, 500, 511, 512, 513,
		1000, 1023, 1024, 1025, 2047, 2048, 2049, 3000, 4096, 4097, 5000, 8192, 10001}
	for run := 1; run <= runs; run++ {
		rng := rand.New(rand.NewSource(seed*7919 + int64(run)))
		n := sizes[(run-1)%len(sizes)]
		if run > len(sizes) && rng.Intn(2) == 0 {
			n = 1 + rng.Intn(6000)
		}
		pre := []int{0, 0, 3, 40}[rng.Intn(4)]
		st := memory.NewStore()
		h, err := st.NewGraph(ctx, g1)
		must(err)
		subj, err := node.Parse(fmt.Sprintf("/b<s%d>", run))
		must(err)
		mk := func(tag string, j int) *triple.Triple {
			var p *predicate.Predicate
			if j%3 == 0 {
				p, err = predicate.NewTemporal(fmt.Sprintf("%s%d", tag, j%11), time.Unix(int64(1000+j), 0).UTC())
			} else {
				p, err = predicate.NewImmutable(fmt.Sprintf("%s%d", tag, j%11))
			}
			must(err)
			o, err := node.Parse(fmt.Sprintf("/b<%s-o%d>", tag, j))
			must(err)
			t, err := triple.New(subj, p, triple.NewNodeObject(o))
			must(err)
			return t
		}
		var old []*triple.Triple
		for j := 0; j < pre; j++ {
			old = append(old, mk("old", j))
		}
		must(h.AddTriples(ctx, old))
		b := make([]*triple.Triple, n)
		for j := range b {
			b[j] = mk("new", j)
		}
		// the order inside the batch is shuffled so that chunking by position does not align with construction
		rng.Shuffle(n, func(i, j int) { b[i], b[j] = b[j], b[i] })
		probes := []*triple.Triple{b[0], b[n-1], b[n/2]}
		var done int32
		nr := 2 + rng.Intn(3)
		obs := make([][]int, nr)
		var wg sync.WaitGroup
		for r := 0; r < nr; r++ {
			wg.Add(1)
			go func(r int) {
				defer wg.Done()
				add := func(v int) {
					if k := len(obs[r]); k == 0 || obs[r][k-1] != v {
						obs[r] = append(obs[r], v)
					}
				}
				for k := 0; ; k++ {
					last := atomic.LoadInt32(&done) == 1
					if r%2 == 0 {
						ch := make(chan *triple.Triple, 64)
						cnt := 0
						errc := make(chan error, 1)
						go func() { errc <- h.TriplesForSubject(ctx, subj, storage.DefaultLookup, ch) }()
						for range ch {
							cnt++
						}
						must(<-errc)
						add(cnt)
					} else {
						ok, err := h.Exist(ctx, probes[(k+r)%3])
						must(err)
						if ok {
							add(1)
						} else {
							add(0)
						}
					}
					if last {
						return
					}
				}
			}(r)
		}
		if d := rng.Intn(4); d > 0 {
			time.Sleep(time.Duration(d*50) * time.Microsecond)
		}
		must(h.AddTriples(ctx, b))
		atomic.StoreInt32(&done, 1)
		wg.Wait()
		var evs []event
		for r := 0; r < nr; r++ {
			e := blank("BatchObs", run)
			e.P, e.T, e.Res = r+1, n, obs[r]
			if r%2 == 0 {
				e.Op, e.B = "Count", []int{pre, pre + n}
			} else {
				e.Op, e.B = "Exist", []int{0, 1}
			}
			e.seq = stamp()
			evs = append(evs, e)
			stats["batch_observations"] += len(obs[r])
			if len(obs[r]) > 1 {
				stats["batch_readers_overlapping_the_add"]++
			}
		}
		emitHistory(run, []string{g1}, []int{}, evs)
		stats["runs"]++
		stats["batch_triples"] += n
		if n > stats["batch_max"] {
			stats["batch_max"] = n
		}
	}
}

func main() {
	if len(os.Args) < 2 {
		must(fmt.Errorf("usage: concdrv small|targeted|stress ..."))
	}
	mode := os.Args[1]
	fl := flag.NewFlagSet(mode, flag.ExitOnError)
	up := fl.String("universe", "", "universe json")
	out := fl.String("out", "", "trace output")
	seed := fl.Int64("seed", 1, "seed")
	runs := fl.Int("runs", 100, "number of histories / stress runs")
	statsOut := fl.String("stats", "", "stats json output")
	must(fl.Parse(os.Args[2:]))
	var err error
	u, err = uni.Load(*up)
	must(err)
	tw, err = trace.New(*out)
	must(err)
	switch mode {
	case "small":
		runSmall(*runs, *seed)
	case "targeted":
		runTargeted()
	case "stress":
		runStress(*runs, *seed)
	case "hammer":
		runHammer(*runs, *seed)
	case "batch":
		runBatch(*runs, *seed)
	default:
		must(fmt.Errorf("unknown mode %q", mode))
	}
	must(tw.Close())
	stats["events"] = tw.N
	if *statsOut != "" {
		b, _ := json.Marshal(stats)
		must(os.WriteFile(*statsOut, b, 0o644))
	}
}
