// tabledrv applies operations of bql/table to REAL tables and records, for every operation, the tables before
// and after it as ndjson that spec/TableTrace.tla validates against spec/TableAlg.tla.
//
//	tabledrv random     -seed S -seqs N -ops M -out T [-stats F]   seeded operation sequences on live tables
//	tabledrv exhaustive -out T [-keep P -seed S] [-stats F]        every pair of tables of a small scope x every operation
//
// Cells are abstracted to {k, v} through accessors only (kind + rank in the documented order, see TableAlg.tla).
package main

import (
	"encoding/json"
	"flag"
	"fmt"
	"math/rand"
	"os"
	"runtime/debug"
	"sort"
	"strings"
	"time"

	"github.com/google/badwolf/bql/table"
	"github.com/google/badwolf/triple/literal"
	"github.com/google/badwolf/triple/node"

	"verif/harness/trace"
)

type cellA struct {
	K string `json:"k"`
	V int    `json:"v"`
}

type rowA map[string]cellA

type tblA struct {
	Bs   []string `json:"bs"`
	Rows []rowA   `json:"rows"`
}

type sortA struct {
	B    string `json:"b"`
	Desc bool   `json:"desc"`
}

type aapA struct {
	In  string `json:"in"`
	Out string `json:"out"`
	Acc string `json:"acc"`
}

type event struct {
	Op     string   `json:"op"`
	Seq    int      `json:"seq"`
	T      tblA     `json:"t"`
	T2     tblA     `json:"t2"`
	After  tblA     `json:"after"`
	After2 tblA     `json:"after2"`
	Err    bool     `json:"err"`
	Errt   string   `json:"errt"`
	Panic  bool     `json:"panic"`
	Ret    int      `json:"ret"`
	R      rowA     `json:"r"`
	Rempty bool     `json:"rempty"`
	Bsarg  []string `json:"bsarg"`
	N      int      `json:"n"`
	B      string   `json:"b"`
	C      cellA    `json:"c"`
	Cfg    []sortA  `json:"cfg"`
	Keys   []string `json:"keys"`
	Aaps   []aapA   `json:"aaps"`
}

var (
	tw    *trace.Writer
	rng   *rand.Rand
	stats = map[string]int{}
	names = []string{"?a", "?b", "?c", "?d"}
)

func must(err error) {
	if err != nil {
		fmt.Fprintln(os.Stderr, "tabledrv:", err)
		os.Exit(3)
	}
}

// ---- the cell universe -----------------------------------------------------------------------------------------

var instants = []string{"2019-03-01T00:00:00Z", "2020-01-01T00:00:00Z", "2020-01-01T01:00:00Z", "2021-11-11T11:11:11.000000011Z", "2525-05-05T05:05:05Z"}
var altZone = map[int]string{2: "2020-01-01T02:00:00+02:00"}
// texts in the order of their printed form; 5 and 6 contain what separates two cells in a group key of Reduce
var texts = []string{"a", "b", "c", "p", "p\"^^type:text;\"q", "q\"^^type:text;\"r", "r"}
var nodesU = [][2]string{{"/u", "a"}, {"/u", "b"}, {"/v", "a"}}

func mkCell(c cellA, alt bool) *table.Cell {
	switch c.K {
	case "0":
		return &table.Cell{}
	case "I":
		l, err := literal.DefaultBuilder().Build(literal.Int64, int64(c.V))
		must(err)
		return &table.Cell{L: l}
	case "F":
		l, err := literal.DefaultBuilder().Build(literal.Float64, float64(c.V)/4)
		must(err)
		return &table.Cell{L: l}
	case "X":
		l, err := literal.DefaultBuilder().Build(literal.Text, texts[c.V-1])
		must(err)
		return &table.Cell{L: l}
	case "S":
		s := texts[c.V-1]
		return &table.Cell{S: &s}
	case "N":
		n, err := node.NewNodeFromStrings(nodesU[c.V-1][0], nodesU[c.V-1][1])
		must(err)
		return &table.Cell{N: n}
	case "T":
		sp := instants[c.V-1]
		if a, ok := altZone[c.V]; ok && alt {
			sp = a
		}
		t, err := time.Parse(time.RFC3339Nano, sp)
		must(err)
		return &table.Cell{T: &t}
	}
	must(fmt.Errorf("bad cell %v", c))
	return nil
}

// abstraction: accessors only
func absCell(c *table.Cell) cellA {
	switch {
	case c == nil:
		must(fmt.Errorf("nil cell in a row"))
	case c.S != nil:
		for i, s := range texts {
			if s == *c.S {
				return cellA{"S", i + 1}
			}
		}
		must(fmt.Errorf("string cell %q outside the universe", *c.S))
	case c.N != nil:
		for i, n := range nodesU {
			if c.N.Type().String() == n[0] && c.N.ID().String() == n[1] {
				return cellA{"N", i + 1}
			}
		}
		must(fmt.Errorf("node cell %v outside the universe", c.N))
	case c.L != nil:
		switch c.L.Type() {
		case literal.Int64:
			v, _ := c.L.Int64()
			if v > 1<<30 || v < -(1<<30) {
				must(fmt.Errorf("int64 cell %d beyond the model's integers", v))
			}
			return cellA{"I", int(v)}
		case literal.Float64:
			v, _ := c.L.Float64()
			q := v * 4
			if q != float64(int(q)) {
				must(fmt.Errorf("float64 cell %v is not a multiple of 1/4", v))
			}
			return cellA{"F", int(q)}
		case literal.Text:
			s, _ := c.L.Text()
			for i, x := range texts {
				if x == s {
					return cellA{"X", i + 1}
				}
			}
		}
		must(fmt.Errorf("literal cell %v outside the universe", c.L))
	case c.T != nil:
		for i, sp := range instants {
			t, _ := time.Parse(time.RFC3339Nano, sp)
			if t.Equal(*c.T) {
				return cellA{"T", i + 1}
			}
		}
		must(fmt.Errorf("time cell %v outside the universe", c.T))
	case c.P != nil:
		must(fmt.Errorf("predicate cells are not part of this universe"))
	}
	return cellA{"0", 0}
}

func absTable(t *table.Table) tblA {
	a := tblA{Bs: append([]string{}, t.Bindings()...), Rows: []rowA{}}
	for _, r := range t.Rows() {
		ra := rowA{}
		for b, c := range r {
			ra[b] = absCell(c)
		}
		a.Rows = append(a.Rows, ra)
	}
	return a
}

func mkTable(a tblA, alt bool) *table.Table {
	t, err := table.New(append([]string{}, a.Bs...))
	must(err)
	for _, ra := range a.Rows {
		r := table.Row{}
		for b, c := range ra {
			r[b] = mkCell(c, alt)
		}
		t.AddRow(r)
	}
	return t
}

// ---- one operation ---------------------------------------------------------------------------------------------

type opArgs struct {
	op    string
	r     rowA
	bsarg []string
	n     int
	b     string
	c     cellA
	cfg   []sortA
	keys  []string
	aaps  []aapA
}

func protect(f func() error) (err error, panicked bool, msg string) {
	defer func() {
		if x := recover(); x != nil {
			panicked = true
			msg = fmt.Sprintf("%v | %s", x, firstFrames(string(debug.Stack())))
		}
	}()
	err = f()
	return
}

func firstFrames(st string) string {
	var out []string
	for _, ln := range strings.Split(st, "\n") {
		if strings.Contains(ln, "badwolf/bql/table.") {
			out = append(out, strings.TrimSpace(ln))
			if len(out) == 2 {
				break
			}
		}
	}
	return strings.Join(out, " <- ")
}

func accOf(name string) table.Accumulator {
	switch name {
	case "count":
		return table.NewCountAccumulator()
	case "countd":
		return table.NewCountDistinctAccumulator()
	case "sumi":
		return table.NewSumInt64LiteralAccumulator(0)
	case "sumf":
		return table.NewSumFloat64LiteralAccumulator(0)
	}
	return nil
}

var seqNo int

func apply(t, t2 *table.Table, a opArgs) {
	seqNo++
	ev := event{Op: a.op, Seq: seqNo, T: absTable(t), T2: absTable(t2), R: rowA{"?a": cellA{"0", 0}}, Bsarg: []string{}, Cfg: []sortA{},
		Keys: []string{}, Aaps: []aapA{}, N: a.n, B: a.b, C: a.c}
	if a.r != nil {
		if len(a.r) == 0 {
			ev.Rempty = true
		} else {
			ev.R = a.r
		}
	}
	if a.bsarg != nil {
		ev.Bsarg = a.bsarg
	}
	if a.cfg != nil {
		ev.Cfg = a.cfg
	}
	if a.keys != nil {
		ev.Keys = a.keys
	}
	if a.aaps != nil {
		ev.Aaps = a.aaps
	}
	err, pnc, msg := protect(func() error {
		switch a.op {
		case "AddRow":
			r := table.Row{}
			for b, c := range a.r {
				r[b] = mkCell(c, rng.Intn(3) == 0)
			}
			t.AddRow(r)
		case "AddBindings":
			t.AddBindings(append([]string{}, a.bsarg...))
		case "AppendTable":
			return t.AppendTable(t2)
		case "DotProduct":
			return t.DotProduct(t2)
		case "LeftOptionalJoin":
			return t.LeftOptionalJoin(t2)
		case "ProjectBindings":
			return t.ProjectBindings(append([]string{}, a.bsarg...))
		case "DeleteRow":
			return t.DeleteRow(a.n)
		case "Truncate":
			t.Truncate()
		case "Limit":
			t.Limit(int64(a.n))
		case "Filter":
			want := a.c
			ev.Ret = t.Filter(func(r table.Row) bool {
				c, ok := r[a.b]
				return ok && absCell(c) == want
			})
		case "Sort":
			cfg := table.SortConfig{}
			for _, s := range a.cfg {
				// SortConfig's element type is not exported: build it through JSON-free reflection-free means
				cfg = appendSort(cfg, s.B, s.Desc)
			}
			t.Sort(cfg)
		case "Reduce":
			cfg := table.SortConfig{}
			for _, k := range a.keys {
				cfg = appendSort(cfg, k, false)
			}
			var aaps []table.AliasAccPair
			for _, p := range a.aaps {
				aaps = append(aaps, table.AliasAccPair{InAlias: p.In, OutAlias: p.Out, Acc: accOf(p.Acc)})
			}
			return t.Reduce(cfg, aaps)
		default:
			must(fmt.Errorf("unknown op %s", a.op))
		}
		return nil
	})
	ev.Err = err != nil
	if err != nil {
		ev.Errt = err.Error()
		if len(ev.Errt) > 120 {
			ev.Errt = ev.Errt[:120]
		}
	}
	ev.Panic = pnc
	if pnc {
		ev.Errt = msg
		ev.After, ev.After2 = ev.T, ev.T2
	} else {
		ev.After, ev.After2 = absTable(t), absTable(t2)
	}
	tw.Emit(ev)
	stats["op:"+a.op]++
	if ev.Err {
		stats["err:"+a.op]++
	}
	if pnc {
		stats["panics"]++
	}
}

// appendSort adds one (binding, direction) to a SortConfig. The element type of table.SortConfig is unexported, but
// its fields are exported, so the zero element obtained from a one-element slice can be set through JSON.
func appendSort(cfg table.SortConfig, b string, desc bool) table.SortConfig {
	var one table.SortConfig
	js := fmt.Sprintf(`[{"Binding":%q,"Desc":%v}]`, b, desc)
	must(json.Unmarshal([]byte(js), &one))
	return append(cfg, one...)
}

// ---- generators ------------------------------------------------------------------------------------------------

var kinds = []string{"I", "I", "F", "X", "N", "S", "T", "0"}

func randCell(kind string) cellA {
	switch kind {
	case "I":
		return cellA{"I", []int{-5, -3, 0, 2, 7}[rng.Intn(5)]}
	case "F":
		return cellA{"F", []int{-6, -2, 0, 5}[rng.Intn(4)]}
	case "T":
		if rng.Intn(5) < 2 { // the instant that is also written in another zone
			return cellA{"T", 2}
		}
		return cellA{"T", 1 + rng.Intn(len(instants))}
	case "X":
		if rng.Intn(4) == 0 {
			return cellA{"X", 4 + rng.Intn(4)}
		}
		return cellA{"X", 1 + rng.Intn(3)}
	case "S", "N":
		return cellA{kind, 1 + rng.Intn(3)}
	}
	return cellA{"0", 0}
}

// colKinds: the kind of the cells of each binding in this sequence (mostly one kind per column, sometimes mixed)
func randRow(bs []string, colKinds map[string]string, partial bool) rowA {
	r := rowA{}
	for _, b := range bs {
		if partial && rng.Intn(3) == 0 {
			continue
		}
		k := colKinds[b]
		if rng.Intn(12) == 0 {
			k = kinds[rng.Intn(len(kinds))]
		}
		r[b] = randCell(k)
	}
	return r
}

func subset(xs []string, atLeast int) []string {
	for {
		var r []string
		for _, x := range xs {
			if rng.Intn(2) == 0 {
				r = append(r, x)
			}
		}
		if len(r) >= atLeast {
			rng.Shuffle(len(r), func(i, j int) { r[i], r[j] = r[j], r[i] })
			return r
		}
	}
}

func fullRows(t *table.Table, bs []string) bool {
	for _, r := range t.Rows() {
		for _, b := range bs {
			if _, ok := r[b]; !ok {
				return false
			}
		}
	}
	return true
}

func runRandom(seqs, ops int) {
	for s := 0; s < seqs; s++ {
		colKinds := map[string]string{}
		for _, n := range names {
			colKinds[n] = kinds[rng.Intn(len(kinds)-1)]
		}
		mk := func() *table.Table {
			bs := subset(names, 1)
			if len(bs) > 2 && rng.Intn(2) == 0 {
				bs = bs[:2]
			}
			t, err := table.New(bs)
			must(err)
			return t
		}
		var t *table.Table
		// the second table: mostly over bindings the first one does not have (products, joins without shared bindings),
		// sometimes overlapping or equal
		mk2 := func() *table.Table {
			var free []string
			for _, n := range names {
				if t == nil || !t.HasBinding(n) {
					free = append(free, n)
				}
			}
			if len(free) == 0 || rng.Intn(10) < 3 {
				return mk()
			}
			x, err := table.New(subset(free, 1))
			must(err)
			return x
		}
		t = mk()
		t2 := mk2()
		fill := func(x *table.Table, n int) {
			for i := 0; i < n; i++ {
				x.AddRow(toRow(randRow(x.Bindings(), colKinds, false)))
			}
		}
		fill(t, rng.Intn(5))
		fill(t2, rng.Intn(4))
		for i := 0; i < ops; i++ {
			if len(t.Rows()) > 24 || len(t.Bindings()) == 0 && rng.Intn(2) == 0 {
				t = mk()
				fill(t, rng.Intn(5))
			}
			if rng.Intn(4) == 0 {
				t2 = mk2()
				fill(t2, rng.Intn(4))
			}
			bs := t.Bindings()
			switch x := rng.Intn(20); {
			case x < 4:
				if len(bs) == 0 {
					continue
				}
				r := randRow(bs, colKinds, rng.Intn(10) == 0)
				if rng.Intn(25) == 0 {
					r = rowA{}
				}
				apply(t, t2, opArgs{op: "AddRow", r: r})
			case x == 4:
				apply(t, t2, opArgs{op: "AddBindings", bsarg: subset(names, 0)})
			case x == 5:
				apply(t, t2, opArgs{op: "AppendTable"})
			case x < 8:
				if len(t.Rows())*len(t2.Rows()) > 40 {
					continue
				}
				apply(t, t2, opArgs{op: "DotProduct"})
			case x < 11:
				if len(t.Rows())*len(t2.Rows()) > 40 {
					continue
				}
				var shared []string
				for _, b := range bs {
					if t2.HasBinding(b) {
						shared = append(shared, b)
					}
				}
				if !fullRows(t, shared) || !fullRows(t2, shared) { // the join sorts by the shared bindings (log.Fatalf)
					continue
				}
				apply(t, t2, opArgs{op: "LeftOptionalJoin"})
			case x == 11:
				arg := subset(names, 0)
				if len(bs) > 0 && rng.Intn(3) > 0 {
					arg = subset(bs, 0)
				}
				apply(t, t2, opArgs{op: "ProjectBindings", bsarg: arg})
			case x == 12:
				apply(t, t2, opArgs{op: "DeleteRow", n: rng.Intn(len(t.Rows())+3) - 1})
			case x == 13:
				if rng.Intn(4) == 0 {
					apply(t, t2, opArgs{op: "Truncate"})
				} else {
					apply(t, t2, opArgs{op: "Limit", n: rng.Intn(len(t.Rows()) + 2)})
				}
			case x == 14:
				if len(bs) == 0 {
					continue
				}
				b := bs[rng.Intn(len(bs))]
				c := randCell(colKinds[b])
				if rs := t.Rows(); len(rs) > 0 && rng.Intn(2) == 0 {
					if cc, ok := rs[rng.Intn(len(rs))][b]; ok {
						c = absCell(cc)
					}
				}
				apply(t, t2, opArgs{op: "Filter", b: b, c: c})
			case x < 18:
				if len(bs) == 0 {
					continue
				}
				keys := subset(bs, 1)
				if len(keys) > 3 {
					keys = keys[:3]
				}
				if !fullRows(t, keys) { // a missing sort key ends the process (log.Fatalf): outside the contract
					continue
				}
				var cfg []sortA
				for _, k := range keys {
					cfg = append(cfg, sortA{k, rng.Intn(3) == 0})
				}
				apply(t, t2, opArgs{op: "Sort", cfg: cfg})
			default:
				if len(bs) == 0 || !fullRows(t, bs) {
					continue
				}
				keys := subset(bs, 1)
				if len(keys) == len(bs) && len(bs) > 1 {
					keys = keys[:len(keys)-1]
				}
				var aaps []aapA
				iskey := map[string]bool{}
				for _, k := range keys {
					iskey[k] = true
					out := k
					if rng.Intn(4) == 0 {
						out = k + "k"
					}
					aaps = append(aaps, aapA{k, out, ""})
				}
				for _, b := range bs {
					if iskey[b] {
						continue
					}
					n := 1 + rng.Intn(2)
					for j := 0; j < n; j++ {
						acc := []string{"count", "countd", "sumi", "sumf"}[rng.Intn(4)]
						if acc == "sumi" && colKinds[b] != "I" || acc == "sumf" && colKinds[b] != "F" {
							acc = "count"
						}
						aaps = append(aaps, aapA{b, fmt.Sprintf("%s%d", b, j), acc})
					}
				}
				if rng.Intn(15) == 0 && len(aaps) > 1 { // a configuration that does not cover the bindings
					aaps = aaps[1:]
				}
				rng.Shuffle(len(aaps), func(i, j int) { aaps[i], aaps[j] = aaps[j], aaps[i] })
				apply(t, t2, opArgs{op: "Reduce", keys: keys, aaps: aaps})
			}
		}
	}
}

func toRow(a rowA) table.Row {
	r := table.Row{}
	for b, c := range a {
		r[b] = mkCell(c, rng.Intn(3) == 0)
	}
	return r
}

// every table over the bindings bs with at most maxRows rows over the cells cs
func allTables(bsets [][]string, cs []cellA, maxRows int) []tblA {
	var out []tblA
	for _, bs := range bsets {
		var rows []rowA
		var rec func(i int, cur rowA)
		rec = func(i int, cur rowA) {
			if i == len(bs) {
				r := rowA{}
				for k, v := range cur {
					r[k] = v
				}
				rows = append(rows, r)
				return
			}
			for _, c := range cs {
				cur[bs[i]] = c
				rec(i+1, cur)
			}
		}
		rec(0, rowA{})
		out = append(out, tblA{Bs: bs, Rows: []rowA{}})
		for _, r1 := range rows {
			out = append(out, tblA{Bs: bs, Rows: []rowA{r1}})
			if maxRows >= 2 {
				for _, r2 := range rows {
					out = append(out, tblA{Bs: bs, Rows: []rowA{r1, r2}})
				}
			}
		}
	}
	return out
}

var sepDone bool

func runExhaustive(keep float64) {
	cs := []cellA{{"I", 2}, {"I", 7}, {"0", 0}}
	left := allTables([][]string{{"?a"}, {"?a", "?b"}}, cs, 2)
	right := allTables([][]string{{"?b"}, {"?c"}, {"?b", "?c"}, {"?a", "?b"}}, cs, 2)
	sort.SliceStable(left, func(i, j int) bool { return len(left[i].Rows) < len(left[j].Rows) })
	for _, la := range left {
		for _, ra := range right {
			if keep < 1 && rng.Float64() >= keep {
				continue
			}
			for _, op := range []string{"AppendTable", "DotProduct", "LeftOptionalJoin"} {
				apply(mkTable(la, false), mkTable(ra, false), opArgs{op: op})
			}
		}
		empty := tblA{Bs: []string{"?d"}, Rows: []rowA{}}
		for n := 0; n <= 3; n++ {
			apply(mkTable(la, false), mkTable(empty, false), opArgs{op: "Limit", n: n})
			apply(mkTable(la, false), mkTable(empty, false), opArgs{op: "DeleteRow", n: n - 1})
		}
		for _, b := range la.Bs {
			for _, c := range cs {
				apply(mkTable(la, false), mkTable(empty, false), opArgs{op: "Filter", b: b, c: c})
			}
			for _, desc := range []bool{false, true} {
				apply(mkTable(la, false), mkTable(empty, false), opArgs{op: "Sort", cfg: []sortA{{b, desc}}})
			}
		}
		for _, arg := range [][]string{{}, {"?a"}, {"?b"}, {"?a", "?b"}, {"?c"}} {
			apply(mkTable(la, false), mkTable(empty, false), opArgs{op: "ProjectBindings", bsarg: arg})
			apply(mkTable(la, false), mkTable(empty, false), opArgs{op: "AddBindings", bsarg: arg})
		}
		if !sepDone && len(la.Bs) == 2 {
			sepDone = true
			// two grouping columns of texts: the pairs (p"^^type:text;"q, r) and (p, q"^^type:text;"r) are different groups
			tt := tblA{Bs: []string{"?a", "?b", "?c"}, Rows: []rowA{
				{"?a": {"X", 5}, "?b": {"X", 7}, "?c": {"I", 1}}, {"?a": {"X", 4}, "?b": {"X", 6}, "?c": {"I", 2}},
				{"?a": {"X", 4}, "?b": {"X", 7}, "?c": {"I", 3}}}}
			apply(mkTable(tt, false), mkTable(empty, false), opArgs{op: "Reduce", keys: []string{"?a", "?b"},
				aaps: []aapA{{"?a", "?a", ""}, {"?b", "?b", ""}, {"?c", "?n", "count"}}})
		}
		if len(la.Bs) == 2 {
			for _, acc := range []string{"count", "countd", "sumi"} {
				apply(mkTable(la, false), mkTable(empty, false), opArgs{op: "Reduce", keys: []string{"?a"},
					aaps: []aapA{{"?a", "?a", ""}, {"?b", "?n", acc}}})
			}
		}
	}
}

func main() {
	if len(os.Args) < 2 {
		must(fmt.Errorf("usage: tabledrv random|exhaustive ..."))
	}
	mode := os.Args[1]
	fs := flag.NewFlagSet(mode, flag.ExitOnError)
	seed := fs.Int64("seed", 1, "seed")
	out := fs.String("out", "", "trace file")
	statsPath := fs.String("stats", "", "stats file")
	seqs := fs.Int("seqs", 100, "random: sequences")
	ops := fs.Int("ops", 40, "random: operations per sequence")
	keep := fs.Float64("keep", 1, "exhaustive: fraction of table pairs kept")
	must(fs.Parse(os.Args[2:]))
	rng = rand.New(rand.NewSource(*seed))
	var err error
	tw, err = trace.New(*out)
	must(err)
	switch mode {
	case "random":
		runRandom(*seqs, *ops)
	case "exhaustive":
		runExhaustive(*keep)
	default:
		must(fmt.Errorf("unknown mode %s", mode))
	}
	must(tw.Close())
	if *statsPath != "" {
		b, _ := json.Marshal(stats)
		must(os.WriteFile(*statsPath, b, 0o644))
	}
}
