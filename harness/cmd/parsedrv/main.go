// parsedrv drives the real BQL lexer + LL(1) parser (plain and semantic grammar) and records what they
// did as ndjson that spec/ParserTrace.tla validates against spec/LL1.tla (C17, C18).
//
//	parsedrv witness -in sentences.ndjson -out T      C17: each TLC-generated sentence is parsed with a private
//	                                                  BQL() whose clauses carry ProcessStart probes; event W
//	parsedrv parse   -in sentences.ndjson -out T [-mutations N] [-enum L [-enum-keep P]] [-trailing]
//	                                                  C18: accept/reject of plain and semantic grammar; event P
//	parsedrv history -in sentences.ndjson -out T [-bases N -probes N -random N]
//	                                                  C18: a statement parsed after a history on ONE parser vs on
//	                                                  a fresh parser; event A
package main

import (
	"bufio"
	"encoding/json"
	"flag"
	"fmt"
	"math/rand"
	"os"
	"reflect"
	"regexp"
	"runtime"
	"sort"
	"strings"
	"time"

	"github.com/google/badwolf/bql/grammar"
	"github.com/google/badwolf/bql/semantic"

	"verif/harness/gram"
	"verif/harness/trace"
)

type sentence struct {
	R    string     `json:"r"`
	I    int        `json:"i"`
	Prev string     `json:"prev"`
	S    []gram.Tok `json:"s"`
}

type firing struct {
	R string `json:"r"`
	I int    `json:"i"`
}

type wEvent struct {
	Ev    string   `json:"ev"`
	R     string   `json:"r"` // the expansion step (rule, alternative) of the derivation machine that produced the sentence
	I     int      `json:"i"`
	Text  string   `json:"text"`
	Want  []string `json:"want"`  // kinds of the generated sentence
	Kinds []string `json:"kinds"` // kinds the real lexer produced for the text (without the final EOF)
	End   string   `json:"end"`   // kind of the last token of the stream (EOF / ERROR / "" if none)
	Acc   bool     `json:"acc"`   // plain parser accepted
	Fir   []firing `json:"fir"`   // (rule, alternative) of every ProcessStart probe that fired, in order
}

type pEvent struct {
	Ev       string   `json:"ev"`
	Src      string   `json:"src"` // sentence | mutation | trailing | enum
	Text     string   `json:"text"`
	Kinds    []string `json:"kinds"`
	End      string   `json:"end"`
	Plain    bool     `json:"plain"`
	Sem      bool     `json:"sem"`
	SemPanic bool     `json:"sempanic"`
}

type outcome struct {
	Acc bool     `json:"acc"`
	M   []string `json:"m"`
}

type hstmt struct {
	Text  string   `json:"text"`
	Kinds []string `json:"kinds"`
	Acc   bool     `json:"acc"`
}

type aEvent struct {
	Ev     string   `json:"ev"`
	Src    string   `json:"src"`  // cut | whole | random | long
	Hist   []hstmt  `json:"hist"` // src long: only the last statements of the history
	Hlen   int      `json:"hlen"` // number of statements parsed on this parser before the probe
	Text   string   `json:"text"`
	Kinds  []string `json:"kinds"`
	End    string   `json:"end"`
	Reused outcome  `json:"reused"`
	Fresh  outcome  `json:"fresh"`
	Open   bool     `json:"open"` // the meaning on a fresh parser is itself not deterministic: not judged here
	Attr   []string `json:"attr"` // hook families whose replacement by fresh closures removes the difference
	Other  bool     `json:"attr_other"`
}

var (
	tw    *trace.Writer
	rng   *rand.Rand
	stats = map[string]int{}
)

func must(err error) {
	if err != nil {
		fmt.Fprintln(os.Stderr, "parsedrv:", err)
		os.Exit(3)
	}
}

func readSentences(path string) []sentence {
	f, err := os.Open(path)
	must(err)
	defer f.Close()
	var res []sentence
	sc := bufio.NewScanner(f)
	sc.Buffer(make([]byte, 1<<20), 1<<26)
	for sc.Scan() {
		if len(strings.TrimSpace(sc.Text())) == 0 {
			continue
		}
		var s sentence
		must(json.Unmarshal(sc.Bytes(), &s))
		res = append(res, s)
	}
	must(sc.Err())
	return res
}

func kindsOf(toks []gram.Tok) []string {
	r := make([]string, 0, len(toks))
	for _, t := range toks {
		r = append(r, t.K)
	}
	return r
}

// lexKinds lexes the text completely (own lexer instance) and returns the kinds without the
// terminal token, and the kind of the terminal token.
func lexKinds(text string) ([]string, string) {
	lr := gram.Lex(text, 0, 20*time.Second)
	if lr.Timeout {
		must(fmt.Errorf("lexer did not finish on %q (reported by C16/C08, not here)", text))
	}
	ks := gram.Kinds(lr.Toks)
	if len(ks) == 0 {
		return []string{}, ""
	}
	return append([]string{}, ks[:len(ks)-1]...), ks[len(ks)-1]
}

func parsePlain(text string, probe *[]firing) bool {
	g := grammar.BQL()
	if probe != nil {
		for sym, clauses := range *g {
			for i, c := range clauses {
				sym, i := string(sym), i
				c.ProcessStart = func(*semantic.Statement, semantic.Symbol) (semantic.ClauseHook, error) {
					*probe = append(*probe, firing{sym, i + 1})
					return nil, nil
				}
			}
		}
	}
	p, err := grammar.NewParser(g)
	if err != nil {
		return false
	}
	return p.Parse(grammar.NewLLk(text, 1), &semantic.Statement{}) == nil
}

// parseWith parses text with the given parser into a new statement; a panic inside a hook is
// reported as not accepted (panics are the subject of C08).
func parseWith(p *grammar.Parser, text string) (st *semantic.Statement, ok bool, panicked bool) {
	st, nextStmt = nextStmt, nil
	if st == nil {
		st = &semantic.Statement{}
	}
	defer func() {
		if r := recover(); r != nil {
			ok, panicked = false, true
		}
	}()
	ok = p.Parse(grammar.NewLLk(text, 1), st) == nil
	return
}

// nextStmt, when set, is the Statement value the next parseWith fills (the "collected" histories place it).
var nextStmt *semantic.Statement

var nCollected = 0

// dropHist parses h on p with a Statement of its own and lets go of it: what it returns does not keep it reachable.
//
//go:noinline
func dropHist(p *grammar.Parser, h string) (uintptr, hstmt) {
	st := &semantic.Statement{}
	nextStmt = st
	hs := histStmt(p, h)
	return reflect.ValueOf(st).Pointer(), hs
}

// newStatementAt allocates Statements until one is placed at addr (the allocator is free to hand out the memory
// of a collected Statement again at any time; here that is only made likely); the others are kept meanwhile.
func newStatementAt(addr uintptr, candidates int) (*semantic.Statement, bool) {
	var keep []*semantic.Statement
	for i := 0; i < candidates; i++ {
		st := &semantic.Statement{}
		if reflect.ValueOf(st).Pointer() == addr {
			return st, true
		}
		keep = append(keep, st)
	}
	runtime.KeepAlive(keep)
	return &semantic.Statement{}, false
}

func newSemParser() (*grammar.Parser, *grammar.Grammar) {
	g := grammar.SemanticBQL()
	p, err := grammar.NewParser(g)
	must(err)
	return p, g
}

// ---------------------------------------------------------------------------------- meaning ----

func describe(v reflect.Value) string {
	if !v.IsValid() {
		return "<invalid>"
	}
	switch v.Kind() {
	case reflect.Ptr, reflect.Interface:
		if v.IsNil() {
			return "nil"
		}
		if v.CanInterface() {
			if t, ok := v.Interface().(*time.Time); ok {
				return t.Format(time.RFC3339Nano)
			}
			if s, ok := v.Interface().(fmt.Stringer); ok && !strings.HasSuffix(v.Type().Elem().PkgPath(), "bql/semantic") {
				return s.String()
			}
		}
		return describe(v.Elem())
	case reflect.Struct:
		if v.CanInterface() {
			if t, ok := v.Interface().(time.Time); ok {
				return t.Format(time.RFC3339Nano)
			}
		}
		var b []string
		for i := 0; i < v.NumField(); i++ {
			if v.Type().Field(i).PkgPath != "" || v.Field(i).IsZero() {
				continue // unexported, or zero value (omitted to keep the traces small)
			}
			b = append(b, v.Type().Field(i).Name+"="+describe(v.Field(i)))
		}
		return "{" + strings.Join(b, " ") + "}"
	case reflect.Slice, reflect.Array:
		var b []string
		for i := 0; i < v.Len(); i++ {
			b = append(b, describe(v.Index(i)))
		}
		return "[" + strings.Join(b, " ") + "]"
	case reflect.Func:
		if v.IsNil() {
			return "nilfunc"
		}
		return "func"
	default:
		return fmt.Sprintf("%v", v)
	}
}

// meaning projects a parsed statement through its exported accessors: kind, graphs, data triples,
// pattern clauses, filters, projections, grouping, ordering, HAVING tokens, bounds, limit,
// construct clauses.
func meaning(st *semantic.Statement) []string {
	m := []string{"type " + st.Type().String()}
	m = append(m, "graphs "+strings.Join(st.GraphNames(), ","))
	m = append(m, "input "+strings.Join(st.InputGraphNames(), ","))
	m = append(m, "output "+strings.Join(st.OutputGraphNames(), ","))
	for _, t := range st.Data() {
		m = append(m, "data "+t.String())
	}
	for _, c := range st.GraphPatternClauses() {
		m = append(m, "clause "+describe(reflect.ValueOf(c)))
	}
	for _, f := range st.FilterClauses() {
		m = append(m, "filter "+describe(reflect.ValueOf(f)))
	}
	for _, p := range st.Projections() {
		m = append(m, "projection "+describe(reflect.ValueOf(*p)))
	}
	m = append(m, "groupby "+strings.Join(st.GroupBy(), ","))
	for _, o := range st.OrderBy() {
		m = append(m, "orderby "+describe(reflect.ValueOf(o)))
	}
	for _, ce := range st.HavingExpression() {
		if ce.IsSymbol() {
			m = append(m, "having symbol "+string(ce.Symbol()))
		} else {
			m = append(m, "having "+gram.KindName(ce.Token().Type)+" "+ce.Token().Text)
		}
	}
	m = append(m, "bounds "+describe(reflect.ValueOf(st.GlobalLookupOptions())))
	m = append(m, fmt.Sprintf("limit %v %d", st.IsLimitSet(), st.Limit()))
	for _, c := range st.ConstructClauses() {
		m = append(m, "construct "+describe(reflect.ValueOf(*c))+" pairs "+describe(reflect.ValueOf(c.PredicateObjectPairs())))
	}
	return m
}

func outcomeOf(st *semantic.Statement, ok bool) outcome {
	if !ok {
		return outcome{Acc: false, M: []string{}}
	}
	return outcome{Acc: true, M: meaning(st)}
}

func sameOutcome(a, b outcome) bool {
	if a.Acc != b.Acc || len(a.M) != len(b.M) {
		return false
	}
	for i := range a.M {
		if a.M[i] != b.M[i] {
			return false
		}
	}
	return true
}

// ---------------------------------------------------------------------------------- modes ----

func witness(sents []sentence) {
	c := &gram.Concretizer{Rng: rng}
	for _, s := range sents {
		text := c.Text(s.S)
		kinds, end := lexKinds(text)
		fir := []firing{}
		acc := parsePlain(text, &fir)
		tw.Emit(wEvent{Ev: "W", R: s.R, I: s.I, Text: text, Want: kindsOf(s.S), Kinds: kinds, End: end, Acc: acc, Fir: fir})
		stats["w"]++
	}
}

func emitP(src, text string) {
	kinds, end := lexKinds(text)
	plain := parsePlain(text, nil)
	p, _ := newSemParser()
	_, sem, pan := parseWith(p, text)
	tw.Emit(pEvent{Ev: "P", Src: src, Text: text, Kinds: kinds, End: end, Plain: plain, Sem: sem, SemPanic: pan})
	stats["p:"+src]++
	if plain {
		stats["p:plain-accepted"]++
	}
	if sem {
		stats["p:sem-accepted"]++
	}
}

func mutate(toks []gram.Tok, kinds []string) []gram.Tok {
	r := append([]gram.Tok{}, toks...)
	if len(r) == 0 {
		return []gram.Tok{{K: kinds[rng.Intn(len(kinds))]}}
	}
	pos := rng.Intn(len(r))
	switch rng.Intn(6) {
	case 0: // substitute
		r[pos] = gram.Tok{K: kinds[rng.Intn(len(kinds))]}
	case 1: // delete
		r = append(r[:pos], r[pos+1:]...)
	case 2: // duplicate
		r = append(r[:pos+1], r[pos:]...)
	case 3: // insert
		r = append(r[:pos], append([]gram.Tok{{K: kinds[rng.Intn(len(kinds))]}}, r[pos:]...)...)
	case 4: // swap neighbours
		if pos+1 < len(r) {
			r[pos], r[pos+1] = r[pos+1], r[pos]
		}
	case 5: // truncate
		r = r[:pos]
	}
	return r
}

func parseMode(sents []sentence, mutations int, enum int, enumKeep float64, trailing bool, substKeep float64) {
	var allKinds []string
	for _, tt := range gram.AllKinds() {
		k := gram.KindName(tt)
		if k != "EOF" {
			allKinds = append(allKinds, k)
		}
	}
	c := &gram.Concretizer{Rng: rng}
	for _, s := range sents {
		emitP("sentence", c.Text(s.S))
		for m := 0; m < mutations; m++ {
			emitP("mutation", c.Text(mutate(s.S, allKinds)))
		}
		if trailing {
			// the statement followed by further tokens: one token of every kind, and another statement
			extra := []gram.Tok{{K: allKinds[rng.Intn(len(allKinds))]}}
			emitP("trailing", c.Text(append(append([]gram.Tok{}, s.S...), extra...)))
			o := sents[rng.Intn(len(sents))]
			emitP("trailing", c.Text(append(append([]gram.Tok{}, s.S...), o.S...)))
		}
	}
	// every expectation of the parser x every token kind: for each distinct (rule owning the position, expected
	// kind) the shortest sentence that has such a position, with that token replaced by each other kind
	// (the rest of the sentence kept) - what the parser does at a position depends on exactly this pair
	type ctxKey struct{ own, k string }
	type ctxPos struct {
		s   []gram.Tok
		pos int
	}
	ctx := map[ctxKey]ctxPos{}
	var order []ctxKey
	for _, s := range sents {
		for i, t := range s.S {
			key := ctxKey{t.Own, t.K}
			if old, ok := ctx[key]; !ok || len(s.S) < len(old.s) {
				if !ok {
					order = append(order, key)
				}
				ctx[key] = ctxPos{s.S, i}
			}
		}
	}
	if substKeep > 0 {
		for _, key := range order {
			cp := ctx[key]
			for _, k := range allKinds {
				if k == key.k || (substKeep < 1 && rng.Float64() >= substKeep) {
					continue
				}
				m := append([]gram.Tok{}, cp.s...)
				m[cp.pos] = gram.Tok{K: k}
				emitP("substitution", c.Text(m))
			}
		}
		stats["p:contexts"] = len(order)
	}
	// exhaustively all kind sequences up to length enum (a seeded fraction enumKeep of the longest ones)
	var rec func(prefix []gram.Tok, depth int)
	rec = func(prefix []gram.Tok, depth int) {
		if depth == enum && (enumKeep >= 1 || rng.Float64() < enumKeep) || depth < enum {
			emitP("enum", c.Text(prefix))
		}
		if depth == enum {
			return
		}
		for _, k := range allKinds {
			rec(append(append([]gram.Tok{}, prefix...), gram.Tok{K: k}), depth+1)
		}
	}
	if enum > 0 {
		rec([]gram.Tok{}, 0)
	}
}

// families groups the hook closures of a grammar by the function they were made from.
func funcName(f interface{}) string {
	v := reflect.ValueOf(f)
	if v.Kind() != reflect.Func || v.IsNil() {
		return ""
	}
	// e.g. ".../bql/semantic.dataAccumulator.func1" or, inlined,
	// ".../bql/grammar.SemanticBQL.DataAccumulatorHook.dataAccumulator.func9": the family is the
	// function that made the closure (last component that is not funcN / a number).
	n := runtime.FuncForPC(v.Pointer()).Name()
	if i := strings.LastIndex(n, "/"); i >= 0 {
		n = n[i+1:]
	}
	parts := strings.Split(n, ".")
	for len(parts) > 1 {
		last := parts[len(parts)-1]
		if strings.HasPrefix(last, "func") || (len(last) > 0 && last[0] >= '0' && last[0] <= '9') || strings.HasPrefix(last, "gowrap") {
			parts = parts[:len(parts)-1]
			continue
		}
		break
	}
	return parts[len(parts)-1]
}

func families(g *grammar.Grammar) []string {
	set := map[string]bool{}
	for _, clauses := range *g {
		for _, c := range clauses {
			for _, n := range []string{funcName(c.ProcessStart), funcName(c.ProcessEnd), funcName(c.ProcessedElement)} {
				if n != "" {
					set[n] = true
				}
			}
		}
	}
	var r []string
	for n := range set {
		r = append(r, n)
	}
	sort.Strings(r)
	return r
}

// refresh replaces, in g, the hooks of the given families by the corresponding hooks of a freshly
// built grammar (same rule, same alternative index).
func refresh(g *grammar.Grammar, fams map[string]bool) {
	f := grammar.SemanticBQL()
	for sym, clauses := range *g {
		fc := (*f)[sym]
		for i, c := range clauses {
			if i >= len(fc) {
				continue
			}
			if fams[funcName(c.ProcessStart)] {
				c.ProcessStart = fc[i].ProcessStart
			}
			if fams[funcName(c.ProcessEnd)] {
				c.ProcessEnd = fc[i].ProcessEnd
			}
			if fams[funcName(c.ProcessedElement)] {
				c.ProcessedElement = fc[i].ProcessedElement
			}
		}
	}
}

// attribute finds a minimal set of hook families whose closures must be replaced by fresh ones for
// the probe to get its fresh meaning after the history (delta debugging on the real code).
func attribute(hist []string, probe string, fresh outcome) (attr []string, other bool) {
	try := func(fams map[string]bool) bool {
		p, g := newSemParser()
		for _, h := range hist {
			parseWith(p, h)
		}
		refresh(g, fams)
		st, ok, _ := parseWith(p, probe)
		return sameOutcome(outcomeOf(st, ok), fresh)
	}
	_, g := newSemParser()
	all := families(g)
	set := map[string]bool{}
	for _, f := range all {
		set[f] = true
	}
	if !try(set) {
		return []string{}, true // not explained by state inside hook closures
	}
	for _, f := range all {
		delete(set, f)
		if !try(set) {
			set[f] = true
		}
	}
	for f := range set {
		attr = append(attr, f)
	}
	sort.Strings(attr)
	return attr, false
}

type stmt struct {
	toks []gram.Tok
	text string
}

type probeInfo struct {
	fresh outcome
	open  bool
	kinds []string
	end   string
}

var (
	probeCache = map[string]*probeInfo{}
	kindsCache = map[string][]string{}
)

func probeOf(text string) *probeInfo {
	if pi, ok := probeCache[text]; ok {
		return pi
	}
	fp, _ := newSemParser()
	st2, ok2, _ := parseWith(fp, text)
	fresh := outcomeOf(st2, ok2)
	fp3, _ := newSemParser()
	st3, ok3, _ := parseWith(fp3, text)
	pi := &probeInfo{fresh: fresh, open: !sameOutcome(fresh, outcomeOf(st3, ok3))}
	pi.kinds, pi.end = lexKinds(text)
	probeCache[text] = pi
	return pi
}

func histStmt(p *grammar.Parser, h string) hstmt {
	_, ok, _ := parseWith(p, h)
	ks, seen := kindsCache[h]
	if !seen {
		ks, _ = lexKinds(h)
		if len(kindsCache) < 200000 {
			kindsCache[h] = ks
		}
	}
	return hstmt{Text: h, Kinds: ks, Acc: ok}
}

func emitA(src string, hist []string, probe string) {
	p, _ := newSemParser()
	hs := make([]hstmt, 0, len(hist))
	for _, h := range hist {
		hs = append(hs, histStmt(p, h))
	}
	emitProbe(p, src, hs, len(hs), hist, probe)
}

// emitProbe parses the probe on parser p (which has already seen hlen statements, the last of them in hs) and
// compares its outcome with the one on a fresh parser.
func emitProbe(p *grammar.Parser, src string, hs []hstmt, hlen int, hist []string, probe string) {
	st, ok, _ := parseWith(p, probe)
	reused := outcomeOf(st, ok)
	pi := probeOf(probe)
	ev := aEvent{Ev: "A", Src: src, Hist: hs, Hlen: hlen, Text: probe, Kinds: pi.kinds, End: pi.end, Reused: reused, Fresh: pi.fresh, Open: pi.open, Attr: []string{}}
	if !pi.open && !sameOutcome(reused, pi.fresh) {
		// before a difference counts: is the meaning on a fresh parser deterministic at all?
		for k := 0; k < 8 && !pi.open; k++ {
			fp, _ := newSemParser()
			st2, ok2, _ := parseWith(fp, probe)
			pi.open = !sameOutcome(pi.fresh, outcomeOf(st2, ok2))
		}
		ev.Open = pi.open
	}
	if !pi.open && !sameOutcome(reused, pi.fresh) && src != "long" {
		ev.Attr, ev.Other = attribute(hist, probe, pi.fresh)
		if ev.Attr == nil {
			ev.Attr = []string{}
		}
		stats["a:differs"]++
	}
	if pi.fresh.Acc {
		stats["a:probe-fresh-accepted"]++
	}
	tw.Emit(ev)
	stats["a:"+src]++
}

var semMax = 40

func historyMode(sents []sentence, nbases, nprobes, nrandom, nlong, longLen, longEvery int) {
	c := &gram.Concretizer{Rng: rng}
	// statements the semantic grammar accepts on a fresh parser, by statement kind (first token)
	byKind := map[string][]stmt{}
	var kindsSeen []string
	if len(sents) == 0 {
		must(fmt.Errorf("no sentences"))
	}
	var semPairs [][2]string
	var semBad []stmt // grammatical statements that a semantic hook rejects (unknown binding in ORDER BY, GROUP BY, ...)
	for _, s := range sents {
		text := c.Text(s.S)
		p, _ := newSemParser()
		if _, ok, _ := parseWith(p, text); !ok {
			if parsePlain(text, nil) && len(semBad) < 400 {
				semBad = append(semBad, stmt{s.S, text})
			}
			continue
		}
		k := s.S[0].K
		if _, seen := byKind[k]; !seen {
			kindsSeen = append(kindsSeen, k)
		}
		byKind[k] = append(byKind[k], stmt{s.S, text})
	}
	sort.Strings(kindsSeen)
	var good []stmt
	for _, k := range kindsSeen {
		good = append(good, byKind[k]...)
	}
	stats["a:good-statements"] = len(good)
	// greedy cover: statements are picked while they add new (owner rule, token kind) pairs, so that
	// every hook sees every kind of token it handles; then seeded random ones up to n.
	cover := func(n int, all bool) []stmt {
		perm := rng.Perm(len(good))
		seen := map[string]bool{}
		var r []stmt
		used := map[int]bool{}
		for {
			best, bestGain := -1, 0
			for _, idx := range perm {
				if used[idx] {
					continue
				}
				gain := 0
				local := map[string]bool{}
				for _, t := range good[idx].toks {
					k := t.Own + "/" + t.K
					if !seen[k] && !local[k] {
						local[k] = true
						gain++
						if t.K == "BINDING" || t.K == "BEFORE" || t.K == "AFTER" || t.K == "BETWEEN" {
							gain += 10 // the tokens whose treatment depends on what a hook remembers
						}
					}
				}
				if gain > bestGain {
					best, bestGain = idx, gain
				}
			}
			if best < 0 || (len(r) >= n && !(all && bestGain >= 10)) {
				break
			}
			used[best] = true
			for _, t := range good[best].toks {
				seen[t.Own+"/"+t.K] = true
			}
			r = append(r, good[best])
		}
		for _, idx := range perm {
			if len(r) >= n {
				break
			}
			if !used[idx] {
				used[idx] = true
				r = append(r, good[idx])
			}
		}
		return r
	}
	bases, probes := cover(nbases, false), cover(nprobes, true)
	stats["a:bases"], stats["a:probes"] = len(bases), len(probes)
	garbage := [][]gram.Tok{{}, {{K: "SEMICOLON"}}, {{K: "NODE"}}, {{K: "LEFT_PARENT"}}}
	cutText := func(b stmt, cut int, g []gram.Tok) string {
		texts := c.Texts(b.toks) // fresh concretisation of the same sentence
		toks := append(append([]gram.Tok{}, b.toks[:cut]...), g...)
		return gram.Join(toks, append(append([]string{}, texts[:cut]...), c.Texts(g)...))
	}
	// (1) every base cut at every token position (plus nothing / one token that cannot follow), then every probe
	for _, b := range bases {
		for cut := 1; cut <= len(b.toks); cut++ {
			g := garbage[rng.Intn(len(garbage))]
			if cut == len(b.toks) {
				g = nil
			}
			h := cutText(b, cut, g)
			for _, p := range probes {
				src := "cut"
				if cut == len(b.toks) {
					src = "whole"
				}
				emitA(src, []string{h}, p.text)
			}
		}
	}
	// (1b) every statement that is grammatical but rejected by a semantic hook (the hook returns from the middle of its
	// work), then every probe; further variants of such statements are made by renaming one binding of a good statement
	// where it is USED (ORDER BY / GROUP BY / HAVING / FILTER ... then name something the statement does not bind)
	hasKind := func(b stmt, k string) bool {
		for _, t := range b.toks {
			if t.K == k {
				return true
			}
		}
		return false
	}
	ordered := append([]stmt{}, good...)
	sort.SliceStable(ordered, func(i, j int) bool { return hasKind(ordered[i], "ORDER") && !hasKind(ordered[j], "ORDER") })
	for _, b := range ordered {
		if len(semPairs) >= 4*semMax {
			break
		}
		for tries := 0; tries < 2; tries++ {
			texts := c.Texts(b.toks)
			var idx []int
			inUse := false // after GROUP / ORDER / HAVING: bindings are used there, not bound
			for i, t := range b.toks {
				if t.K == "ORDER" || t.K == "GROUP" || t.K == "HAVING" {
					inUse = true
				}
				if t.K == "BINDING" && (inUse || (tries == 1 && i > len(b.toks)/2)) {
					idx = append(idx, i)
				}
			}
			if len(idx) == 0 {
				break
			}
			goodText := gram.Join(b.toks, texts)
			// the same statement with every sorting direction turned round (same names)
			ftoks, ftexts := append([]gram.Tok{}, b.toks...), append([]string{}, texts...)
			flipped := false
			for i, t := range ftoks {
				if t.K == "ASC" {
					ftoks[i].K, ftexts[i], flipped = "DESC", "desc", true
				} else if t.K == "DESC" {
					ftoks[i].K, ftexts[i], flipped = "ASC", "asc", true
				}
			}
			texts[idx[rng.Intn(len(idx))]] = "?zz9"
			text := gram.Join(b.toks, texts)
			p, _ := newSemParser()
			if _, ok, _ := parseWith(p, text); !ok && parsePlain(text, nil) {
				semBad = append(semBad, stmt{b.toks, text})
				if len(semPairs) < 4*semMax {
					semPairs = append(semPairs, [2]string{text, goodText})
					if flipped {
						semPairs = append(semPairs, [2]string{text, gram.Join(ftoks, ftexts)})
					}
				}
			}
		}
	}
	// a key the statement does not output APPENDED to the ORDER BY list (the check has then already gone through the
	// other keys), followed by the same statement with the direction of its first key turned round
	orderRe := regexp.MustCompile(`(?i)(order by )(\?[a-z0-9_]+)( asc| desc)?([^;]*?)( having | before | after | between | limit | ;)`)
	for _, b := range ordered {
		if !hasKind(b, "ORDER") || len(semPairs) >= 8*semMax {
			continue
		}
		m := orderRe.FindStringSubmatchIndex(b.text)
		if m == nil {
			continue
		}
		bad := b.text[:m[10]] + " , ?zz9" + b.text[m[10]:]
		dir := " desc"
		if m[6] >= 0 && strings.EqualFold(strings.TrimSpace(b.text[m[6]:m[7]]), "desc") {
			dir = " asc"
		}
		turned := b.text[:m[5]] + dir + b.text[m[8]:]
		p, _ := newSemParser()
		if _, ok, _ := parseWith(p, bad); !ok && parsePlain(bad, nil) {
			semPairs = append(semPairs, [2]string{bad, turned}, [2]string{bad, b.text})
		}
	}
	// the rejected statement, then the statement it was made from (same names) and that statement with its sorting
	// directions turned round: what the hook remembered of the rejected one meets the same names again
	for _, pr := range semPairs {
		fp, _ := newSemParser()
		if _, ok, _ := parseWith(fp, pr[1]); ok {
			emitA("sem-rejected", []string{pr[0]}, pr[1])
		}
	}
	stats["a:sem-rejected-statements"] = len(semBad)
	nsb := len(semBad)
	if nsb > semMax {
		nsb = semMax
	}
	for _, i := range rng.Perm(len(semBad))[:nsb] {
		for _, p := range probes {
			emitA("sem-rejected", []string{semBad[i].text}, p.text)
		}
		// ... and the same statement again, corrected (the good statement it was made from uses the same names)
		emitA("sem-rejected", []string{semBad[i].text}, c.Text(semBad[i].toks))
	}
	// (2) seeded random histories of 2..6 statements (whole, cut, mutated)
	var allKinds []string
	for _, tt := range gram.AllKinds() {
		if k := gram.KindName(tt); k != "EOF" {
			allKinds = append(allKinds, k)
		}
	}
	all := append(append([]stmt{}, bases...), probes...)
	for i := 0; i < nrandom && len(all) > 0; i++ {
		n := 2 + rng.Intn(5)
		var hist []string
		for j := 0; j < n; j++ {
			b := all[rng.Intn(len(all))]
			switch x := rng.Intn(4); {
			case x == 0:
				hist = append(hist, b.text)
			case x == 1:
				hist = append(hist, cutText(b, 1+rng.Intn(len(b.toks)), garbage[rng.Intn(len(garbage))]))
			case x == 2 && len(semBad) > 0:
				hist = append(hist, semBad[rng.Intn(len(semBad))].text)
			default:
				hist = append(hist, c.Text(mutate(b.toks, allKinds)))
			}
		}
		emitA("random", hist, probes[rng.Intn(len(probes))].text)
	}
	// (3) long histories: thousands of statements (most of them rejected, at every depth of the grammar) on ONE
	// parser, with a probe now and then - state that only builds up slowly (a counter, a cache, a pool) shows here
	for rep := 0; rep < nlong && len(all) > 0; rep++ {
		p, _ := newSemParser()
		var tail []hstmt
		for i := 1; i <= longLen; i++ {
			b := all[rng.Intn(len(all))]
			var h string
			switch rng.Intn(4) {
			case 0:
				h = b.text
			case 1, 2:
				h = cutText(b, 1+rng.Intn(len(b.toks)), garbage[rng.Intn(len(garbage))])
			default:
				h = c.Text(mutate(b.toks, allKinds))
			}
			hsn := histStmt(p, h)
			tail = append(tail, hsn)
			if len(tail) > 3 {
				tail = tail[1:]
			}
			if i%longEvery == 0 {
				emitProbe(p, "long", append([]hstmt{}, tail...), i+(i/longEvery-1), nil, probes[rng.Intn(len(probes))].text)
			}
		}
	}
	// (4) collected statements: a long lived parser whose caller drops every Statement once it has looked at it
	// (a server loop); between two statements the collector runs and the next Statement is placed, when the
	// allocator allows it, in the memory of the dropped one. Whatever recognises "the statement I was working on"
	// by where it is rather than by holding it, shows here.
	if nCollected > 0 && len(all) > 0 {
		p, _ := newSemParser()
		seen := 0
		for i := 0; i < nCollected; i++ {
			b := all[rng.Intn(len(all))]
			h := b.text
			if rng.Intn(4) != 0 {
				h = cutText(b, 1+rng.Intn(len(b.toks)), garbage[rng.Intn(len(garbage))])
			}
			addr, hs := dropHist(p, h)
			seen++
			runtime.GC()
			st, same := newStatementAt(addr, 20000)
			if same {
				stats["a:collected-address-reused"]++
			}
			nextStmt = st
			emitProbe(p, "collected", []hstmt{hs}, seen, []string{h}, probes[rng.Intn(len(probes))].text)
			seen++
		}
	}
}

// textsMode replays logged cases: {"text": t} -> event P, {"text": t, "w": true} -> event W,
// {"hist": [..], "text": t} -> event A.
func textsMode(path string) {
	f, err := os.Open(path)
	must(err)
	defer f.Close()
	sc := bufio.NewScanner(f)
	sc.Buffer(make([]byte, 1<<20), 1<<26)
	for sc.Scan() {
		if len(strings.TrimSpace(sc.Text())) == 0 {
			continue
		}
		var c struct {
			Text string   `json:"text"`
			W    bool     `json:"w"`
			Hist []string `json:"hist"`
		}
		must(json.Unmarshal(sc.Bytes(), &c))
		switch {
		case c.Hist != nil:
			emitA("replay", c.Hist, c.Text)
		case c.W:
			kinds, end := lexKinds(c.Text)
			fir := []firing{}
			acc := parsePlain(c.Text, &fir)
			tw.Emit(wEvent{Ev: "W", Text: c.Text, Want: kinds, Kinds: kinds, End: end, Acc: acc, Fir: fir})
		default:
			emitP("replay", c.Text)
		}
	}
	must(sc.Err())
}

func main() {
	if len(os.Args) < 2 {
		must(fmt.Errorf("usage: parsedrv witness|parse|history|texts ..."))
	}
	mode := os.Args[1]
	fs := flag.NewFlagSet(mode, flag.ExitOnError)
	in := fs.String("in", "", "sentences (ndjson printed by the TLC derivation machine)")
	out := fs.String("out", "", "trace file")
	statsPath := fs.String("stats", "", "stats file (json)")
	seed := fs.Int64("seed", 1, "seed")
	mutations := fs.Int("mutations", 0, "mutated variants per sentence")
	enum := fs.Int("enum", 0, "all kind sequences up to this length")
	enumKeep := fs.Float64("enum-keep", 1, "fraction of the longest sequences kept (seeded)")
	trailing := fs.Bool("trailing", false, "also sentences followed by further tokens")
	substKeep := fs.Float64("subst-keep", 0, "parse mode: fraction of the (expected token, offered kind) substitutions to run")
	nbases := fs.Int("bases", 20, "history mode: statements cut at every position")
	nprobes := fs.Int("probes", 10, "history mode: probe statements")
	nrandom := fs.Int("random", 200, "history mode: random histories")
	fs.IntVar(&semMax, "sem-rejected", 40, "history mode: number of semantically rejected statements each followed by every probe")
	nlong := fs.Int("long", 0, "history mode: number of long histories on one parser")
	longLen := fs.Int("long-len", 12000, "history mode: statements per long history")
	longEvery := fs.Int("long-every", 400, "history mode: a probe after every this many statements of a long history")
	fs.IntVar(&nCollected, "collected", 0, "history mode: pairs (statement dropped and collected, probe placed in its memory) on one parser")
	must(fs.Parse(os.Args[2:]))
	rng = rand.New(rand.NewSource(*seed))
	var err error
	tw, err = trace.New(*out)
	must(err)
	if mode == "texts" {
		textsMode(*in)
		must(tw.Close())
		if *statsPath != "" {
			b, _ := json.Marshal(stats)
			must(os.WriteFile(*statsPath, b, 0o644))
		}
		return
	}
	sents := readSentences(*in)
	switch mode {
	case "witness":
		witness(sents)
	case "parse":
		parseMode(sents, *mutations, *enum, *enumKeep, *trailing, *substKeep)
	case "history":
		historyMode(sents, *nbases, *nprobes, *nrandom, *nlong, *longLen, *longEvery)
	default:
		must(fmt.Errorf("unknown mode %q", mode))
	}
	must(tw.Close())
	if *statsPath != "" {
		b, _ := json.Marshal(stats)
		must(os.WriteFile(*statsPath, b, 0o644))
	}
}
