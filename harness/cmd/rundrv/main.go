// rundrv executes BQL texts end to end on the real engine (lexer -> parser with semantic hooks -> planner ->
// executor, the steps of tools/vcli/bw/run.BQL) and records the outcome of every run as ndjson that
// spec/RunTrace.tla validates (C08): exactly one of table / error, no panic, no hang, no goroutine left.
//
//	rundrv cases -in sentences.ndjson -out cases.ndjson [-enum L -enum-keep P -prefixes -mutations N -random N]
//	rundrv run   -cases cases.ndjson -from I -to J -out T [-careful]
//
// "run" is started by lib/fam_grammar.py once per batch: a panic in a goroutine started by the engine or a
// log.Fatalf kills this process, which is exactly how it is observed (exit status + stderr); -careful
// announces every case on stderr so that the killer is identified.
package main

import (
	"bufio"
	"bytes"
	"context"
	"encoding/json"
	"flag"
	"fmt"
	"math/rand"
	"os"
	"regexp"
	"runtime"
	"runtime/debug"
	"strings"
	"time"

	"github.com/google/badwolf/bql/grammar"
	"github.com/google/badwolf/bql/planner"
	"github.com/google/badwolf/bql/semantic"
	"github.com/google/badwolf/bql/table"
	"github.com/google/badwolf/storage"
	"github.com/google/badwolf/storage/memory"
	"github.com/google/badwolf/triple"
	"github.com/google/badwolf/triple/literal"

	"verif/harness/gram"
	"verif/harness/trace"
)

type runCase struct {
	Src   string `json:"src"`
	Store string `json:"store"` // empty | populated
	Text  string `json:"text"`
}

type runEvent struct {
	Ev       string   `json:"ev"`
	I        int      `json:"i"`
	Src      string   `json:"src"`
	Store    string   `json:"store"`
	Text     string   `json:"text"`
	Kinds    []string `json:"kinds"` // as lexed, without the terminal token
	End      string   `json:"end"`   // terminal token kind
	NTok     int      `json:"ntok"`  // tokens of the whole stream, terminal included
	Stage    string   `json:"stage"` // parse | plan | execute | done: how far the run got
	Outcome  string   `json:"outcome"`
	Rows     int      `json:"rows"`
	Err      string   `json:"err"`
	Panic    string   `json:"panic"`
	Site     string   `json:"site"`      // first badwolf function on the panicking stack
	GBefore  int      `json:"g_before"`  // goroutines with badwolf frames before the run
	GAfter   int      `json:"g_after"`   // ... after the run has returned and the goroutines have settled
	Leaks    []string `json:"leaks"`     // innermost badwolf function of every goroutine left behind
	LexOnly  bool     `json:"lex_only"`  // every goroutine left behind is a lexer blocked on its token channel
	LeakWait string   `json:"leak_wait"` // blocked | running
}

var (
	tw       *trace.Writer
	rng      *rand.Rand
	careful  bool
	ctx      = context.Background()
	watchdog = 10 * time.Second
)

func must(err error) {
	if err != nil {
		fmt.Fprintln(os.Stderr, "rundrv:", err)
		os.Exit(3)
	}
}

// ------------------------------------------------------------------------------ stores ----

var populatedTriples = []string{
	`/u<a> "p"@[] /u<b>`,
	`/u<a> "p"@[] "1"^^type:int64`,
	`/u<b> "p"@[] "x"^^type:text`,
	`/u<b> "q"@[2020-01-01T00:00:00Z] /u<a>`,
	`/u<a> "q"@[2019-03-01T00:00:00Z] "1.5"^^type:float64`,
	`/v/w<a> "q"@[2021-11-11T11:11:11.000000011Z] "true"^^type:bool`,
	`/u<a> "p"@[] "q"@[2020-01-01T00:00:00Z]`,
	`/_<x> "p"@[] /u<a>`,
}

// stores are rebuilt only after a run that may have changed them (memory.NewGraph preallocates ~2 MB)
var (
	cached = map[string]storage.Store{}
	known  map[string]ginfo // engine goroutines known to exist (left behind by earlier runs of this process)
)

func storeFor(kind string) storage.Store {
	if st, ok := cached[kind]; ok {
		return st
	}
	cached[kind] = newStore(kind)
	return cached[kind]
}

// largeTriples: enough rows (more than twice the number of processors) for the per-row fan-out of the planner
func largeTriples() []string {
	ts := append([]string{}, populatedTriples...)
	for i := 0; i < 90; i++ {
		ts = append(ts,
			fmt.Sprintf(`/u<n%d> "p"@[] /u<n%d>`, i, (i+1)%90),
			fmt.Sprintf(`/u<n%d> "w"@[] "%d"^^type:int64`, i, i%7),
			fmt.Sprintf(`/u<n%d> "q"@[2020-01-01T00:00:0%dZ] "x%d"^^type:text`, i, i%6, i%5))
	}
	return ts
}

func newStore(kind string) storage.Store {
	st := memory.NewStore()
	if kind == "large" {
		for _, name := range []string{"?a", "?b", "?c"} {
			g, err := st.NewGraph(ctx, name)
			must(err)
			if name == "?c" {
				continue
			}
			var ts []*triple.Triple
			for i, s := range largeTriples() {
				if name == "?b" && i > 40 {
					break
				}
				t, err := triple.Parse(s, literal.DefaultBuilder())
				must(err)
				ts = append(ts, t)
			}
			must(g.AddTriples(ctx, ts))
		}
	}
	if kind == "populated" {
		for _, name := range []string{"?a", "?b", "?c"} {
			g, err := st.NewGraph(ctx, name)
			must(err)
			if name == "?c" {
				continue // an empty graph next to the populated ones
			}
			var ts []*triple.Triple
			for _, s := range populatedTriples {
				t, err := triple.Parse(s, literal.DefaultBuilder())
				must(err)
				ts = append(ts, t)
			}
			must(g.AddTriples(ctx, ts))
		}
	}
	return st
}

// ------------------------------------------------------------------------------ goroutines ----

type ginfo struct {
	id    string
	state string
	inner string // innermost badwolf function
	lexer bool   // blocked in lexer.(*lexer).emit* on a channel send
}

var (
	headRe = regexp.MustCompile(`^goroutine (\d+) \[([^\]]*)\]:`)
	selfRe = regexp.MustCompile(`^(main\.|verif/harness/)`)
)

// engineGoroutines lists the goroutines that have a badwolf frame (this driver's own goroutines, which
// call into the engine while a run is in progress, are gone when this is called after the run).
func engineGoroutines() map[string]ginfo {
	buf := make([]byte, 1<<20)
	for {
		n := runtime.Stack(buf, true)
		if n < len(buf) {
			buf = buf[:n]
			break
		}
		buf = make([]byte, 2*len(buf))
	}
	res := map[string]ginfo{}
	for _, blk := range bytes.Split(buf, []byte("\n\n")) {
		lines := strings.Split(string(blk), "\n")
		m := headRe.FindStringSubmatch(lines[0])
		if m == nil {
			continue
		}
		g := ginfo{id: m[1], state: m[2]}
		self := false
		for _, ln := range lines[1:] {
			if strings.HasPrefix(ln, "\t") || strings.HasPrefix(ln, "created by") {
				continue
			}
			fn := ln
			if i := strings.LastIndex(fn, "("); i > 0 {
				fn = fn[:i]
			}
			if selfRe.MatchString(fn) {
				self = true
			}
			if strings.Contains(fn, "github.com/google/badwolf/") && g.inner == "" {
				g.inner = strings.TrimPrefix(fn, "github.com/google/badwolf/")
			}
		}
		if g.inner == "" || self {
			continue
		}
		g.lexer = strings.HasPrefix(g.inner, "bql/lexer.(*lexer).emit") && strings.HasPrefix(g.state, "chan send")
		res[g.id] = g
	}
	return res
}

func blocked(state string) bool {
	// (a goroutine that sleeps or waits for I/O will move again: it counts as running)
	for _, p := range []string{"chan send", "chan receive", "select", "semacquire", "sync."} {
		if strings.HasPrefix(state, p) {
			return true
		}
	}
	return false
}

// settle waits until the goroutines started on behalf of the run are gone; what is left is either
// blocked for good (all of them seen blocked in >= 3 samples over >= 300 ms) or still running after 3 s.
func settle(before map[string]ginfo, n0 int) (left []ginfo, wait string) {
	for i := 0; i < 20; i++ {
		if runtime.NumGoroutine() <= n0 {
			return nil, ""
		}
		runtime.Gosched()
	}
	deadline := time.Now().Add(3 * time.Second)
	blockedSamples := 0
	var blockedSince time.Time
	sleep := 200 * time.Microsecond
	for {
		now := engineGoroutines()
		left = left[:0]
		allBlocked, lexOnly := true, true
		for id, g := range now {
			if _, old := before[id]; !old {
				left = append(left, g)
				allBlocked = allBlocked && blocked(g.state)
				lexOnly = lexOnly && g.lexer
			}
		}
		if len(left) == 0 {
			return nil, ""
		}
		if allBlocked {
			if blockedSamples == 0 {
				blockedSince = time.Now()
			}
			blockedSamples++
			// a lexer blocked on its token channel while no other engine goroutine exists has lost its
			// only consumer (the parser that has returned): two samples are enough; anything else must
			// be seen blocked, with every goroutine of the run blocked, for 300 ms
			if (lexOnly && blockedSamples >= 2) || (blockedSamples >= 3 && time.Since(blockedSince) >= 300*time.Millisecond) {
				return left, "blocked"
			}
		} else {
			blockedSamples = 0
		}
		if time.Now().After(deadline) {
			return left, "running"
		}
		time.Sleep(sleep)
		if sleep < 20*time.Millisecond {
			sleep *= 4
		}
	}
}

// ------------------------------------------------------------------------------ one run ----

type result struct {
	stage string
	tbl   *table.Table
	err   error
	pan   string
	site  string
}

var frameRe = regexp.MustCompile(`^(github\.com/google/badwolf/[^\s(]+(?:\([^)]*\))?[^\s(]*)\(`)

func panicSite(stack []byte) string {
	lines := strings.Split(string(stack), "\n")
	seenPanic := false
	for _, ln := range lines {
		if strings.HasPrefix(ln, "panic(") {
			seenPanic = true
			continue
		}
		if !seenPanic || strings.HasPrefix(ln, "\t") {
			continue
		}
		if strings.HasPrefix(ln, "github.com/google/badwolf/") {
			fn := ln
			if i := strings.LastIndex(fn, "("); i > 0 {
				fn = fn[:i]
			}
			return strings.TrimPrefix(fn, "github.com/google/badwolf/")
		}
	}
	return ""
}

// bql mirrors tools/vcli/bw/run.BQL step by step (fresh SemanticBQL() parser per statement).
func bql(text string, st storage.Store) (r result) {
	defer func() {
		if x := recover(); x != nil {
			r.pan = fmt.Sprint(x)
			r.site = panicSite(debug.Stack())
		}
	}()
	r.stage = "parse"
	p, err := grammar.NewParser(grammar.SemanticBQL())
	if err != nil {
		r.err = err
		return
	}
	stm := &semantic.Statement{}
	if err := p.Parse(grammar.NewLLk(text, 1), stm); err != nil {
		r.err = err
		return
	}
	r.stage = "plan"
	pln, err := planner.New(ctx, st, stm, 16, 8, nil)
	if err != nil {
		r.err = err
		return
	}
	r.stage = "execute"
	tbl, err := pln.Execute(ctx)
	r.tbl, r.err = tbl, err
	if err == nil {
		r.stage = "done"
	}
	return
}

func runOne(i int, c runCase) (ev runEvent, hung bool) {
	if careful {
		fmt.Fprintf(os.Stderr, "CURRENT %d\n", i)
	}
	ev = runEvent{Ev: "Run", I: i, Src: c.Src, Store: c.Store, Text: c.Text, Leaks: []string{}}
	lr := gram.Lex(c.Text, 64, watchdog)
	ks := gram.Kinds(lr.Toks)
	ev.NTok = len(ks)
	ev.Kinds = []string{}
	if len(ks) > 0 {
		ev.Kinds, ev.End = ks[:len(ks)-1], ks[len(ks)-1]
	}
	st := storeFor(c.Store)
	if known == nil {
		runtime.Gosched()
		known = engineGoroutines()
	}
	before := known
	n0 := runtime.NumGoroutine()
	ev.GBefore = len(before)
	done := make(chan result, 1)
	go func() { done <- bql(c.Text, st) }()
	var r result
	select {
	case r = <-done:
	case <-time.After(watchdog):
		ev.Outcome, ev.Stage = "Timeout", "?"
		ev.GAfter = len(engineGoroutines())
		return ev, true
	}
	ev.Stage = r.stage
	switch {
	case r.pan != "":
		ev.Outcome, ev.Panic, ev.Site = "Panic", r.pan, r.site
	case r.err != nil && r.tbl != nil:
		// Execute returned a table AND an error; run.BQL hands only the error to its caller
		ev.Outcome, ev.Err, ev.Rows = "Error", r.err.Error(), -1
	case r.err != nil:
		ev.Outcome, ev.Err = "Error", r.err.Error()
	case r.tbl != nil:
		ev.Outcome, ev.Rows = "Table", r.tbl.NumRows()
	default:
		ev.Outcome = "Neither"
	}
	if len(ev.Err) > 300 {
		ev.Err = ev.Err[:300]
	}
	if r.stage == "execute" || r.stage == "done" {
		if len(ev.Kinds) == 0 || (ev.Kinds[0] != "QUERY" && ev.Kinds[0] != "SHOW") || r.pan != "" {
			delete(cached, c.Store) // the statement may have changed the store
		}
	}
	left, wait := settle(before, n0)
	for _, g := range left {
		known[g.id] = g
	}
	ev.GAfter = ev.GBefore + len(left)
	ev.LeakWait = wait
	ev.LexOnly = len(left) > 0
	for _, g := range left {
		ev.Leaks = append(ev.Leaks, g.inner+" ["+g.state+"]")
		ev.LexOnly = ev.LexOnly && g.lexer
	}
	return ev, false
}

// ------------------------------------------------------------------------------ cases ----

type sentence struct {
	S []gram.Tok `json:"s"`
}

func readLines(path string, f func([]byte)) {
	fh, err := os.Open(path)
	must(err)
	defer fh.Close()
	sc := bufio.NewScanner(fh)
	sc.Buffer(make([]byte, 1<<20), 1<<26)
	for sc.Scan() {
		if len(bytes.TrimSpace(sc.Bytes())) > 0 {
			f(sc.Bytes())
		}
	}
	must(sc.Err())
}

func genCases(in, out string, enum int, enumKeep float64, mutations, nrandom, variants int) {
	var sents []sentence
	readLines(in, func(b []byte) {
		var s sentence
		must(json.Unmarshal(b, &s))
		sents = append(sents, s)
	})
	w, err := trace.New(out)
	must(err)
	n := 0
	emit := func(src, text string) {
		store := "populated"
		if n%3 == 2 {
			store = "empty"
		}
		n++
		w.Emit(runCase{Src: src, Store: store, Text: text})
	}
	var allKinds []string
	for _, tt := range gram.AllKinds() {
		if k := gram.KindName(tt); k != "EOF" {
			allKinds = append(allKinds, k)
		}
	}
	plain := &gram.Concretizer{Rng: rng}
	hostile := &gram.Concretizer{Rng: rng, Hostile: true}
	for _, s := range sents {
		// the sentence itself, with plain and with hostile texts
		emit("sentence", plain.Text(s.S))
		for v := 0; v < variants; v++ {
			emit("sentence-hostile", hostile.Text(s.S))
		}
		// every valid prefix + one token that may not follow (seeded choice), and the bare prefix
		cut := 1 + rng.Intn(len(s.S))
		pre := append([]gram.Tok{}, s.S[:cut]...)
		emit("prefix", hostile.Text(pre))
		emit("prefix+token", hostile.Text(append(pre, gram.Tok{K: allKinds[rng.Intn(len(allKinds))]})))
		for m := 0; m < mutations; m++ {
			emit("mutation", hostile.Text(mutateToks(s.S, allKinds)))
		}
		// the statement followed by more tokens than the lexer's channel can buffer
		o := sents[rng.Intn(len(sents))]
		emit("trailing", hostile.Text(append(append([]gram.Tok{}, s.S...), o.S...)))
	}
	// ONE hostile text at a time: for every (owning rule, kind) of a value token, up to two statements that the
	// semantic parser accepts with plain texts, and each hostile text of that kind at that position
	type ctxKey struct{ own, k string }
	used := map[ctxKey]int{}
	det := &gram.Concretizer{} // deterministic plain texts
	for _, s := range sents {
		var todo []int
		for i, t := range s.S {
			if len(gram.HostileOptions(s.S, i)) > 0 && used[ctxKey{t.Own, t.K}] < 2 {
				todo = append(todo, i)
			}
		}
		if len(todo) == 0 {
			continue
		}
		texts := det.Texts(s.S)
		p, err := grammar.NewParser(grammar.SemanticBQL())
		must(err)
		if p.Parse(grammar.NewLLk(gram.Join(s.S, texts), 1), &semantic.Statement{}) != nil {
			continue
		}
		for _, i := range todo {
			used[ctxKey{s.S[i].Own, s.S[i].K}]++
			for _, h := range gram.HostileOptions(s.S, i) {
				tt := append([]string{}, texts...)
				tt[i] = h
				emit("one-hostile-token", gram.Join(s.S, tt))
			}
		}
	}
	var rec func(prefix []gram.Tok, depth int)
	rec = func(prefix []gram.Tok, depth int) {
		if depth < enum || enumKeep >= 1 || rng.Float64() < enumKeep {
			emit("enum", hostile.Text(prefix))
		}
		if depth == enum {
			return
		}
		for _, k := range allKinds {
			rec(append(append([]gram.Tok{}, prefix...), gram.Tok{K: k}), depth+1)
		}
	}
	if enum > 0 {
		rec([]gram.Tok{}, 0)
	}
	frag := []string{"\"", "\"@[", "]", "\"^^type:", "text", "int64", "/", "<", ">", "?", "_:", "\\", " ", "\n", ",", ";", "select", "before", "filter", "=", "1", "é",
		"2020-01-01T00:00:00Z", "{", "}", "(", ")", ".", "\x00", "\xff", " ", " ", "limit", "\"-1\"^^type:int64", "sum(", "count(", "group by", "having"}
	for i := 0; i < nrandom; i++ {
		var text string
		switch i % 3 {
		case 0: // random bytes
			b := make([]byte, rng.Intn(40))
			for j := range b {
				b[j] = byte(rng.Intn(256))
			}
			text = string(b)
		case 1: // byte-level mutation of a statement
			text = hostile.Text(sents[rng.Intn(len(sents))].S)
			for k := rng.Intn(3) + 1; k > 0 && len(text) > 0; k-- {
				p := rng.Intn(len(text))
				switch rng.Intn(4) {
				case 0:
					text = text[:p] + text[p+1:]
				case 1:
					text = text[:p] + frag[rng.Intn(len(frag))] + text[p:]
				case 2:
					text = text[:p]
				case 3:
					text = text[:p] + text[p:] + text[p:]
				}
			}
		default:
			for k := rng.Intn(10); k >= 0; k-- {
				text += frag[rng.Intn(len(frag))]
			}
		}
		emit("random", text)
	}
	must(w.Close())
	fmt.Printf("%d\n", n)
}

func mutateToks(toks []gram.Tok, kinds []string) []gram.Tok {
	r := append([]gram.Tok{}, toks...)
	if len(r) == 0 {
		return r
	}
	pos := rng.Intn(len(r))
	switch rng.Intn(5) {
	case 0:
		r[pos] = gram.Tok{K: kinds[rng.Intn(len(kinds))]}
	case 1:
		r = append(r[:pos], r[pos+1:]...)
	case 2:
		r = append(r[:pos+1], r[pos:]...)
	case 3:
		r = append(r[:pos], append([]gram.Tok{{K: kinds[rng.Intn(len(kinds))]}}, r[pos:]...)...)
	case 4:
		if pos+1 < len(r) {
			r[pos], r[pos+1] = r[pos+1], r[pos]
		}
	}
	return r
}

func main() {
	if len(os.Args) < 2 {
		must(fmt.Errorf("usage: rundrv cases|run ..."))
	}
	mode := os.Args[1]
	fs := flag.NewFlagSet(mode, flag.ExitOnError)
	in := fs.String("in", "", "sentences (ndjson printed by the TLC derivation machine)")
	out := fs.String("out", "", "output file")
	casesPath := fs.String("cases", "", "run: case file")
	from := fs.Int("from", 0, "run: first case")
	to := fs.Int("to", 1<<30, "run: one past the last case")
	seed := fs.Int64("seed", 1, "seed")
	enum := fs.Int("enum", 2, "cases: all kind sequences up to this length")
	enumKeep := fs.Float64("enum-keep", 1, "cases: fraction kept of the longest sequences")
	mutations := fs.Int("mutations", 2, "cases: mutated variants per sentence")
	variants := fs.Int("variants", 2, "cases: hostile concretisations per sentence")
	nrandom := fs.Int("random", 1000, "cases: random texts")
	fs.BoolVar(&careful, "careful", false, "announce every case on stderr and flush every event")
	must(fs.Parse(os.Args[2:]))
	rng = rand.New(rand.NewSource(*seed))
	switch mode {
	case "cases":
		genCases(*in, *out, *enum, *enumKeep, *mutations, *nrandom, *variants)
	case "run":
		var cases []runCase
		readLines(*casesPath, func(b []byte) {
			var c runCase
			must(json.Unmarshal(b, &c))
			cases = append(cases, c)
		})
		var err error
		tw, err = trace.New(*out)
		must(err)
		for i := *from; i < *to && i < len(cases); i++ {
			ev, hung := runOne(i, cases[i])
			tw.Emit(ev)
			tw.Flush() // the next run may kill the process

			if hung {
				tw.Close()
				os.Exit(9) // the hung run keeps its goroutine: continue in a fresh process
			}
		}
		must(tw.Close())
	default:
		must(fmt.Errorf("unknown mode %q", mode))
	}
}
