// grammardump writes the grammar tables of the CURRENT tree (grammar.BQL() and grammar.SemanticBQL())
// and the lexer's token alphabet as JSON; lib/fam_grammar.py turns it into spec/GrammarData.tla.
//
// An element of an alternative is a token iff Element.Symbol() == "" (exported accessors only).
package main

import (
	"encoding/json"
	"flag"
	"fmt"
	"os"
	"sort"

	"github.com/google/badwolf/bql/grammar"
	"github.com/google/badwolf/bql/lexer"

	"verif/harness/gram"
)

type elem struct {
	Tok bool   `json:"tok"`
	V   string `json:"v"`
}

type dump struct {
	Start        string              `json:"start"`
	Plain        map[string][][]elem `json:"plain"`
	Semantic     map[string][][]elem `json:"semantic"`
	Kinds        []string            `json:"kinds"`      // every token kind the lexer package names
	KindIDs      []int               `json:"kind_ids"`   // lexer.TokenType values, same order
	NewParserErr []string            `json:"new_parser"` // error text of grammar.NewParser for plain / semantic ("" = ok)
}

func table(g *grammar.Grammar) map[string][][]elem {
	res := map[string][][]elem{}
	for sym, clauses := range *g {
		alts := make([][]elem, 0, len(clauses))
		for _, c := range clauses {
			alt := make([]elem, 0, len(c.Elements))
			for _, e := range c.Elements {
				if e.Symbol() == "" {
					alt = append(alt, elem{Tok: true, V: gram.KindName(e.Token())})
				} else {
					alt = append(alt, elem{Tok: false, V: string(e.Symbol())})
				}
			}
			alts = append(alts, alt)
		}
		res[string(sym)] = alts
	}
	return res
}

func main() {
	out := flag.String("out", "", "output file")
	flag.Parse()
	d := dump{Start: "START", Plain: table(grammar.BQL()), Semantic: table(grammar.SemanticBQL())}
	for _, tt := range gram.AllKinds() {
		d.Kinds = append(d.Kinds, gram.KindName(tt))
		d.KindIDs = append(d.KindIDs, int(tt))
	}
	_ = sort.Strings
	for _, g := range []*grammar.Grammar{grammar.BQL(), grammar.SemanticBQL()} {
		msg := ""
		if _, err := grammar.NewParser(g); err != nil {
			msg = err.Error()
		}
		d.NewParserErr = append(d.NewParserErr, msg)
	}
	_ = lexer.ItemEOF
	b, err := json.Marshal(d)
	if err != nil {
		fmt.Fprintln(os.Stderr, err)
		os.Exit(3)
	}
	if *out == "" {
		os.Stdout.Write(b)
		return
	}
	if err := os.WriteFile(*out, b, 0o644); err != nil {
		fmt.Fprintln(os.Stderr, err)
		os.Exit(3)
	}
}
