package main

// C05: print -> parse -> print of values; WriteGraph -> ReadIntoGraph of graphs.

import (
	"bytes"
	"strings"
	"time"

	bio "github.com/google/badwolf/io"
	"github.com/google/badwolf/triple"
	"github.com/google/badwolf/triple/literal"
)

// RTEvent is one round trip of one value through its printer and its parser.
//
//	dom        features outside / not clearly inside the documented domain (non-empty => open)
//	v          components of the value (with zone offsets)
//	out        print-panic | value|invalid|nil|error|panic   (what parsing the printed text gave)
//	pv         components of the parsed value, reprinted = its printed form
type RTEvent struct {
	Ev        string   `json:"ev"`
	Kind      string   `json:"kind"`
	Src       string   `json:"src"`
	Dom       []string `json:"dom"`
	V         []Rec    `json:"v"`
	Printed   string   `json:"printed"`
	Out       string   `json:"out"`
	Site      string   `json:"site"`
	Msg       string   `json:"msg"`
	PV        []Rec    `json:"pv"`
	Reprinted string   `json:"reprinted"`
	CBad      []int    `json:"cbad"` // triples: which of subject(1)/predicate(2)/object(3) fail their OWN round trip
}

func rtCase(sp *VSpec, src string) {
	v, err := build(sp)
	if err != nil {
		stat("ctor-rejected")
		return
	}
	ev := RTEvent{Ev: "RT", Kind: v.K, Src: src, PV: []Rec{}, CBad: []int{}}
	ev.Dom = domFlags(v)
	ev.V, _ = proj(v, true)
	nontrivial := false
	watched(func() { ev.Out = "timeout"; tw.Emit(ev) }, func() {
		s, p, site, msg := printValue(v)
		if p {
			ev.Out, ev.Site, ev.Msg = "print-panic", site, msg
			return
		}
		ev.Printed = tok(s)
		nontrivial = nontrivialRecs(ev.V)
		r := parseKind(v.K, s, true)
		ev.Out, ev.Site, ev.Msg, ev.PV = r.Out, r.Site, r.Msg, r.Recs
		if v.K == "triple" && (r.Out != "value" || !sameRecs(r.Recs, ev.V)) {
			ev.CBad = badComponents(v.T)
		}
		if r.Out == "value" {
			s2, p2, site2, msg2 := printValue(r.V)
			if p2 {
				ev.Out, ev.Site, ev.Msg = "reprint-panic", site2, msg2
			} else {
				ev.Reprinted = tok(s2)
			}
		}
	})
	key := v.K + "\x00" + ev.Printed
	if litBound > 0 {
		key = "bounded" + itoa(litBound) + "\x00" + key
		ev.Src = src + "-bounded"
	}
	if seen[key] {
		stat("dup")
		return
	}
	tw.Emit(ev)
	stat("RT:" + v.K + ":" + ev.Out)
	if src == "tlc" {
		stat("tlc-cases")
	}
	if len(ev.Dom) > 0 {
		stat("RT:open-domain")
	}
	countCase(key, nontrivial)
	if ev.Out != "value" || len(ev.Dom) > 0 {
		keepSample("RT-"+v.K+"-"+ev.Out, ev)
	} else {
		keepSample("RT-"+v.K+"-"+src, ev)
	}
}

// inContexts runs the round trip of a node / predicate / literal on its own, as an object and
// inside a triple (as subject / predicate / object).
var (
	ctxS = nodeSpec("/t", "s")
	ctxP = immSpec("p")
	ctxQ = tmpSpec("q", time.Date(2006, 1, 2, 15, 4, 5, 999999999, time.FixedZone("", -7*3600)))
	ctxO = nodeSpec("/t", "o")
	ctxL = textSpec("x")
)

func inContexts(sp *VSpec, src string, triples bool) {
	rtCase(sp, src)
	rtCase(objSpec(sp), src)
	if !triples {
		return
	}
	switch sp.K {
	case "node":
		rtCase(tripleSpec(sp, ctxP, ctxO), src)
		rtCase(tripleSpec(sp, ctxQ, ctxL), src)
		rtCase(tripleSpec(ctxS, ctxP, sp), src)
	case "pred":
		rtCase(tripleSpec(ctxS, sp, ctxO), src)
		rtCase(tripleSpec(ctxS, sp, ctxL), src)
		rtCase(tripleSpec(ctxS, ctxQ, sp), src)
	case "lit":
		rtCase(tripleSpec(ctxS, ctxP, sp), src)
		rtCase(tripleSpec(ctxS, ctxQ, sp), src)
	}
}

// GRTEvent is one WriteGraph / ReadIntoGraph round trip.
//
//	src/dst   what Graph.Triples lists in the source graph / in the graph read back (zone-free)
//	out       ok | add-panic | write-panic | read-panic | timeout
type GRTEvent struct {
	Ev     string   `json:"ev"`
	Src    string   `json:"src"`
	Dom    []string `json:"dom"`
	N      int      `json:"n"` // number of triples handed to AddTriples
	T      [][]Rec  `json:"t"` // their components (with zone offsets), in batch order
	G      [][]Rec  `json:"g"`
	Wcount int      `json:"wcount"`
	Werr   bool     `json:"werr"`
	Lines  int      `json:"lines"`
	Rcount int      `json:"rcount"`
	Rerr   bool     `json:"rerr"`
	G2     [][]Rec  `json:"g2"`
	Out    string   `json:"out"`
	Site   string   `json:"site"`
	Msg    string   `json:"msg"`
	Feat   []string `json:"feat"` // mechanical features of the written text (for classification)
	Bad    [][]int  `json:"bad"`  // [i, c...]: triple i (1-based, into g) fails its own print/parse round trip; c = its components (1..3) that fail theirs
}

func grtCase(specs []*VSpec, src string) {
	ev := GRTEvent{Ev: "GRT", Src: src, Dom: []string{}, T: [][]Rec{}, G: [][]Rec{}, G2: [][]Rec{}, Feat: []string{}, Bad: [][]int{}, Out: "ok"}
	var ts []*triple.Triple
	dom := map[string]bool{}
	for _, sp := range specs {
		v, err := build(sp)
		if err != nil {
			stat("ctor-rejected")
			continue
		}
		ts = append(ts, v.T)
		if recs, _ := proj(v, true); len(recs) == 3 && len(recs[2].B) < 2000 {
			ev.T = append(ev.T, recs)
		} else {
			ev.T = append(ev.T, []Rec{}) // (a very long literal: the event is not replayable from itself)
		}
		for _, d := range domFlags(v) {
			dom[d] = true
		}
	}
	for _, d := range []string{"node-id-space", "node-type-angle", "node-type-space", "pred-id-space", "id-not-utf8", "zone-sub-minute",
		"year-out-of-range", "float-nan"} {
		if dom[d] {
			ev.Dom = append(ev.Dom, d)
		}
	}
	ev.N = len(ts)
	g, g2 := freshGraph(), freshGraph()
	defer dropGraph(g)
	defer dropGraph(g2)
	var text string
	watched(func() { ev.Out = "timeout"; tw.Emit(ev) }, func() {
		if p, site, msg := protect(func() { g.AddTriples(ctx, ts) }); p {
			ev.Out, ev.Site, ev.Msg = "add-panic", site, msg
			return
		}
		var listed []*triple.Triple
		ev.G, listed, _ = listGraphT(g)
		for i, t := range listed {
			v := &Value{K: "triple", T: t}
			want, _ := proj(v, true)
			s, p, _, _ := printValue(v)
			r := parseKind("triple", s, true)
			if p || r.Out != "value" || !sameRecs(r.Recs, want) {
				ev.Bad = append(ev.Bad, append([]int{i + 1}, badComponents(t)...))
			}
		}
		var buf bytes.Buffer
		var err error
		if p, site, msg := protect(func() { ev.Wcount, err = bio.WriteGraph(ctx, &buf, g) }); p {
			ev.Out, ev.Site, ev.Msg = "write-panic", site, msg
			return
		}
		ev.Werr = err != nil
		text = buf.String()
		ev.Lines = strings.Count(text, "\n")
		if p, site, msg := protect(func() { ev.Rcount, err = bio.ReadIntoGraph(ctx, g2, &buf, literal.DefaultBuilder()) }); p {
			ev.Out, ev.Site, ev.Msg = "read-panic", site, msg
			return
		}
		ev.Rerr = err != nil
		ev.G2, _ = listGraph(g2)
	})
	// mechanical features of the text (computed from the written bytes, used only to name classes)
	if ev.Lines > len(ev.G) {
		ev.Feat = append(ev.Feat, "newline-inside-value")
	}
	for _, ln := range strings.Split(text, "\n") {
		if len(ln) >= 64*1024 {
			ev.Feat = append(ev.Feat, "line-over-64k")
			break
		}
	}
	tw.Emit(ev)
	stat("GRT:" + ev.Out)
	countCase("GRT\x00"+text+itoa(len(ts)), len(ts) > 0)
	keepSample("GRT-"+src, ev)
}

func runRT(candFile string) {
	thorough := tier == "thorough"
	// 1. TLC candidates (round-trip counterexamples of spec/ValueText.tla)
	for _, c := range loadCands(candFile) {
		switch {
		case c.M == "rt" && c.V != nil:
			rtCase(c.V, "tlc")
			stat("cands")
		case c.M == "graph":
			grtCase(c.Vs, "replay")
		}
	}
	if onlyCands {
		return
	}
	// 1b. the bounded literal builder: what it BUILDS it must read back (texts of ASCII and multi-byte characters and
	// blobs around the bound; built, printed and parsed with the same builder, alone, as object and inside a triple)
	for _, bound := range []int{3, 8} {
		litBound = bound
		for n := 0; n <= bound+1; n++ {
			for _, unit := range []string{"a", "é", "日", "\"", "a é"} {
				inContexts(textSpec(strings.Repeat(unit, n)), "bounded", true)
			}
			bs := make([]byte, n)
			for i := range bs {
				bs[i] = byte(200 + i)
			}
			inContexts(blobSpec(bs), "bounded", true)
		}
	}
	litBound = 0
	// 2. the near-miss universe, each value in every context
	for _, sp := range univ.Values {
		if sp.K == "triple" || sp.K == "obj" {
			rtCase(sp, "universe")
		} else {
			inContexts(sp, "universe", true)
		}
	}
	// 3. all strings up to L over the delimiter alphabet as node id, node type, predicate id
	//    (immutable and temporal), text; alone and as object for all, inside triples up to LT
	L, LT := 3, 2
	if thorough {
		L, LT = 4, 3
	}
	anchor := time.Date(2016, 12, 31, 23, 59, 59, 100000000, time.FixedZone("", 19800))
	enumStrings(alphabet, L, func(s string) {
		tr := len([]rune(s)) <= LT
		inContexts(nodeSpec("/t", s), "exh-node-id", tr)
		inContexts(nodeSpec("/"+s, "i"), "exh-node-type", tr)
		inContexts(immSpec(s), "exh-pred-id", tr)
		inContexts(tmpSpec(s, anchor), "exh-pred-id", tr)
		inContexts(textSpec(s), "exh-text", tr)
	})
	inContexts(textSpec(""), "exh-text", true)
	// 4. delimiter sequences embedded in longer ids and texts
	for _, d := range delimSeqs {
		for _, w := range []string{d, "a" + d, d + "b", "a" + d + "b", d + d} {
			inContexts(nodeSpec("/t", w), "delim", true)
			inContexts(nodeSpec("/t/"+w, "i"), "delim", true)
			inContexts(immSpec(w), "delim", true)
			inContexts(tmpSpec(w, anchor), "delim", true)
			inContexts(textSpec(w), "delim", true)
			inContexts(blobSpec([]byte(w)), "delim", true)
		}
	}
	// 5. numbers: boundary sets and seeded random values
	for _, v := range int64Boundaries() {
		inContexts(intSpec(v), "int64-boundary", true)
	}
	for _, f := range float64Specials() {
		inContexts(floatSpec(f), "float64-special", true)
	}
	inContexts(boolSpec(true), "bool", true)
	inContexts(boolSpec(false), "bool", true)
	nnum := 1200
	if thorough {
		nnum = 60000
	}
	for i := 0; i < nnum; i++ {
		inContexts(intSpec(randInt64()), "int64-random", i%10 == 0)
		inContexts(floatSpec(randFloat64()), "float64-random", i%10 == 0)
	}
	// 6. anchors: boundary instants and random instants in random zones with nanoseconds
	for _, t := range anchorBoundaries() {
		inContexts(tmpSpec("when", t), "anchor-boundary", true)
	}
	for _, t := range subMinuteAnchors() {
		inContexts(tmpSpec("when", t), "anchor-sub-minute", true)
	}
	for i := 0; i < nnum; i++ {
		inContexts(tmpSpec("when", randAnchor()), "anchor-random", i%10 == 0)
	}
	// 7. blobs
	inContexts(blobSpec([]byte{}), "blob", true)
	inContexts(blobSpec([]byte{0}), "blob", true)
	inContexts(blobSpec([]byte{255, 0, 32, 9, 10, 13, 34}), "blob", true)
	all := make([]byte, 256)
	for i := range all {
		all[i] = byte(i)
	}
	inContexts(blobSpec(all), "blob", true)
	for i := 0; i < nnum/10; i++ {
		inContexts(blobSpec(randBlob()), "blob-random", i%5 == 0)
	}
	// 8. random composite values
	for i := 0; i < nnum; i++ {
		inContexts(randNodeSpec(), "random", false)
		inContexts(randPredSpec(), "random", false)
		inContexts(randLitSpec(), "random", false)
		rtCase(randTripleSpec(false), "random")
	}
	// 9. graphs
	runGraphs()
}

func runGraphs() {
	thorough := tier == "thorough"
	// the universe triples, all together and one by one
	var ut []*VSpec
	for _, sp := range univ.Values {
		if sp.K == "triple" {
			ut = append(ut, sp)
		}
	}
	grtCase(nil, "empty")
	for _, sp := range ut {
		grtCase([]*VSpec{sp}, "universe-single")
	}
	for i := 0; i+5 <= len(ut); i += 5 {
		grtCase(ut[i:i+5], "universe-five")
	}
	// random graphs of <= 30 triples (int64 objects kept below 2^55, see randObjSpec)
	n := 150
	if thorough {
		n = 4000
	}
	for i := 0; i < n; i++ {
		k := rng.Intn(31)
		var ts []*VSpec
		for j := 0; j < k; j++ {
			switch {
			case j > 0 && rng.Intn(8) == 0:
				ts = append(ts, ts[rng.Intn(j)]) // duplicate in the batch
			case j > 0 && rng.Intn(4) == 0:
				// shares subject or predicate with an earlier triple
				e := ts[rng.Intn(j)]
				ts = append(ts, tripleSpec(e.S, randPredSpec(), randObjSpec(true)))
			default:
				ts = append(ts, randTripleSpec(true))
			}
		}
		grtCase(ts, "random")
	}
	// every delimiter / escape look-alike sequence inside the ids and values of one small graph each
	// (the line protocol of WriteGraph / ReadIntoGraph must neither need nor invent an escaping)
	anchor := time.Date(2016, 12, 31, 23, 59, 59, 100000000, time.FixedZone("", 19800))
	for _, d := range delimSeqs {
		for _, w := range []string{d, "a" + d + "b", d + d} {
			sn, pn := nodeSpec("/t", "s"), immSpec("p")
			grtCase([]*VSpec{
				tripleSpec(sn, pn, textSpec(w)),
				tripleSpec(nodeSpec("/t", w), pn, nodeSpec("/t/"+w, "i")),
				tripleSpec(sn, immSpec(w), blobSpec([]byte(w))),
				tripleSpec(sn, tmpSpec(w, anchor), tmpSpec("o"+w, anchor)),
				tripleSpec(sn, immSpec("q"), textSpec("plain")),
			}, "delim-graph")
		}
	}
	// targeted: text with a line break; a line longer than the default scanner buffer (text and blob
	// values may be arbitrarily long); int64 at the ends of the range; both orders of magnitude
	s, p := nodeSpec("/t", "s"), immSpec("p")
	grtCase([]*VSpec{tripleSpec(s, p, textSpec("two\nlines"))}, "text-newline")
	grtCase([]*VSpec{tripleSpec(s, p, textSpec("cr\rinside")), tripleSpec(s, immSpec("q"), textSpec("x"))}, "text-cr")
	grtCase([]*VSpec{tripleSpec(s, p, textSpec(strings.Repeat("x", 70000))), tripleSpec(s, immSpec("q"), textSpec("x"))}, "long-text")
	grtCase([]*VSpec{tripleSpec(s, p, blobSpec(make([]byte, 33000)))}, "long-blob")
	grtCase([]*VSpec{tripleSpec(s, p, intSpec(1<<63-1))}, "int64-max")
	grtCase([]*VSpec{tripleSpec(s, p, intSpec(-1<<63)), tripleSpec(s, p, intSpec(5))}, "int64-min")
	grtCase([]*VSpec{tripleSpec(s, p, intSpec(1<<55-1)), tripleSpec(s, p, intSpec(-(1 << 55)))}, "int64-55")
}

func sameRecs(a, b []Rec) bool {
	if len(a) != len(b) {
		return false
	}
	for i := range a {
		if a[i] != b[i] {
			return false
		}
	}
	return true
}

// ownRoundTrip: does printing v and parsing the text with v's own parser give v back?
func ownRoundTrip(v *Value) bool {
	want, _ := proj(v, true)
	s, p, _, _ := printValue(v)
	if p {
		return false
	}
	r := parseKind(v.K, s, true)
	return r.Out == "value" && sameRecs(r.Recs, want)
}

// badComponents lists the components of a triple (1 subject, 2 predicate, 3 object) that do not
// survive their own round trip; used only to attribute a failing triple to the failing component.
func badComponents(t *triple.Triple) []int {
	r := []int{}
	if !ownRoundTrip(&Value{K: "node", N: t.Subject()}) {
		r = append(r, 1)
	}
	if !ownRoundTrip(&Value{K: "pred", P: t.Predicate()}) {
		r = append(r, 2)
	}
	if !ownRoundTrip(&Value{K: "obj", O: t.Object()}) {
		r = append(r, 3)
	}
	return r
}

// nontrivialRecs: the rule behind distinct_nontrivial of C05. A value is trivial when it consists
// only of plain identifiers ([A-Za-z0-9_], '/' in node types) and immutable predicates; anything
// with a delimiter, escape, white space, non-ASCII or control character, a number, bool, blob or a
// time anchor exercises the formats and is non-trivial.
func nontrivialRecs(recs []Rec) bool {
	plain := func(tk string, slash bool) bool {
		for _, c := range untok(tk) {
			switch {
			case c >= 'a' && c <= 'z', c >= 'A' && c <= 'Z', c >= '0' && c <= '9', c == '_':
			case slash && c == '/':
			default:
				return false
			}
		}
		return true
	}
	for _, r := range recs {
		switch r.K {
		case "node":
			if !plain(r.A, true) || !plain(r.B, false) {
				return true
			}
		case "pred":
			if r.B == "tmp" || !plain(r.A, false) {
				return true
			}
		case "lit":
			if r.A != "text" || !plain(r.B, false) {
				return true
			}
		}
	}
	return false
}
