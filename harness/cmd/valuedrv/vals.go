package main

// Value specifications (JSON) <-> real badwolf values.
//
// Concretisation uses only the exported constructors (NewNodeFromStrings, NewImmutable, NewTemporal,
// Builder.Build, New*Object, triple.New); projection back to logged components uses only accessors
// (Type(), ID(), TimeAnchor(), Interface(), Node()/Predicate()/Literal(), Subject()/...), never the
// String()/UUID()/Parse() functions that are the subject of C05/C06/C15.

import (
	"bytes"
	"encoding/hex"
	"fmt"
	"math"
	"strconv"
	"strings"
	"time"
	"unicode"
	"unicode/utf8"

	"github.com/google/badwolf/triple"
	"github.com/google/badwolf/triple/literal"
	"github.com/google/badwolf/triple/node"
	"github.com/google/badwolf/triple/predicate"
)

// tok renders an arbitrary Go string as a JSON-safe, injective token: "s:<text>" for valid UTF-8,
// "x:<hex>" otherwise (encoding/json would replace invalid bytes and merge distinct strings).
func tok(s string) string {
	if utf8.ValidString(s) {
		return "s:" + s
	}
	return "x:" + hex.EncodeToString([]byte(s))
}

func untok(t string) string {
	if strings.HasPrefix(t, "x:") {
		b, err := hex.DecodeString(t[2:])
		if err != nil {
			die(fmt.Errorf("bad token %q", t))
		}
		return string(b)
	}
	if strings.HasPrefix(t, "s:") {
		return t[2:]
	}
	die(fmt.Errorf("bad token %q", t))
	return ""
}

// VSpec describes one value by its components.
//
//	node:   T type token, I id token
//	pred:   I id token, Imm, or Sec (unix seconds, decimal) / Ns (0..999999999) / Off (zone offset, s)
//	lit:    T type name, V value token: bool true|false, int64 decimal, float64 16 hex digits (bits),
//	        text string token (tok), blob hex
//	obj:    O boxed node|pred|lit
//	triple: S node, P pred, O node|pred|lit (boxed as object)
type VSpec struct {
	K   string `json:"k"`
	T   string `json:"t,omitempty"`
	I   string `json:"i,omitempty"`
	Imm bool   `json:"imm,omitempty"`
	Sec string `json:"sec,omitempty"`
	Ns  int    `json:"ns,omitempty"`
	Off int    `json:"off,omitempty"`
	V   string `json:"v,omitempty"`
	S   *VSpec `json:"s,omitempty"`
	P   *VSpec `json:"p,omitempty"`
	O   *VSpec `json:"o,omitempty"`
}

// Rec is the logged, uniform component record of a node, predicate or literal (all strings).
//
//	node: k=node a=type token b=id token
//	pred: k=pred a=id token   b=imm|tmp  c="<unix seconds>.<nanoseconds>"  z=zone offset seconds
//	lit:  k=lit  a=type name  b=value token
type Rec struct {
	K string `json:"k"`
	A string `json:"a"`
	B string `json:"b"`
	C string `json:"c"`
	Z string `json:"z"`
}

func nodeSpec(t, id string) *VSpec { return &VSpec{K: "node", T: tok(t), I: tok(id)} }
func immSpec(id string) *VSpec     { return &VSpec{K: "pred", I: tok(id), Imm: true} }
func tmpSpec(id string, t time.Time) *VSpec {
	_, off := t.Zone()
	return &VSpec{K: "pred", I: tok(id), Sec: strconv.FormatInt(t.Unix(), 10), Ns: t.Nanosecond(), Off: off}
}
func boolSpec(b bool) *VSpec       { return &VSpec{K: "lit", T: "bool", V: strconv.FormatBool(b)} }
func intSpec(v int64) *VSpec       { return &VSpec{K: "lit", T: "int64", V: strconv.FormatInt(v, 10)} }
func floatSpec(v float64) *VSpec   { return &VSpec{K: "lit", T: "float64", V: fmt.Sprintf("%016x", math.Float64bits(v))} }
func textSpec(s string) *VSpec     { return &VSpec{K: "lit", T: "text", V: tok(s)} }
func blobSpec(b []byte) *VSpec     { return &VSpec{K: "lit", T: "blob", V: hex.EncodeToString(b)} }
func objSpec(o *VSpec) *VSpec      { return &VSpec{K: "obj", O: o} }
func tripleSpec(s, p, o *VSpec) *VSpec {
	if o.K == "obj" {
		o = o.O
	}
	return &VSpec{K: "triple", S: s, P: p, O: o}
}

// Value is a concretised value of one of the five kinds.
type Value struct {
	K string
	N *node.Node
	P *predicate.Predicate
	L *literal.Literal
	O *triple.Object
	T *triple.Triple
}

func specTime(s *VSpec) (time.Time, error) {
	sec, err := strconv.ParseInt(s.Sec, 10, 64)
	if err != nil {
		return time.Time{}, err
	}
	loc := time.UTC
	if s.Off != 0 {
		loc = time.FixedZone("", s.Off)
	}
	return time.Unix(sec, int64(s.Ns)).In(loc), nil
}

// build concretises a specification with the constructors. An error means "not a value" (the
// constructors refuse it), which is not a case of any property.
func build(s *VSpec) (*Value, error) {
	switch s.K {
	case "node":
		n, err := node.NewNodeFromStrings(untok(s.T), untok(s.I))
		if err != nil {
			return nil, err
		}
		return &Value{K: "node", N: n}, nil
	case "pred":
		if s.Imm {
			p, err := predicate.NewImmutable(untok(s.I))
			if err != nil {
				return nil, err
			}
			return &Value{K: "pred", P: p}, nil
		}
		t, err := specTime(s)
		if err != nil {
			return nil, err
		}
		p, err := predicate.NewTemporal(untok(s.I), t)
		if err != nil {
			return nil, err
		}
		return &Value{K: "pred", P: p}, nil
	case "lit":
		b := literal.DefaultBuilder()
		if litBound > 0 {
			b = literal.NewBoundedBuilder(litBound)
		}
		var l *literal.Literal
		var err error
		switch s.T {
		case "bool":
			l, err = b.Build(literal.Bool, s.V == "true")
		case "int64":
			var v int64
			v, err = strconv.ParseInt(s.V, 10, 64)
			if err == nil {
				l, err = b.Build(literal.Int64, v)
			}
		case "float64":
			var bits uint64
			bits, err = strconv.ParseUint(s.V, 16, 64)
			if err == nil {
				l, err = b.Build(literal.Float64, math.Float64frombits(bits))
			}
		case "text":
			l, err = b.Build(literal.Text, untok(s.V))
		case "blob":
			var bs []byte
			bs, err = hex.DecodeString(s.V)
			if err == nil {
				l, err = b.Build(literal.Blob, bs)
			}
		default:
			err = fmt.Errorf("bad literal type %q", s.T)
		}
		if err != nil {
			return nil, err
		}
		return &Value{K: "lit", L: l}, nil
	case "obj":
		v, err := build(s.O)
		if err != nil {
			return nil, err
		}
		return &Value{K: "obj", O: box(v)}, nil
	case "triple":
		sv, err := build(s.S)
		if err != nil {
			return nil, err
		}
		pv, err := build(s.P)
		if err != nil {
			return nil, err
		}
		ov, err := build(s.O)
		if err != nil {
			return nil, err
		}
		t, err := triple.New(sv.N, pv.P, box(ov))
		if err != nil {
			return nil, err
		}
		return &Value{K: "triple", T: t}, nil
	}
	return nil, fmt.Errorf("bad kind %q", s.K)
}

func box(v *Value) *triple.Object {
	switch v.K {
	case "node":
		return triple.NewNodeObject(v.N)
	case "pred":
		return triple.NewPredicateObject(v.P)
	case "lit":
		return triple.NewLiteralObject(v.L)
	case "obj":
		return v.O
	}
	die(fmt.Errorf("cannot box kind %q", v.K))
	return nil
}

// ---- projection (accessors only) -------------------------------------------------------------

func litTypeName(t literal.Type) string {
	switch t {
	case literal.Bool:
		return "bool"
	case literal.Int64:
		return "int64"
	case literal.Float64:
		return "float64"
	case literal.Text:
		return "text"
	case literal.Blob:
		return "blob"
	}
	return fmt.Sprintf("type#%d", uint8(t))
}

// projNode returns (rec, wellformed).
func projNode(n *node.Node, zone bool) (Rec, bool) {
	if n == nil || n.Type() == nil || n.ID() == nil {
		return Rec{K: "node", A: "missing", B: "missing"}, false
	}
	return Rec{K: "node", A: tok(string(*n.Type())), B: tok(string(*n.ID()))}, true
}

func projPred(p *predicate.Predicate, zone bool) (Rec, bool) {
	if p == nil {
		return Rec{K: "pred", A: "missing", B: "missing"}, false
	}
	r := Rec{K: "pred", A: tok(string(p.ID()))}
	if p.Type() == predicate.Immutable {
		r.B = "imm"
		return r, true
	}
	r.B = "tmp"
	ta, err := p.TimeAnchor()
	if err != nil || ta == nil {
		r.C = "missing"
		return r, false
	}
	r.C = fmt.Sprintf("%d.%09d", ta.Unix(), ta.Nanosecond())
	if zone {
		_, off := ta.Zone()
		r.Z = strconv.Itoa(off)
	}
	return r, true
}

func projLit(l *literal.Literal, zone bool) (Rec, bool) {
	if l == nil {
		return Rec{K: "lit", A: "missing", B: "missing"}, false
	}
	r := Rec{K: "lit", A: litTypeName(l.Type())}
	ok := true
	switch v := l.Interface().(type) {
	case bool:
		r.B = strconv.FormatBool(v)
		ok = l.Type() == literal.Bool
	case int64:
		r.B = strconv.FormatInt(v, 10)
		ok = l.Type() == literal.Int64
	case float64:
		r.B = fmt.Sprintf("%016x", math.Float64bits(v))
		ok = l.Type() == literal.Float64
	case string:
		r.B = tok(v)
		ok = l.Type() == literal.Text
	case []byte:
		r.B = hex.EncodeToString(v)
		ok = l.Type() == literal.Blob
	default:
		r.B = "missing"
		ok = false
	}
	return r, ok
}

func projObj(o *triple.Object, zone bool) (Rec, bool) {
	if o == nil {
		return Rec{K: "none", A: "missing", B: "missing"}, false
	}
	n, errN := o.Node()
	p, errP := o.Predicate()
	l, errL := o.Literal()
	cnt := 0
	if errN == nil && n != nil {
		cnt++
	}
	if errP == nil && p != nil {
		cnt++
	}
	if errL == nil && l != nil {
		cnt++
	}
	if cnt != 1 {
		return Rec{K: "none", A: "missing", B: "missing"}, false
	}
	switch {
	case errN == nil && n != nil:
		return projNode(n, zone)
	case errP == nil && p != nil:
		return projPred(p, zone)
	default:
		return projLit(l, zone)
	}
}

func projTriple(t *triple.Triple, zone bool) ([]Rec, bool) {
	if t == nil {
		return []Rec{}, false
	}
	s, ok1 := projNode(t.Subject(), zone)
	p, ok2 := projPred(t.Predicate(), zone)
	o, ok3 := projObj(t.Object(), zone)
	return []Rec{s, p, o}, ok1 && ok2 && ok3
}

// proj projects any value to its component records; zone=false drops the zone offset of anchors
// (value equality in the sense of C06 / set membership in a graph).
func proj(v *Value, zone bool) ([]Rec, bool) {
	switch v.K {
	case "node":
		r, ok := projNode(v.N, zone)
		return []Rec{r}, ok
	case "pred":
		r, ok := projPred(v.P, zone)
		return []Rec{r}, ok
	case "lit":
		r, ok := projLit(v.L, zone)
		return []Rec{r}, ok
	case "obj":
		r, ok := projObj(v.O, zone)
		return []Rec{r}, ok
	case "triple":
		return projTriple(v.T, zone)
	}
	return []Rec{}, false
}

// ---- the sameValue oracle of the driver (independent of String()/UUID()) ------------------------

func sameNode(a, b *node.Node) bool {
	return string(*a.Type()) == string(*b.Type()) && string(*a.ID()) == string(*b.ID())
}

func samePred(a, b *predicate.Predicate) bool {
	if string(a.ID()) != string(b.ID()) || a.Type() != b.Type() {
		return false
	}
	if a.Type() == predicate.Immutable {
		return true
	}
	ta, _ := a.TimeAnchor()
	tb, _ := b.TimeAnchor()
	return ta.Equal(*tb) // instants, regardless of zone
}

func sameLit(a, b *literal.Literal) bool {
	if a.Type() != b.Type() {
		return false
	}
	switch x := a.Interface().(type) {
	case bool:
		y, ok := b.Interface().(bool)
		return ok && x == y
	case int64:
		y, ok := b.Interface().(int64)
		return ok && x == y
	case float64:
		y, ok := b.Interface().(float64)
		return ok && math.Float64bits(x) == math.Float64bits(y) // +0 / -0 are left open by the spec
	case string:
		y, ok := b.Interface().(string)
		return ok && x == y
	case []byte:
		y, ok := b.Interface().([]byte)
		return ok && bytes.Equal(x, y)
	}
	return false
}

func sameObj(a, b *triple.Object) bool {
	an, _ := a.Node()
	bn, _ := b.Node()
	ap, _ := a.Predicate()
	bp, _ := b.Predicate()
	al, _ := a.Literal()
	bl, _ := b.Literal()
	switch {
	case an != nil && bn != nil:
		return sameNode(an, bn)
	case ap != nil && bp != nil:
		return samePred(ap, bp)
	case al != nil && bl != nil:
		return sameLit(al, bl)
	}
	return false
}

func sameValue(a, b *Value) bool {
	if a.K != b.K {
		return false
	}
	switch a.K {
	case "node":
		return sameNode(a.N, b.N)
	case "pred":
		return samePred(a.P, b.P)
	case "lit":
		return sameLit(a.L, b.L)
	case "obj":
		return sameObj(a.O, b.O)
	case "triple":
		return sameNode(a.T.Subject(), b.T.Subject()) && samePred(a.T.Predicate(), b.T.Predicate()) &&
			sameObj(a.T.Object(), b.T.Object())
	}
	return false
}

// ---- documented domain of C05 (docs/temporal_graph_modeling.md), computed from components --------

func hasSpace(s string) bool {
	for _, r := range s {
		if unicode.IsSpace(r) {
			return true
		}
	}
	return false
}

// domFlags lists every feature of the value that the documentation does not clearly put inside the
// domain of the round-trip promise; a non-empty list leaves the verdict open.
//
//	node-id-space     docs: "No spaces, tabs, LF or CR are allowed as part of the ID" vs the example
//	                  /organization/country<United States of America> and NewID accepting them
//	node-type-angle   types are "paths separated by forward slashes"; '<' '>' in a type are not
//	                  mentioned (only forbidden in ids "for efficient marshaling")
//	node-type-space   Unicode white space other than the four characters NewType refuses
//	pred-id-space     predicate ids: no spaces, tabs, LF or CR (outside the domain)
//	id-not-utf8       "IDs are represented as UTF8 strings"
//	zone-sub-minute   RFC3339 (the documented anchor format) cannot express the offset
//	year-out-of-range RFC3339 years are 0000..9999
//	float-nan         NaN is not equal to itself
func domFlags(v *Value) []string {
	m := map[string]bool{}
	var nodeF func(n *node.Node)
	var predF func(p *predicate.Predicate)
	nodeF = func(n *node.Node) {
		t, id := string(*n.Type()), string(*n.ID())
		if hasSpace(id) {
			m["node-id-space"] = true
		}
		if strings.ContainsAny(t, "<>") {
			m["node-type-angle"] = true
		}
		if hasSpace(t) {
			m["node-type-space"] = true
		}
		if !utf8.ValidString(id) || !utf8.ValidString(t) {
			m["id-not-utf8"] = true
		}
	}
	predF = func(p *predicate.Predicate) {
		id := string(p.ID())
		if hasSpace(id) {
			m["pred-id-space"] = true
		}
		if !utf8.ValidString(id) {
			m["id-not-utf8"] = true
		}
		if ta, err := p.TimeAnchor(); err == nil {
			if _, off := ta.Zone(); off%60 != 0 {
				m["zone-sub-minute"] = true
			}
			if y := ta.Year(); y < 0 || y > 9999 {
				m["year-out-of-range"] = true
			}
		}
	}
	litF := func(l *literal.Literal) {
		if f, ok := l.Interface().(float64); ok && f != f {
			m["float-nan"] = true
		}
	}
	objF := func(o *triple.Object) {
		if n, err := o.Node(); err == nil && n != nil {
			nodeF(n)
		}
		if p, err := o.Predicate(); err == nil && p != nil {
			predF(p)
		}
		if l, err := o.Literal(); err == nil && l != nil {
			litF(l)
		}
	}
	switch v.K {
	case "node":
		nodeF(v.N)
	case "pred":
		predF(v.P)
	case "lit":
		litF(v.L)
	case "obj":
		objF(v.O)
	case "triple":
		nodeF(v.T.Subject())
		predF(v.T.Predicate())
		objF(v.T.Object())
	}
	r := make([]string, 0, len(m))
	for _, k := range []string{"node-id-space", "node-type-angle", "node-type-space", "pred-id-space", "id-not-utf8",
		"zone-sub-minute", "year-out-of-range", "float-nan"} {
		if m[k] {
			r = append(r, k)
		}
	}
	return r
}

// specFromRecs turns logged component records back into a specification (used to ask the
// constructors whether they would accept what a parser produced, and to replay recorded cases).
func specFromRecs(kind string, recs []Rec) *VSpec {
	one := func(r Rec) *VSpec {
		switch r.K {
		case "node":
			return &VSpec{K: "node", T: r.A, I: r.B}
		case "pred":
			if r.B == "imm" {
				return &VSpec{K: "pred", I: r.A, Imm: true}
			}
			sp := &VSpec{K: "pred", I: r.A}
			if i := strings.Index(r.C, "."); i > 0 {
				sp.Sec = r.C[:i]
				sp.Ns, _ = strconv.Atoi(r.C[i+1:])
			}
			sp.Off, _ = strconv.Atoi(r.Z)
			return sp
		case "lit":
			return &VSpec{K: "lit", T: r.A, V: r.B}
		}
		return nil
	}
	switch {
	case kind == "triple" && len(recs) == 3:
		s, p, o := one(recs[0]), one(recs[1]), one(recs[2])
		if s == nil || p == nil || o == nil {
			return nil
		}
		return &VSpec{K: "triple", S: s, P: p, O: o}
	case kind == "obj" && len(recs) == 1:
		if o := one(recs[0]); o != nil {
			return &VSpec{K: "obj", O: o}
		}
	case len(recs) == 1:
		return one(recs[0])
	}
	return nil
}

// constructible: would the exported constructors accept these components?
func constructible(kind string, recs []Rec) (ok bool) {
	defer func() {
		if recover() != nil {
			ok = false
		}
	}()
	sp := specFromRecs(kind, recs)
	if sp == nil {
		return false
	}
	_, err := build(sp)
	return err == nil
}
