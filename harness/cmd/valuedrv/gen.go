package main

// Input spaces: the delimiter alphabet, exhaustive strings, boundary sets, seeded random values.

import (
	"math"
	"time"
)

// The delimiter alphabet: every character the printers/parsers treat specially plus one ASCII
// letter, one digit, one multi-byte rune and the three kinds of white space.
var alphabet = []string{"a", "é", "1", " ", "\"", "\\", "@", "[", "]", "<", ">", "/", "?", "^", ":", "_", "\t", "\n"}

// enumStrings calls f for every string of length 1..maxLen over alpha (in length-lexicographic order).
func enumStrings(alpha []string, maxLen int, f func(string)) {
	for n := 1; n <= maxLen; n++ {
		var exact func(prefix string, left int)
		exact = func(prefix string, left int) {
			if left == 0 {
				f(prefix)
				return
			}
			for _, c := range alpha {
				exact(prefix+c, left-1)
			}
		}
		exact("", n)
	}
}

// Delimiter sequences of the text formats; embedded into ids and texts by the near-miss generators.
var delimSeqs = []string{"\"@[", "\"@[]", "\"^^type:", "\"^^type:text", "\"^^type:int64", ">\t\"", "]\t/", "]\t\"", "] \"",
	"> \"", "<", ">", "\"", "\\\"", "\\", "@[", "]", "[", "^^", "type:", "/", "_:", "\t", "\n", "\r", "\r\n", " ", "\x00", "é", "世界", "😀",
	// spellings an escaping scheme for line breaks / quotes / delimiters would give a meaning to
	"\\n", "\\r", "\\t", "\\\\", "\\\\n", "\\u000a", "\\x0a", "\\0", "%0A", "%22", "&#10;", "&quot;", "\\N", "\\\n"}

func int64Boundaries() []int64 {
	m := map[int64]bool{0: true, 1: true, -1: true, math.MaxInt64: true, math.MinInt64: true, math.MaxInt64 - 1: true,
		math.MinInt64 + 1: true, 10: true, -10: true, 99: true, 100: true, 1234567890123456789: true, -1234567890123456789: true}
	for _, k := range []uint{6, 7, 8, 13, 14, 15, 16, 20, 21, 27, 28, 31, 32, 34, 35, 41, 42, 48, 49, 52, 53, 54, 55, 56, 61, 62} {
		p := int64(1) << k
		for _, d := range []int64{-1, 0, 1} {
			m[p+d] = true
			m[-(p + d)] = true
		}
	}
	r := make([]int64, 0, len(m))
	for v := range m {
		r = append(r, v)
	}
	sortInt64(r)
	return r
}

func sortInt64(a []int64) {
	for i := 1; i < len(a); i++ {
		for j := i; j > 0 && a[j] < a[j-1]; j-- {
			a[j], a[j-1] = a[j-1], a[j]
		}
	}
}

func randInt64() int64 {
	// uniform over bit lengths, so that small and huge magnitudes both occur
	k := uint(rng.Intn(64))
	v := int64(rng.Uint64() >> (63 - k) >> 1)
	if k == 63 {
		v = int64(rng.Uint64())
	}
	if rng.Intn(2) == 0 {
		v = -v
	}
	return v
}

func float64Specials() []float64 {
	return []float64{0, math.Copysign(0, -1), math.Inf(1), math.Inf(-1), math.SmallestNonzeroFloat64, -math.SmallestNonzeroFloat64,
		math.Float64frombits(0x000fffffffffffff), // largest subnormal
		math.Float64frombits(0x0010000000000000), // smallest normal
		math.MaxFloat64, -math.MaxFloat64, 1, -1, 0.1, 0.25, -0.75, 1e20, 1e21, 1e22, 1e-4, 1e-5, 1e-7, 123456789.125, math.Pi,
		float64(1 << 53), float64(1<<53 + 2), 4.9406564584124654e-324, 2.2250738585072014e-308, 1.7976931348623157e308,
		9007199254740993, 0.30000000000000004, 5e-324, 100, 1e6, 1e15, 1e16, 123456.7}
}

func randFloat64() float64 {
	for {
		f := math.Float64frombits(rng.Uint64())
		if f == f { // NaN excluded: it is not equal to itself
			return f
		}
	}
}

// Anchors: instants between 0000-01-02 and 9999-12-30 with nanoseconds, in zones whose offset is a
// whole number of minutes (RFC3339 can express no other).
const (
	minSec = -62167132800 // 0000-01-02T00:00:00Z
	maxSec = 253402127999 // 9999-12-29T23:59:59Z
)

var zoneOffsets = []int{0, 3600, -3600, 19800, 20700, -12600, 50400, -43200, 45900, 7200, -18000, 60, -60, 86340, -86340}

func randZone() *time.Location {
	var off int
	if rng.Intn(3) == 0 {
		off = (rng.Intn(2*14*60+1) - 14*60) * 60
	} else {
		off = zoneOffsets[rng.Intn(len(zoneOffsets))]
	}
	if off == 0 && rng.Intn(2) == 0 {
		return time.UTC
	}
	return time.FixedZone("", off)
}

func randNanos() int {
	switch rng.Intn(6) {
	case 0:
		return 0
	case 1:
		return 999999999
	case 2:
		return 1
	case 3:
		return rng.Intn(1000) * 1000000
	case 4:
		return rng.Intn(1000000) * 1000
	}
	return rng.Intn(1000000000)
}

func randAnchor() time.Time {
	var sec int64
	switch rng.Intn(4) {
	case 0: // the range in which UnixNano is defined (1678..2262)
		sec = -9000000000 + rng.Int63n(18000000000)
	case 1: // recent
		sec = rng.Int63n(4000000000)
	default:
		sec = minSec + rng.Int63n(maxSec-minSec)
	}
	return time.Unix(sec, int64(randNanos())).In(randZone())
}

func anchorBoundaries() []time.Time {
	ts := []time.Time{
		time.Unix(0, 0).UTC(),
		time.Unix(minSec, 0).UTC(),
		time.Unix(maxSec, 999999999).UTC(),
		time.Date(2006, 1, 2, 15, 4, 5, 999999999, time.FixedZone("", -7*3600)),
		time.Date(2006, 1, 2, 15, 4, 5, 0, time.UTC),
		time.Date(2016, 12, 31, 23, 59, 59, 100000000, time.FixedZone("", 19800)),
		time.Date(1677, 9, 21, 0, 12, 43, 145224192, time.UTC),  // UnixNano = MinInt64
		time.Date(2262, 4, 11, 23, 47, 16, 854775807, time.UTC), // UnixNano = MaxInt64
		time.Date(2262, 4, 11, 23, 47, 16, 854775808, time.UTC), // first instant beyond
		time.Date(1969, 12, 31, 23, 59, 59, 999999999, time.UTC),
		time.Date(2000, 2, 29, 12, 0, 0, 120000000, time.FixedZone("", 45900)),
		time.Date(1, 1, 1, 0, 0, 0, 0, time.UTC),
	}
	return ts
}

// the four sub-minute offsets exist only to show that such cases are counted as open, not judged
func subMinuteAnchors() []time.Time {
	return []time.Time{
		time.Date(2000, 1, 1, 0, 0, 0, 0, time.FixedZone("", 3208)),
		time.Date(1900, 6, 1, 12, 0, 0, 5, time.FixedZone("", -1172)),
	}
}

func randBlob() []byte {
	n := rng.Intn(24)
	if rng.Intn(10) == 0 {
		n = 200 + rng.Intn(300)
	}
	b := make([]byte, n)
	for i := range b {
		b[i] = byte(rng.Intn(256))
	}
	return b
}

var runePool = []string{"a", "b", "Z", "0", "9", "_", "-", ".", "é", "ß", "世", "界", "😀", "́", "​", "\x00", "\x01", "\x7f", "%", "#", "&", "'", "`", "{", "}", "|", "~", "=", ",", ";", "(", ")", "*", "+", "!", "$"}

// randString mixes ordinary characters with delimiter sequences; withSpace/withAngle say whether
// white space and '<' '>' may occur.
func randString(maxLen int, withSpace, withAngle bool) string {
	n := 1 + rng.Intn(maxLen)
	s := ""
	for i := 0; i < n; i++ {
		switch rng.Intn(4) {
		case 0:
			c := alphabet[rng.Intn(len(alphabet))]
			if !withSpace && (c == " " || c == "\t" || c == "\n") {
				c = "a"
			}
			if !withAngle && (c == "<" || c == ">") {
				c = "1"
			}
			s += c
		case 1:
			d := delimSeqs[rng.Intn(len(delimSeqs))]
			if !withSpace && hasSpace(d) {
				d = "\"@["
			}
			if !withAngle && (containsAny(d, "<>")) {
				d = "\"^^type:"
			}
			s += d
		default:
			s += runePool[rng.Intn(len(runePool))]
		}
	}
	return s
}

func containsAny(s, chars string) bool {
	for _, c := range s {
		for _, d := range chars {
			if c == d {
				return true
			}
		}
	}
	return false
}

func randType() string {
	n := 1 + rng.Intn(3)
	t := ""
	for i := 0; i < n; i++ {
		t += "/" + randString(3, false, false)
	}
	for len(t) > 1 && t[len(t)-1] == '/' {
		t = t[:len(t)-1] + "x"
	}
	return t
}

func randNodeSpec() *VSpec { return nodeSpec(randType(), randString(5, false, false)) }

func randPredSpec() *VSpec {
	id := randString(5, false, true)
	if rng.Intn(2) == 0 {
		return immSpec(id)
	}
	return tmpSpec(id, randAnchor())
}

func randLitSpec() *VSpec {
	switch rng.Intn(7) {
	case 0:
		return boolSpec(rng.Intn(2) == 0)
	case 1:
		return intSpec(randInt64())
	case 2:
		return floatSpec(randFloat64())
	case 3:
		sp := float64Specials()
		return floatSpec(sp[rng.Intn(len(sp))])
	case 4:
		return blobSpec(randBlob())
	default:
		return textSpec(randString(6, true, true))
	}
}

// small int64 values only: used where a graph has to hold the triple (Literal.UUID of |v| >= 2^55
// is a separate, recorded case and must not drown every random graph)
func randObjSpec(smallInts bool) *VSpec {
	switch rng.Intn(4) {
	case 0:
		return randNodeSpec()
	case 1:
		return randPredSpec()
	}
	l := randLitSpec()
	if smallInts && l.T == "int64" {
		l = intSpec(int64(rng.Intn(2000000) - 1000000))
	}
	return l
}

func randTripleSpec(smallInts bool) *VSpec {
	return tripleSpec(randNodeSpec(), randPredSpec(), randObjSpec(smallInts))
}
