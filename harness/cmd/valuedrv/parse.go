package main

// C15: every parser on every string; the line-oriented graph reader.

import (
	"bytes"
	"encoding/hex"
	"strings"
	"unicode/utf8"

	bio "github.com/google/badwolf/io"
	"github.com/google/badwolf/storage"
	"github.com/google/badwolf/storage/memory"
	"github.com/google/badwolf/triple"
	"github.com/google/badwolf/triple/literal"
	"github.com/google/badwolf/triple/node"
	"github.com/google/badwolf/triple/predicate"
)

var kinds = []string{"node", "pred", "lit", "obj", "triple"}

// parseRes is the observed end of one parser call.
//
//	Out: value   non-nil, well-formed value and a nil error
//	     invalid non-nil value and nil error, but a component is missing (e.g. an Object boxing nothing)
//	     nil     nil value and nil error
//	     error   non-nil error
//	     panic   the call panicked (Site = innermost badwolf function, Msg = panic text)
type parseRes struct {
	Out  string
	V    *Value
	Recs []Rec
	Err  string
	Site string
	Msg  string
}

func parseKind(kind, s string, zone bool) parseRes {
	var r parseRes
	var v *Value
	var err error
	isNil := false
	p, site, msg := protect(func() {
		b := literal.DefaultBuilder()
		if litBound > 0 {
			b = literal.NewBoundedBuilder(litBound)
		}
		switch kind {
		case "node":
			var n *node.Node
			n, err = node.Parse(s)
			isNil = n == nil
			v = &Value{K: "node", N: n}
		case "pred":
			var x *predicate.Predicate
			x, err = predicate.Parse(s)
			isNil = x == nil
			v = &Value{K: "pred", P: x}
		case "lit":
			var l *literal.Literal
			l, err = b.Parse(s)
			isNil = l == nil
			v = &Value{K: "lit", L: l}
		case "obj":
			var o *triple.Object
			o, err = triple.ParseObject(s, b)
			isNil = o == nil
			v = &Value{K: "obj", O: o}
		case "triple":
			var t *triple.Triple
			t, err = triple.Parse(s, b)
			isNil = t == nil
			v = &Value{K: "triple", T: t}
		default:
			die(errBadKind(kind))
		}
	})
	r.Recs = []Rec{}
	switch {
	case p:
		r.Out, r.Site, r.Msg = "panic", site, msg
	case err != nil:
		r.Out, r.Err = "error", err.Error()
	case isNil:
		r.Out = "nil"
	default:
		recs, wf := proj(v, zone)
		r.Recs = recs
		r.V = v
		if wf {
			r.Out = "value"
		} else {
			r.Out = "invalid"
		}
	}
	return r
}

type kindErr string

func (e kindErr) Error() string { return "bad kind " + string(e) }
func errBadKind(k string) error { return kindErr(k) }

// printValue calls the String() method under test.
func printValue(v *Value) (s string, panicked bool, site, msg string) {
	panicked, site, msg = protect(func() {
		switch v.K {
		case "node":
			s = v.N.String()
		case "pred":
			s = v.P.String()
		case "lit":
			s = v.L.String()
		case "obj":
			s = v.O.String()
		case "triple":
			s = v.T.String()
		}
	})
	return
}

// PEvent is one parser call (C15).
type PEvent struct {
	Ev      string `json:"ev"`
	Kind    string `json:"kind"`
	In      string `json:"in"`
	Src     string `json:"src"`
	Out     string `json:"out"` // value|invalid|nil|error|panic|timeout
	Site    string `json:"site"`
	Msg     string `json:"msg"`
	PV      []Rec  `json:"pv"`
	Ctor    bool   `json:"ctor"` // the exported constructors accept the components of the parsed value
	Reprint string `json:"reprint"`
	Re      string `json:"re"` // na|value|invalid|nil|error|panic|panic-print
	ReSite  string `json:"resite"`
	ReMsg   string `json:"remsg"`
	RV      []Rec  `json:"rv"`
}

// litBound > 0: literals are parsed with literal.NewBoundedBuilder(litBound) (the builder `bw load` uses)
var litBound int

func parseCase(kind, in, src string) {
	key := kind + "\x00" + in
	if litBound > 0 {
		key = "bounded" + itoa(litBound) + "\x00" + key
	}
	if seen[key] {
		stat("dup")
		return
	}
	ev := PEvent{Ev: "P", Kind: kind, In: tok(in), Src: src, PV: []Rec{}, RV: []Rec{}, Re: "na"}
	var r parseRes
	watched(func() { ev.Out = "timeout"; tw.Emit(ev) }, func() {
		r = parseKind(kind, in, false)
		ev.Out, ev.Site, ev.Msg, ev.PV = r.Out, r.Site, r.Msg, r.Recs
		if r.Out == "value" {
			ev.Ctor = constructible(kind, r.Recs)
			s, p, site, _ := printValue(r.V)
			if p {
				ev.Re, ev.ReSite = "panic-print", site
			} else {
				ev.Reprint = tok(s)
				r2 := parseKind(kind, s, false)
				ev.Re, ev.ReSite, ev.ReMsg, ev.RV = r2.Out, r2.Site, r2.Msg, r2.Recs
			}
		}
	})
	tw.Emit(ev)
	stat("P:" + kind + ":" + r.Out)
	if src == "tlc" {
		stat("tlc-cases")
	}
	countCase(key, r.Out != "error" || src == "mut" || src == "alt" || src == "tlc")
	if r.Out != "error" {
		keepSample("P-"+kind+"-"+r.Out, ev)
	}
}

// ---- token sets for the token-level exhaustive enumeration -------------------------------------

var tokenSets = map[string][]string{
	"node":   {"/", "a", "<", ">", "_", ":", " ", "/a<b>"},
	"pred":   {"\"", "\"@[", "]", "a", "\\", "2006-01-02T15:04:05Z", " ", "@", "["},
	"lit":    {"\"", "\"^^type:", "text", "blob", "int64", "bool", "float64", "foo", "[", "]", "1", " ", "a", "true"},
	"obj":    {"/a<b>", "\"p\"@[]", "\"x\"^^type:text", "\"", "\"@[", "\"^^type:", "foo", "blob", "]", " ", "_", "/"},
	"triple": {"/a<b>", "\"p\"@[]", "\"x\"^^type:text", ">", "]", "\"", "/", " ", "\t", "<", "\"p\"@[2006-01-02T15:04:05Z]"},
}

var charSets = map[string][]string{
	"node":   {"/", "_", "<", ">", "a", " ", ":"},
	"pred":   {"\"", "@", "[", "]", "a", "\\", " "},
	"lit":    {"\"", "^", ":", "a", "[", "]", "1"},
	"obj":    {"\"", "@", "[", "]", "/", "<", ">", "_"},
	"triple": {"]", ">", " ", "/", "\"", "a", "\t"},
}

// mutations of a valid text: truncation at every position, deletion and duplication of every
// character, insertion of every delimiter at every position (sampled 1/every when every > 1).
var injected = []string{"\"", "<", ">", "[", "]", "@", "^", ":", "/", "\\", " ", "\t", "_", "\"@[", "\"^^type:", "] \"", "> \"", "] /"}

func mutations(s string, every int, f func(string)) {
	idx := []int{}
	for i := range s {
		idx = append(idx, i)
	}
	idx = append(idx, len(s))
	pick := func() bool { return every <= 1 || rng.Intn(every) == 0 }
	for k, i := range idx {
		if i < len(s) {
			f(s[:i]) // truncation (always: cheap and the classic way to hit a slice bound)
		}
		if k+1 < len(idx) {
			j := idx[k+1]
			if pick() {
				f(s[:i] + s[j:]) // deletion of one character
			}
			if pick() {
				f(s[:j] + s[i:j] + s[j:]) // duplication
			}
		}
		for _, d := range injected {
			if pick() {
				f(s[:i] + d + s[i:])
			}
		}
	}
}

// alternate spellings of a printed predicate / literal that the parsers may also accept
func altSpellings(s string, f func(string)) {
	if strings.Contains(s, "\\\"") {
		f(strings.ReplaceAll(s, "\\\"", "\\x22"))
		f(strings.ReplaceAll(s, "\\\"", "\\u0022"))
		f(strings.ReplaceAll(s, "\\\"", "\\042"))
	}
	if i := strings.LastIndex(s, "@["); i >= 0 && strings.HasSuffix(s, "]") && i+2 < len(s)-1 {
		f(s[:i+2] + "\"" + s[i+2:len(s)-1] + "\"]") // quoted anchor
	}
	f(" " + s + " ")
	f("\t" + s + "\n")
}

func runParse(candFile string) {
	thorough := tier == "thorough"
	// 1. TLC candidates first (Layer B predictions of panics / ambiguous inputs)
	for _, c := range loadCands(candFile) {
		switch c.M {
		case "parse":
			parseCase(c.Kind, untok(c.In), "tlc")
			stat("cands")
		case "file":
			lines := make([]string, len(c.Lines))
			for i, l := range c.Lines {
				lines[i] = untok(l)
			}
			readerCase(lines, untok(c.Sep), c.Trailing, "replay")
		}
	}
	if onlyCands {
		return
	}
	// 2. the empty string and all strings up to L over the delimiter alphabet, for every parser
	L := 3
	if thorough {
		L = 4
	}
	for _, k := range kinds {
		parseCase(k, "", "exh")
		enumStrings(alphabet, L, func(s string) { parseCase(k, s, "exh") })
	}
	// 3. longer strings over the per-parser reduced alphabets, and token-level sequences
	L2, T := 4, 4
	if thorough {
		L2, T = 6, 5
	}
	for _, k := range kinds {
		enumStrings(charSets[k], L2, func(s string) { parseCase(k, s, "exh-reduced") })
		n := T
		if k == "lit" || k == "obj" { // 14 and 12 tokens: one token less keeps the product affordable
			n = T - 1
		}
		enumStrings(tokenSets[k], n, func(s string) { parseCase(k, s, "exh-tokens") })
	}
	// 4. mutations and alternate spellings of every printed universe value and of random values
	specs := append([]*VSpec{}, univ.Values...)
	nr := 150
	if thorough {
		nr = 1500
	}
	for i := 0; i < nr; i++ {
		switch i % 4 {
		case 0:
			specs = append(specs, randNodeSpec())
		case 1:
			specs = append(specs, randPredSpec())
		case 2:
			specs = append(specs, randLitSpec())
		default:
			specs = append(specs, randTripleSpec(false))
		}
	}
	every := 10
	if thorough {
		every = 1
	}
	for i, sp := range specs {
		v, err := build(sp)
		if err != nil {
			stat("ctor-rejected")
			continue
		}
		s, p, _, _ := printValue(v)
		if p || len(s) > 400 {
			continue
		}
		ks := []string{v.K}
		if v.K == "node" || v.K == "pred" || v.K == "lit" {
			ks = append(ks, "obj")
		}
		ev := every
		if i >= len(univ.Values) && thorough {
			ev = 4
		}
		for _, k := range ks {
			parseCase(k, s, "printed")
			mutations(s, ev, func(m string) { parseCase(k, m, "mut") })
			altSpellings(s, func(m string) { parseCase(k, m, "alt") })
		}
	}
	// 4b. the bounded literal builder: texts and blobs shorter than, as long as and longer than the bound, alone, as
	// objects and inside triples; every printed literal / triple of the universe again
	for _, bound := range []int{1, 5} {
		litBound = bound
		for n := 0; n <= bound+3; n++ {
			txt := strings.Repeat("a", n)
			var bs []string
			for j := 0; j < n; j++ {
				bs = append(bs, itoa(j+1))
			}
			for _, l := range []string{"\"" + txt + "\"^^type:text", "\"[" + strings.Join(bs, " ") + "]\"^^type:blob",
				"\"" + strings.Repeat("1", n+1) + "\"^^type:int64", "\"true\"^^type:bool", "\"1." + strings.Repeat("5", n) + "\"^^type:float64"} {
				parseCase("lit", l, "bounded")
				parseCase("obj", l, "bounded")
				parseCase("triple", "/a<b>\t\"p\"@[]\t"+l, "bounded")
			}
		}
		for _, sp := range univ.Values {
			v, err := build(sp)
			if err != nil || (v.K != "lit" && v.K != "triple") {
				continue
			}
			if s, p, _, _ := printValue(v); !p && len(s) < 400 {
				parseCase(v.K, s, "bounded")
			}
		}
	}
	litBound = 0
	// 5. random strings
	n := 6000
	if thorough {
		n = 150000
	}
	for i := 0; i < n; i++ {
		k := kinds[rng.Intn(len(kinds))]
		var s string
		if rng.Intn(2) == 0 {
			s = randString(8, true, true)
		} else {
			ts := tokenSets[k]
			for j := 0; j < 1+rng.Intn(7); j++ {
				if rng.Intn(4) == 0 {
					s += randString(2, true, true)
				} else {
					s += ts[rng.Intn(len(ts))]
				}
			}
		}
		parseCase(k, s, "rand")
	}
	// 6. the graph reader
	runReader()
}

// ---- io.ReadIntoGraph ---------------------------------------------------------------------------

// RDEvent is one ReadIntoGraph call on a file of Lines (joined by Sep, optional trailing newline).
//
//	lout[i]  what the real triple.Parse does with line i alone: blank|value|invalid|nil|error|panic
//	ltrip[i] components of that triple (zone-free), [] when there is none
//	loaded   what Graph.Triples lists afterwards (zone-free components)
//	out      ok|panic|timeout
type RDEvent struct {
	Ev     string   `json:"ev"`
	Src    string   `json:"src"`
	Lines  []string `json:"lines"`
	Sep    string   `json:"sep"`
	Lout   []string `json:"lout"`
	Ltrip  [][]Rec  `json:"ltrip"`
	Loaded [][]Rec  `json:"loaded"`
	Count  int      `json:"count"`
	Err    bool     `json:"err"`
	Out    string   `json:"out"`
	Site   string   `json:"site"`
	Msg    string   `json:"msg"`
	Long   bool     `json:"long"` // some line is longer than bufio.MaxScanTokenSize
}

var (
	rdStore storage.Store
	rdSeq   int
)

func freshGraph() storage.Graph {
	if rdStore == nil {
		rdStore = memory.NewStore()
	}
	rdSeq++
	name := "?g" + itoa(rdSeq)
	g, err := rdStore.NewGraph(ctx, name)
	must(err)
	return g
}

func dropGraph(g storage.Graph) { rdStore.DeleteGraph(ctx, g.ID(ctx)) }

func itoa(i int) string {
	if i == 0 {
		return "0"
	}
	s := ""
	for i > 0 {
		s = string(rune('0'+i%10)) + s
		i /= 10
	}
	return s
}

// listGraph lists the graph through Graph.Triples and projects with accessors (zone-free).
func listGraph(g storage.Graph) ([][]Rec, bool) {
	r, _, ok := listGraphT(g)
	return r, ok
}

func listGraphT(g storage.Graph) ([][]Rec, []*triple.Triple, bool) {
	ch := make(chan *triple.Triple, 64)
	var err error
	done := make(chan struct{})
	go func() {
		err = g.Triples(ctx, storage.DefaultLookup, ch)
		close(done)
	}()
	res := [][]Rec{}
	var ts []*triple.Triple
	for t := range ch {
		recs, _ := projTriple(t, false)
		res = append(res, recs)
		ts = append(ts, t)
	}
	<-done
	return res, ts, err == nil
}

func logLine(s string) string {
	if len(s) > 300 {
		return "long:" + itoa(len(s)) + ":" + tok(s[:40])
	}
	return tok(s)
}

func readerCase(lines []string, sep string, trailing bool, src string) {
	ev := RDEvent{Ev: "RD", Src: src, Sep: tok(sep), Lines: []string{}, Lout: []string{}, Ltrip: [][]Rec{}, Loaded: [][]Rec{}}
	for _, ln := range lines {
		ev.Lines = append(ev.Lines, logLine(ln))
		if len(ln) >= 64*1024 {
			ev.Long = true
		}
		if strings.TrimSpace(ln) == "" {
			ev.Lout = append(ev.Lout, "blank")
			ev.Ltrip = append(ev.Ltrip, []Rec{})
			continue
		}
		r := parseKind("triple", ln, false)
		ev.Lout = append(ev.Lout, r.Out)
		if r.Out == "value" {
			ev.Ltrip = append(ev.Ltrip, r.Recs)
		} else {
			ev.Ltrip = append(ev.Ltrip, []Rec{})
		}
	}
	text := strings.Join(lines, sep)
	if trailing {
		text += sep
	}
	g := freshGraph()
	watched(func() { ev.Out = "timeout"; tw.Emit(ev) }, func() {
		var cnt int
		var err error
		p, site, msg := protect(func() {
			cnt, err = bio.ReadIntoGraph(ctx, g, bytes.NewBufferString(text), literal.DefaultBuilder())
		})
		ev.Out = "ok"
		if p {
			ev.Out, ev.Site, ev.Msg = "panic", site, msg
		}
		ev.Count, ev.Err = cnt, err != nil
	})
	ev.Loaded, _ = listGraph(g)
	dropGraph(g)
	tw.Emit(ev)
	stat("RD:" + ev.Out)
	countCase("RD\x00"+text, true)
	keepSample("RD-"+src, ev)
}

func runReader() {
	thorough := tier == "thorough"
	// pool of well-formed lines: printed universe triples (without the ones whose UUID is undefined
	// or collides: those are C06 cases) and their spacing variants
	var good []string
	seenU := map[string]bool{}
	for _, sp := range univ.Values {
		if sp.K != "triple" {
			continue
		}
		v, err := build(sp)
		if err != nil {
			continue
		}
		s, p, _, _ := printValue(v)
		if p || strings.ContainsAny(s, "\n\r") || !utf8.ValidString(s) {
			continue
		}
		r := parseKind("triple", s, false)
		if r.Out != "value" {
			continue
		}
		var u string
		if pp, _, _ := protect(func() { u = hex.EncodeToString(r.V.T.UUID()) }); pp || seenU[u] {
			continue
		}
		seenU[u] = true
		good = append(good, s)
	}
	if len(good) < 8 {
		die(errBadKind("universe has too few printable triples for the reader"))
	}
	bad := []string{"garbage", "/a<b>\t\"p\"@[]", "/a<b>\t\"p\"@[]\t", "/a<b> \"p\"@[] /c<d", "/a<b>\t\"p\"@[\t/c<d>", "/a<b>\t\"p\"@[]\t\"x\"^^type:foo",
		"/a<b>\t\"p\"@[]\t\"\"^^type:blob", "] /> \"", "/a<b>\t\"p\"@[2006-13-45T00:00:00Z]\t/c<d>", "a<b>\t\"p\"@[]\t/c<d>", "/a<b>\t\"\"@[]\t\"1.5\"^^type:int64",
		"/a<b>\t\"p\"@[]\t\"9223372036854775807\"^^type:int64", "#comment", "/a<b>\t\"p\"@[]\t/c<d> trailing"}
	variants := func(s string) string {
		switch rng.Intn(6) {
		case 0:
			return strings.ReplaceAll(s, "\t", " ")
		case 1:
			return "  " + s + " \t"
		case 2:
			return strings.ReplaceAll(s, "\t", " \t ")
		}
		return s
	}
	// every position of the malformed line in files of n lines
	maxN := 6
	if thorough {
		maxN = 12
	}
	for _, b := range bad {
		for n := 1; n <= maxN; n++ {
			for pos := 0; pos < n; pos++ {
				if !thorough && n > 3 && rng.Intn(3) != 0 {
					continue
				}
				lines := make([]string, n)
				for i := range lines {
					switch {
					case i == pos:
						lines[i] = b
					case rng.Intn(8) == 0:
						lines[i] = [...]string{"", "   ", "\t"}[rng.Intn(3)]
					case rng.Intn(6) == 0 && i > 0:
						lines[i] = lines[rng.Intn(i)] // duplicate of an earlier line
					default:
						lines[i] = variants(good[rng.Intn(len(good))])
					}
				}
				sep := "\n"
				if rng.Intn(5) == 0 {
					sep = "\r\n"
				}
				readerCase(lines, sep, rng.Intn(2) == 0, "one-bad")
			}
		}
	}
	// files without a malformed line, with a second malformed line, empty files
	nf := 60
	if thorough {
		nf = 600
	}
	for i := 0; i < nf; i++ {
		n := rng.Intn(13)
		lines := make([]string, n)
		for j := range lines {
			switch {
			case rng.Intn(10) == 0:
				lines[j] = ""
			case i%3 == 2 && rng.Intn(6) == 0:
				lines[j] = bad[rng.Intn(len(bad))]
			default:
				lines[j] = variants(good[rng.Intn(len(good))])
			}
		}
		readerCase(lines, "\n", rng.Intn(2) == 0, "random-file")
	}
	// a well-formed line longer than the default bufio.Scanner buffer between two short ones
	long := "/a<b>\t\"p\"@[]\t\"" + strings.Repeat("x", 70000) + "\"^^type:text"
	readerCase([]string{good[0], long, good[1]}, "\n", true, "long-line")
	readerCase([]string{long}, "\n", false, "long-line")
}
