package main

// C06: UUID equality vs value equality, Triple.Equal, Graph.Exist; UUID total and stable.

import (
	"bufio"
	"encoding/hex"
	"encoding/json"
	"fmt"
	"github.com/google/badwolf/triple/literal"
	"github.com/google/badwolf/triple/node"
	"github.com/google/badwolf/triple/predicate"
	"math"
	"math/rand"
	"os"
	"os/exec"
	"strings"
	"sync"
	"time"

	"github.com/google/badwolf/storage"
	"github.com/google/badwolf/triple"
)

func uuidOf(v *Value) (u string, panicked bool, site, msg string) {
	panicked, site, msg = protect(func() {
		switch v.K {
		case "node":
			u = hex.EncodeToString(v.N.UUID())
		case "pred":
			u = hex.EncodeToString(v.P.UUID())
		case "lit":
			u = hex.EncodeToString(v.L.UUID())
		case "obj":
			u = hex.EncodeToString(v.O.UUID())
		case "triple":
			u = hex.EncodeToString(v.T.UUID())
		}
	})
	return
}

// UPEvent: two values of one kind; what the identity functions of the real code say about them.
//
//	same   the driver's component-wise comparison (accessors only; instants by time.Equal). The
//	       trace specification recomputes it from v1/v2 and the two must agree (else harness bug).
//	ueq    UUID(v1) = UUID(v2);   teq  v1.Equal(v2) (triples);
//	exist  Graph.Exist(v2) in a graph that holds only v1 (triples)
type UPEvent struct {
	Ev    string `json:"ev"`
	Kind  string `json:"kind"`
	Src   string `json:"src"`
	I     int    `json:"i"`
	J     int    `json:"j"`
	V1    []Rec  `json:"v1"`
	V2    []Rec  `json:"v2"`
	Same  bool   `json:"same"`
	Panic bool   `json:"panic"`
	Site  string `json:"site"`
	Msg   string `json:"msg"`
	Ueq   bool   `json:"ueq"`
	Teq   string `json:"teq"`   // na|true|false|panic
	Exist string `json:"exist"` // na|true|false|panic
}

var exGraph storage.Graph

func b2s(b bool) string {
	if b {
		return "true"
	}
	return "false"
}

func pairCase(a, b *Value, src string, i, j int) *UPEvent {
	if a.K != b.K {
		die(fmt.Errorf("pair of different kinds %s/%s", a.K, b.K))
	}
	ev := &UPEvent{Ev: "UP", Kind: a.K, Src: src, I: i, J: j, Teq: "na", Exist: "na"}
	ev.V1, _ = proj(a, true)
	ev.V2, _ = proj(b, true)
	ev.Same = sameValue(a, b)
	watched(func() { ev.Msg = "timeout"; ev.Panic = true; tw.Emit(ev) }, func() {
		u1, p1, s1, m1 := uuidOf(a)
		u2, p2, s2, m2 := uuidOf(b)
		if p1 || p2 {
			ev.Panic = true
			ev.Site, ev.Msg = s1+s2, m1
			if !p1 {
				ev.Msg = m2
			}
			return
		}
		ev.Ueq = u1 == u2
		if a.K == "triple" {
			var eq bool
			if p, _, _ := protect(func() { eq = a.T.Equal(b.T) }); p {
				ev.Teq = "panic"
			} else {
				ev.Teq = b2s(eq)
			}
			if exGraph == nil {
				exGraph = freshGraph()
			}
			var ex bool
			var err error
			p, _, _ := protect(func() {
				must(exGraph.AddTriples(ctx, []*triple.Triple{a.T}))
				ex, err = exGraph.Exist(ctx, b.T)
				must(exGraph.RemoveTriples(ctx, []*triple.Triple{a.T}))
			})
			switch {
			case p || err != nil:
				ev.Exist = "panic"
			default:
				ev.Exist = b2s(ex)
			}
		}
	})
	tw.Emit(ev)
	stat("UP:" + a.K)
	if strings.HasPrefix(src, "tlc") {
		stat("tlc-cases")
	}
	if ev.Same {
		stat("UP:same")
	}
	if ev.Ueq {
		stat("UP:ueq")
	}
	k1, _ := json.Marshal(ev.V1)
	k2, _ := json.Marshal(ev.V2)
	countCase("UP\x00"+string(k1)+string(k2), string(k1) != string(k2))
	if ev.Ueq != ev.Same || ev.Panic {
		keepSample("UP-mismatch-"+a.K, ev)
	} else {
		keepSample("UP-"+a.K+"-"+b2s(ev.Same), ev)
	}
	return ev
}

// lift turns a pair of nodes / predicates / objects into pairs of triples that differ only there, so
// that Triple.Equal and Graph.Exist are exercised on the same near-miss.
func lift(sa, sb *VSpec, src string) {
	var ta, tb []*VSpec
	switch sa.K {
	case "node":
		ta = []*VSpec{tripleSpec(sa, ctxP, ctxO), tripleSpec(ctxS, ctxP, sa)}
		tb = []*VSpec{tripleSpec(sb, ctxP, ctxO), tripleSpec(ctxS, ctxP, sb)}
	case "pred":
		ta = []*VSpec{tripleSpec(ctxS, sa, ctxO), tripleSpec(ctxS, ctxP, sa)}
		tb = []*VSpec{tripleSpec(ctxS, sb, ctxO), tripleSpec(ctxS, ctxP, sb)}
	case "lit", "obj":
		ta = []*VSpec{tripleSpec(ctxS, ctxP, sa)}
		tb = []*VSpec{tripleSpec(ctxS, ctxP, sb)}
	default:
		return
	}
	for k := range ta {
		a, err1 := build(ta[k])
		b, err2 := build(tb[k])
		if err1 != nil || err2 != nil {
			continue
		}
		pairCase(a, b, src+"-lifted", 0, 0)
	}
}

// USEvent: UUID of one value computed twice, in four goroutines and in a child process.
type USEvent struct {
	Ev    string   `json:"ev"`
	Kind  string   `json:"kind"`
	Src   string   `json:"src"`
	V     []Rec    `json:"v"`
	Panic bool     `json:"panic"`
	Site  string   `json:"site"`
	Msg   string   `json:"msg"`
	U     []string `json:"u"`
	Child string   `json:"child"`
}

type usItem struct {
	spec *VSpec
	ev   *USEvent
}

var usItems []usItem

func stableCase(sp *VSpec, src string) {
	v, err := build(sp)
	if err != nil {
		stat("ctor-rejected")
		return
	}
	ev := &USEvent{Ev: "US", Kind: v.K, Src: src, U: []string{}}
	ev.V, _ = proj(v, true)
	key, _ := json.Marshal(ev.V)
	if seen["US\x00"+v.K+string(key)] {
		return
	}
	watched(func() { ev.Panic, ev.Msg = true, "timeout"; tw.Emit(ev) }, func() {
		for i := 0; i < 2; i++ {
			u, p, site, msg := uuidOf(v)
			if p {
				ev.Panic, ev.Site, ev.Msg = true, site, msg
				break
			}
			ev.U = append(ev.U, u)
			if i == 0 {
				disturb() // other work of the library between two calls must not matter
			}
		}
		if !ev.Panic {
			var wg sync.WaitGroup
			res := make([]string, 4)
			for i := range res {
				wg.Add(1)
				go func(i int) {
					defer wg.Done()
					u, p, _, _ := uuidOf(v)
					if p {
						u = "PANIC"
					}
					res[i] = u
				}(i)
			}
			wg.Wait()
			ev.U = append(ev.U, res...)
		}
	})
	if strings.HasPrefix(src, "tlc") {
		stat("tlc-cases")
	}
	countCase("US\x00"+v.K+string(key), true)
	usItems = append(usItems, usItem{sp, ev})
}

// disturb makes the library do unrelated work on the same goroutine: successful and FAILED parses of every kind
// of value (a parser that leaves something behind in a shared buffer or pool would change the next UUID).
func disturb() {
	protect(func() {
		b := literal.DefaultBuilder()
		for _, s := range []string{`"[104 105 x]"^^type:blob`, `"[1 2 3]"^^type:blob`, `"[300]"^^type:blob`, `"12x"^^type:int64`, `"1.5e"^^type:float64`,
			`"abc"^^type:text`, `"maybe"^^type:bool`, `"x"^^type:nope`} {
			b.Parse(s)
		}
		for _, s := range []string{`"p"@[2006-01-02T15:04:05.999999999-07:00]`, `"p"@[yesterday]`, `"p"@[`, `"p"@[]`} {
			predicate.Parse(s)
		}
		for _, s := range []string{`/t<id>`, `/t<id`, `_:b`, `t<id>`} {
			node.Parse(s)
		}
		for _, s := range []string{"/a<b>\t\"p\"@[]\t\"[7 8 x]\"^^type:blob", "/a<b>\t\"p\"@[]\t/c<d>", "/a<b>\t\"p\"@[]"} {
			triple.Parse(s, b)
		}
	})
}

// flushStable computes the UUIDs again in a child process and emits the US events.
func flushStable() {
	// every value again, now while seven other goroutines compute the UUIDs of OTHER values (each goroutine walks
	// the values in its own order): a UUID that depends on a buffer shared between calls differs here
	vals := make([]*Value, len(usItems))
	for i, it := range usItems {
		if v, err := build(it.spec); err == nil && !it.ev.Panic && len(it.ev.U) > 0 {
			vals[i] = v
		}
	}
	var mu sync.Mutex
	var wg sync.WaitGroup
	for g := 0; g < 8; g++ {
		wg.Add(1)
		go func(g int) {
			defer wg.Done()
			r := rand.New(rand.NewSource(int64(g) + 77))
			for rep := 0; rep < 3; rep++ {
				for _, i := range r.Perm(len(vals)) {
					if vals[i] == nil {
						continue
					}
					u, p, _, _ := uuidOf(vals[i])
					if p {
						u = "PANIC"
					}
					if u != usItems[i].ev.U[0] {
						mu.Lock()
						if len(usItems[i].ev.U) < 12 {
							usItems[i].ev.U = append(usItems[i].ev.U, u)
						}
						mu.Unlock()
						stat("US-differs-under-concurrency")
					}
				}
			}
		}(g)
	}
	wg.Wait()
	exe, err := os.Executable()
	must(err)
	cmd := exec.Command(exe, "uuidchild")
	in, err := cmd.StdinPipe()
	must(err)
	outp, err := cmd.StdoutPipe()
	must(err)
	cmd.Stderr = os.Stderr
	must(cmd.Start())
	go func() {
		w := bufio.NewWriter(in)
		for _, it := range usItems {
			b, _ := json.Marshal(it.spec)
			w.Write(b)
			w.WriteByte('\n')
		}
		w.Flush()
		in.Close()
	}()
	sc := bufio.NewScanner(outp)
	sc.Buffer(make([]byte, 1<<20), 1<<26)
	i := 0
	for sc.Scan() {
		if i < len(usItems) {
			usItems[i].ev.Child = strings.TrimSpace(sc.Text())
		}
		i++
	}
	if err := cmd.Wait(); err != nil || i != len(usItems) {
		die(fmt.Errorf("uuidchild: %v (%d of %d answers)", err, i, len(usItems)))
	}
	for _, it := range usItems {
		tw.Emit(it.ev)
		stat("US:" + it.ev.Kind)
		if it.ev.Panic {
			keepSample("US-panic", it.ev)
		} else {
			keepSample("US-"+it.ev.Kind, it.ev)
		}
	}
}

func uuidChild() {
	sc := bufio.NewScanner(os.Stdin)
	sc.Buffer(make([]byte, 1<<20), 1<<26)
	w := bufio.NewWriter(os.Stdout)
	defer w.Flush()
	for sc.Scan() {
		var sp VSpec
		if err := json.Unmarshal(sc.Bytes(), &sp); err != nil {
			fmt.Fprintln(w, "BADSPEC")
			continue
		}
		v, err := build(&sp)
		if err != nil {
			fmt.Fprintln(w, "CTOR")
			continue
		}
		u, p, _, _ := uuidOf(v)
		if p {
			u = "PANIC"
		}
		fmt.Fprintln(w, u)
	}
}

// nearMiss returns a value specification that differs from sp in exactly one, small way (or is a
// second construction of the same value: other zone, fresh copy).
func nearMiss(sp *VSpec) *VSpec {
	c := *sp
	switch sp.K {
	case "node":
		t, id := untok(sp.T), untok(sp.I)
		switch rng.Intn(5) {
		case 0: // move the type/id boundary to the left
			if i := strings.LastIndex(t, "/"); i > 0 {
				return nodeSpec(t[:i], t[i:]+id)
			}
		case 1: // move it to the right
			if len(id) > 1 {
				return nodeSpec(t+"/"+id[:1], id[1:])
			}
		case 2:
			return nodeSpec(t, id+"a")
		case 3:
			return nodeSpec(t+"a", id)
		}
		return &c
	case "pred":
		id := untok(sp.I)
		if sp.Imm {
			switch rng.Intn(4) {
			case 0:
				return tmpSpec(id, time.Unix(0, 0).UTC())
			case 1:
				return immSpec(id + "immutable")
			case 2:
				if strings.HasSuffix(id, "e") && len(id) > 1 {
					return immSpec(id[:len(id)-1])
				}
			}
			return &c
		}
		t, _ := specTime(sp)
		switch rng.Intn(6) {
		case 0: // same instant, another zone
			return tmpSpec(id, t.In(randZone()))
		case 1:
			return tmpSpec(id, t.Add(time.Nanosecond))
		case 2:
			return immSpec(id)
		case 3: // same wall clock, another zone: another instant
			_, off := t.Zone()
			return tmpSpec(id, time.Unix(t.Unix()+int64(off)-3600, int64(t.Nanosecond())).In(time.FixedZone("", 3600)))
		case 4: // 2^64 ns later: UnixNano wraps around to the same number
			return tmpSpec(id, time.Unix(t.Unix()+18446744073, int64(t.Nanosecond())+709551616).In(t.Location()))
		}
		return &c
	case "lit":
		switch sp.T {
		case "bool":
			if rng.Intn(2) == 0 {
				return textSpec(sp.V)
			}
			return boolSpec(sp.V != "true")
		case "int64":
			var v int64
			fmt.Sscanf(sp.V, "%d", &v)
			switch rng.Intn(4) {
			case 0:
				return intSpec(v + 1)
			case 1:
				return intSpec(-v)
			case 2:
				return floatSpec(float64(v))
			}
			return textSpec(sp.V)
		case "float64":
			var bits uint64
			fmt.Sscanf(sp.V, "%x", &bits)
			switch rng.Intn(3) {
			case 0:
				f := math.Float64frombits(bits ^ 1)
				if f != f {
					return &c
				}
				return floatSpec(f)
			case 1:
				return floatSpec(-math.Float64frombits(bits))
			}
			return &c
		case "text":
			s := untok(sp.V)
			switch rng.Intn(3) {
			case 0:
				return blobSpec([]byte(s))
			case 1:
				return textSpec(s + "\x00")
			}
			return immSpec(s) // compared as objects
		case "blob":
			b, _ := hex.DecodeString(sp.V)
			if rng.Intn(2) == 0 {
				return textSpec(string(b))
			}
			return blobSpec(append(b, 0))
		}
	}
	return &c
}

func runUUID(candFile string) {
	thorough := tier == "thorough"
	vals := make([]*Value, len(univ.Values))
	for i, sp := range univ.Values {
		v, err := build(sp)
		if err != nil {
			die(fmt.Errorf("universe value %d: %v", i+1, err))
		}
		vals[i] = v
	}
	// 1. candidates from TLC (spec/Identity.tla): colliding pairs and values without a byte string
	for _, c := range loadCands(candFile) {
		switch c.M {
		case "pair":
			a, b := vals[c.I-1], vals[c.J-1]
			ev := pairCase(a, b, "tlc", c.I, c.J)
			stat("cands")
			if ev.Ueq && !ev.Same {
				stat("cands-confirmed")
			}
			lift(univ.Values[c.I-1], univ.Values[c.J-1], "tlc")
		case "undef":
			stableCase(univ.Values[c.I-1], "tlc")
			stat("cands")
		case "pairv":
			a, err1 := build(c.V)
			b, err2 := build(c.W)
			if err1 == nil && err2 == nil && a.K == b.K {
				pairCase(a, b, "replay", 0, 0)
			}
		case "stable":
			stableCase(c.V, "replay")
		}
	}
	if onlyCands {
		flushStable()
		return
	}
	// 2. all pairs of the universe within each kind (including each value against a second,
	//    independent construction of itself)
	for i := range vals {
		fresh, _ := build(univ.Values[i])
		pairCase(vals[i], fresh, "universe-self", i+1, i+1)
		for j := i + 1; j < len(vals); j++ {
			if vals[i].K == vals[j].K {
				pairCase(vals[i], vals[j], "universe", i+1, j+1)
			}
		}
		stableCase(univ.Values[i], "universe")
	}
	// 3. number boundary sets: defined, stable, pairwise distinct
	ints := int64Boundaries()
	for i, x := range ints {
		stableCase(intSpec(x), "int64-boundary")
		stableCase(tripleSpec(ctxS, ctxP, intSpec(x)), "int64-boundary")
		for _, y := range ints[i:] {
			a, _ := build(intSpec(x))
			b, _ := build(intSpec(y))
			pairCase(a, b, "int64-boundary", 0, 0)
		}
	}
	fl := float64Specials()
	for i, x := range fl {
		stableCase(floatSpec(x), "float64-special")
		for _, y := range fl[i:] {
			a, _ := build(floatSpec(x))
			b, _ := build(floatSpec(y))
			pairCase(a, b, "float64-special", 0, 0)
		}
	}
	// float64 corner values (signed zeros, NaNs with two payloads, infinities) against each other and
	// against an independent construction of themselves, also as objects of triples: Triple.Equal and
	// Graph.Exist must agree with the UUIDs whatever the comparison of the boxed Go values says.
	corner := []float64{0, math.Copysign(0, -1), math.NaN(), math.Float64frombits(0x7ff8000000000001),
		math.Float64frombits(0xfff8000000000000), math.Inf(1), math.Inf(-1), 1}
	for _, x := range corner {
		for _, y := range corner {
			a, _ := build(floatSpec(x))
			b, _ := build(floatSpec(y))
			pairCase(a, b, "float64-corner", 0, 0)
			lift(floatSpec(x), floatSpec(y), "float64-corner")
		}
		stableCase(tripleSpec(ctxS, ctxP, floatSpec(x)), "float64-corner")
	}
	for _, t := range anchorBoundaries() {
		stableCase(tmpSpec("when", t), "anchor-boundary")
		a, _ := build(tmpSpec("when", t))
		for _, off := range zoneOffsets {
			b, _ := build(tmpSpec("when", t.In(time.FixedZone("", off))))
			pairCase(a, b, "same-instant-other-zone", 0, 0)
		}
		for _, t2 := range anchorBoundaries() {
			b, _ := build(tmpSpec("when", t2))
			pairCase(a, b, "anchor-boundary", 0, 0)
		}
	}
	// 4. seeded random values against a near miss of themselves
	n := 3000
	if thorough {
		n = 150000
	}
	for i := 0; i < n; i++ {
		var sp *VSpec
		switch i % 4 {
		case 0:
			sp = randNodeSpec()
		case 1:
			sp = randPredSpec()
		case 2:
			sp = randLitSpec()
		default:
			sp = randObjSpec(false)
		}
		nm := nearMiss(sp)
		sa, sb := sp, nm
		if sa.K != sb.K { // different kinds meet as objects
			sa, sb = objSpec(sa), objSpec(sb)
		} else if rng.Intn(3) == 0 && sa.K != "obj" {
			sa, sb = objSpec(sa), objSpec(sb)
		}
		a, err1 := build(sa)
		b, err2 := build(sb)
		if err1 != nil || err2 != nil {
			stat("ctor-rejected")
			continue
		}
		pairCase(a, b, "random-near-miss", 0, 0)
		if i%5 == 0 {
			lift(sa, sb, "random-near-miss")
		}
		if i%3 == 0 {
			stableCase(sp, "random")
		}
		if i%7 == 0 {
			t1, t2 := randTripleSpec(false), randTripleSpec(false)
			if rng.Intn(2) == 0 {
				t2 = tripleSpec(t1.S, t1.P, randObjSpec(false))
			}
			a, err1 := build(t1)
			b, err2 := build(t2)
			if err1 == nil && err2 == nil {
				pairCase(a, b, "random-triples", 0, 0)
				stableCase(t1, "random")
			}
		}
	}
	flushStable()
}
