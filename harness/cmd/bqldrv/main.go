// bqldrv executes BQL statements through the public path (grammar -> semantic -> planner -> Execute,
// exactly as tools/vcli/bw/run.BQL does) and records the outcome cell by cell in abstract form.
//
//	bqldrv -universe U -in cases.ndjson -out results.ndjson
//
// case:   {"id":1,"graphs":[[tids],[tids]],"text":"select ...;","chan":0,"bulk":10,"procs":0}
//
//	or {"id":1,"mode":"stmt","text":...}: a statement executed on the persistent store; the full
//	listing of every graph is recorded before and after (C04)
//
// result: {"id":1,"perr":"","err":"","panic":"","timeout":false,"cols":[...],"rows":[[{k,v}...]],
//
//	"clauses":[...parsed pattern in AST shape...]}
package main

import (
	"bufio"
	"context"
	"encoding/json"
	"flag"
	"fmt"
	"os"
	"runtime"
	"time"

	"github.com/google/badwolf/bql/grammar"
	"github.com/google/badwolf/bql/planner"
	"github.com/google/badwolf/bql/semantic"
	"github.com/google/badwolf/bql/table"
	"github.com/google/badwolf/storage"
	"github.com/google/badwolf/storage/memory"
	"github.com/google/badwolf/triple"

	"verif/harness/bqlu"
	"verif/harness/trace"
)

type Case struct {
	ID     int     `json:"id"`
	Mode   string  `json:"mode"`
	Graphs [][]int `json:"graphs"`
	Text   string  `json:"text"`
	Chan   int     `json:"chan"`
	Bulk   int     `json:"bulk"`
	Procs  int     `json:"procs"`
}

type SubjAST struct {
	C  int    `json:"c"`
	B  string `json:"b"`
	As string `json:"as"`
	Ty string `json:"ty"`
	ID string `json:"id"`
}
type PredAST struct {
	C   int    `json:"c"`
	B   string `json:"b"`
	As  string `json:"as"`
	ID  string `json:"id"`
	At  string `json:"at"`
	Pid int    `json:"pid"`
	Ab  string `json:"ab"`
	Bd  bool   `json:"bd"`
	Lo  int    `json:"lo"`
	Hi  int    `json:"hi"`
	Lb  string `json:"lb"`
	Ub  string `json:"ub"`
}
type ObjAST struct {
	Ck  string `json:"ck"`
	Cv  int    `json:"cv"`
	B   string `json:"b"`
	As  string `json:"as"`
	Ty  string `json:"ty"`
	ID  string `json:"id"`
	At  string `json:"at"`
	Pid int    `json:"pid"`
	Ab  string `json:"ab"`
	Bd  bool   `json:"bd"`
	Lo  int    `json:"lo"`
	Hi  int    `json:"hi"`
	Lb  string `json:"lb"`
	Ub  string `json:"ub"`
}
type ClauseAST struct {
	Opt bool    `json:"opt"`
	S   SubjAST `json:"s"`
	P   PredAST `json:"p"`
	O   ObjAST  `json:"o"`
}

type GraphListing struct {
	G  string    `json:"g"`
	X  bool      `json:"x"`
	Ts []STriple `json:"ts"`
}

// STriple is a stored triple rendered structurally by accessors: indices into the universe tables;
// SB / OB carry the id of a blank node that is not in the universe (created by reification).
type STriple struct {
	S  int       `json:"s"`
	SB string    `json:"sb"`
	P  int       `json:"p"`
	O  bqlu.Cell `json:"o"`
	OB string    `json:"ob"`
}

type Result struct {
	ID      int            `json:"id"`
	Perr    string         `json:"perr"`
	Err     string         `json:"err"`
	Panic   string         `json:"panic"`
	Timeout bool           `json:"timeout"`
	Cols    []string       `json:"cols"`
	Rows    [][]bqlu.Cell  `json:"rows"`
	Clauses []ClauseAST    `json:"clauses"`
	Limit   int64          `json:"limit"`
	Before  []GraphListing `json:"before"`
	After   []GraphListing `json:"after"`
}

var (
	ctx   = context.Background()
	u     *bqlu.U
	names = []string{"?g1", "?g2", "?g3"}
	// names observed by listing(): ?gx is never created by the driver, only by statements
	listNames = []string{"?g1", "?g2", "?g3", "?gx"}
	store     storage.Store
	graphs    []storage.Graph
	cur       []map[int]bool
)

func must(err error) {
	if err != nil {
		fmt.Fprintln(os.Stderr, "bqldrv:", err)
		os.Exit(3)
	}
}

func setContents(want [][]int) {
	for gi := range names {
		w := map[int]bool{}
		if gi < len(want) {
			for _, t := range want[gi] {
				w[t] = true
			}
		}
		var add, rem []*triple.Triple
		for t := range w {
			if !cur[gi][t] {
				add = append(add, u.Triple(t))
			}
		}
		for t := range cur[gi] {
			if !w[t] {
				rem = append(rem, u.Triple(t))
			}
		}
		must(graphs[gi].RemoveTriples(ctx, rem))
		must(graphs[gi].AddTriples(ctx, add))
		cur[gi] = w
	}
}

func dumpClauses(stm *semantic.Statement) []ClauseAST {
	res := []ClauseAST{}
	for _, c := range stm.GraphPatternClauses() {
		a := ClauseAST{Opt: c.Optional}
		if c.S != nil {
			a.S.C = u.NodeCell(c.S).V
		}
		a.S.B, a.S.As, a.S.Ty, a.S.ID = c.SBinding, c.SAlias, c.STypeAlias, c.SIDAlias
		if c.P != nil {
			a.P.C = u.PredCell(c.P).V
			if a.P.C == 0 {
				a.P.C = -1
			}
		}
		a.P.B, a.P.As, a.P.ID, a.P.At = c.PBinding, c.PAlias, c.PIDAlias, c.PAnchorAlias
		if c.PID != "" {
			a.P.Pid = u.StrID(c.PID)
			if a.P.Pid == 0 {
				a.P.Pid = -1
			}
		}
		a.P.Ab = c.PAnchorBinding
		a.P.Bd = c.PID != "" && c.PTemporal && c.PAnchorBinding == ""
		a.P.Lo, a.P.Hi = rankOrNeg(c.PLowerBound), rankOrNeg(c.PUpperBound)
		a.P.Lb, a.P.Ub = c.PLowerBoundAlias, c.PUpperBoundAlias
		if c.O != nil {
			oc := u.ObjectCell(c.O)
			a.O.Ck, a.O.Cv = oc.K, oc.V
		}
		a.O.B, a.O.As, a.O.Ty, a.O.ID, a.O.At = c.OBinding, c.OAlias, c.OTypeAlias, c.OIDAlias, c.OAnchorAlias
		if c.OID != "" {
			a.O.Pid = u.StrID(c.OID)
			if a.O.Pid == 0 {
				a.O.Pid = -1
			}
		}
		a.O.Ab = c.OAnchorBinding
		a.O.Bd = c.OID != "" && c.OTemporal && c.OAnchorBinding == ""
		a.O.Lo, a.O.Hi = rankOrNeg(c.OLowerBound), rankOrNeg(c.OUpperBound)
		a.O.Lb, a.O.Ub = c.OLowerBoundAlias, c.OUpperBoundAlias
		res = append(res, a)
	}
	return res
}

func rankOrNeg(t *time.Time) int {
	if t == nil {
		return 0
	}
	if r := u.TimeRank(t); r > 0 {
		return r
	}
	return -1
}

func listing() []GraphListing {
	var res []GraphListing
	for _, n := range listNames {
		gl := GraphListing{G: n, Ts: []STriple{}}
		g, err := store.Graph(ctx, n)
		if err == nil {
			gl.X = true
			ch := make(chan *triple.Triple, 16)
			go func() { g.Triples(ctx, storage.DefaultLookup, ch) }()
			for t := range ch {
				gl.Ts = append(gl.Ts, structural(t))
			}
		}
		res = append(res, gl)
	}
	return res
}

func structural(t *triple.Triple) STriple {
	e := STriple{}
	s := t.Subject()
	if c := u.NodeCell(s); c.K == "N" {
		e.S = c.V
	} else if s.Type().String() == "/_" {
		e.SB = s.ID().String()
	}
	if c := u.PredCell(t.Predicate()); c.K == "P" {
		e.P = c.V
	}
	o := t.Object()
	e.O = u.ObjectCell(o)
	if e.O.K == "?" {
		if n, err := o.Node(); err == nil && n.Type().String() == "/_" {
			e.OB = n.ID().String()
		}
	}
	return e
}

func runCase(c *Case) *Result {
	r := &Result{ID: c.ID, Cols: []string{}, Rows: [][]bqlu.Cell{}, Clauses: []ClauseAST{}, Limit: -1,
		Before: []GraphListing{}, After: []GraphListing{}}
	if c.Mode == "stmt" {
		r.Before = listing()
	} else {
		setContents(c.Graphs)
	}
	if c.Procs > 0 {
		defer runtime.GOMAXPROCS(runtime.GOMAXPROCS(c.Procs))
	}
	type out struct {
		tbl   *table.Table
		perr  error
		err   error
		panic string
		stm   *semantic.Statement
	}
	ch := make(chan out, 1)
	go func() {
		var o out
		defer func() {
			if x := recover(); x != nil {
				o.panic = fmt.Sprint(x)
			}
			ch <- o
		}()
		p, err := grammar.NewParser(grammar.SemanticBQL())
		if err != nil {
			o.perr = err
			return
		}
		stm := &semantic.Statement{}
		if err := p.Parse(grammar.NewLLk(c.Text, 1), stm); err != nil {
			o.perr = err
			return
		}
		o.stm = stm
		bulk := c.Bulk
		if bulk <= 0 {
			bulk = 10
		}
		pln, err := planner.New(ctx, store, stm, c.Chan, bulk, nil)
		if err != nil {
			o.err = err
			return
		}
		o.tbl, o.err = pln.Execute(ctx)
	}()
	var o out
	select {
	case o = <-ch:
	case <-time.After(30 * time.Second):
		r.Timeout = true
		return r
	}
	r.Panic = o.panic
	if o.perr != nil {
		r.Perr = o.perr.Error()
	}
	if o.err != nil {
		r.Err = o.err.Error()
	}
	if o.stm != nil {
		r.Clauses = dumpClauses(o.stm)
		if o.stm.IsLimitSet() {
			r.Limit = o.stm.Limit()
		}
	}
	if o.tbl != nil && o.err == nil && o.panic == "" {
		r.Cols = append(r.Cols, o.tbl.Bindings()...)
		for _, row := range o.tbl.Rows() {
			cells := make([]bqlu.Cell, 0, len(r.Cols))
			for _, b := range r.Cols {
				cells = append(cells, u.TableCell(row[b]))
			}
			r.Rows = append(r.Rows, cells)
		}
	}
	if c.Mode == "stmt" {
		r.After = listing()
	}
	return r
}

func main() {
	up := flag.String("universe", "", "bql universe json")
	in := flag.String("in", "", "cases ndjson")
	out := flag.String("out", "", "results ndjson")
	flag.Parse()
	var err error
	u, err = bqlu.Load(*up)
	must(err)
	store = memory.NewStore()
	for _, n := range names {
		g, err := store.NewGraph(ctx, n)
		must(err)
		graphs = append(graphs, g)
		cur = append(cur, map[int]bool{})
	}
	f, err := os.Open(*in)
	must(err)
	defer f.Close()
	tw, err := trace.New(*out)
	must(err)
	sc := bufio.NewScanner(f)
	sc.Buffer(make([]byte, 1<<22), 1<<22)
	for sc.Scan() {
		c := &Case{}
		must(json.Unmarshal(sc.Bytes(), c))
		if c.Mode == "reset" {
			// fresh store with the three graphs (C04 sequences start from a known state)
			store = memory.NewStore()
			graphs = graphs[:0]
			for i, n := range names {
				g, err := store.NewGraph(ctx, n)
				must(err)
				graphs = append(graphs, g)
				cur[i] = map[int]bool{}
			}
			if len(c.Graphs) > 0 {
				setContents(c.Graphs)
			}
			tw.Emit(&Result{ID: c.ID, Cols: []string{}, Rows: [][]bqlu.Cell{}, Clauses: []ClauseAST{}, Limit: -1,
				Before: []GraphListing{}, After: listing()})
			continue
		}
		tw.Emit(runCase(c))
		tw.Flush()
	}
	must(tw.Close())
}
