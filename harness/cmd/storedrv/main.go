// storedrv drives the real storage/memory store and records what it did as an ndjson trace that
// spec/StoreTrace.tla validates (C01, C02, C09).
//
//	storedrv tour    -universe U -edges E -names a,b -out T [-lookups] [-seed N]
//	    walks every edge of the TLC-generated state graph of spec/Store.tla on ONE live store
//	storedrv random  -universe U -names a,b,c -steps N -out T [-lookups] [-seed N]
//	storedrv options -universe U -out T -seed N -contents K -budget B [-full]
package main

import (
	"bufio"
	"context"
	"encoding/json"
	"flag"
	"fmt"
	"github.com/google/badwolf/triple/predicate"
	"math/rand"
	"os"
	"strings"

	"github.com/google/badwolf/storage"
	"github.com/google/badwolf/storage/memory"

	"verif/harness/storeops"
	"verif/harness/trace"
	"verif/harness/uni"
)

type edge struct {
	From []int  `json:"from"`
	Op   string `json:"op"`
	G    string `json:"g"`
	B    []int  `json:"b"`
	Ok   bool   `json:"ok"`
	To   []int  `json:"to"`
	done bool
}

type opEvent struct {
	Ev    string              `json:"ev"`
	Op    string              `json:"op"`
	G     string              `json:"g"`
	B     []int               `json:"b"`
	Ok    bool                `json:"ok"`
	Names []string            `json:"names"`
	Obs   []storeops.GraphObs `json:"obs"`
	// Sparse: the store was NOT observed after this operation (histories in which listings are rare: something that
	// is only refreshed by being read shows there); only the result flag is judged, the model state moves on
	Sparse bool `json:"sparse"`
}

// sparseEvery > 0: observe the store after an operation only one time in sparseEvery (seeded)
var sparseEvery int

type lEvent struct {
	Ev   string `json:"ev"`
	Prop string `json:"prop"`
	G    string `json:"g"`
	K    string `json:"k"` // base | page
	storeops.Q
	Err  bool  `json:"err"`
	Res  []int `json:"res"`
	Res2 []int `json:"res2"`
	Base []int `json:"base"`
}

var (
	ctx = context.Background()
	u   *uni.Universe
	tw  *trace.Writer
	rng *rand.Rand

	stats = map[string]int{}
	// oneGraph: at a newly visited state issue the lookups on one randomly chosen graph only (quick tier)
	oneGraph bool
	// lookupEvery: in random histories issue the lookups after every n-th step on average
	lookupEvery = 25
)

func key(s []int) string { return fmt.Sprint(s) }

type idxDump struct {
	N  string  `json:"n"`
	Bs [][]int `json:"bs"`
}
type dEvent struct {
	Ev  string    `json:"ev"`
	G   string    `json:"g"`
	Idx []idxDump `json:"idx"`
}

// dumpIndexes logs the seven index maps of graph gname (Layer B binding).
func dumpIndexes(st storage.Store, gname string) {
	g, err := st.Graph(ctx, gname)
	if err != nil {
		return
	}
	m, ok := verifDump(g)
	if !ok {
		return
	}
	ev := dEvent{Ev: "D", G: gname, Idx: []idxDump{}}
	for _, n := range []string{"idx", "S", "P", "O", "SP", "PO", "SO"} {
		d := idxDump{N: n, Bs: [][]int{}}
		for _, b := range m[n] {
			ids := []int{}
			for _, t := range b {
				ids = append(ids, u.TripleID(t))
			}
			d.Bs = append(d.Bs, ids)
		}
		ev.Idx = append(ev.Idx, d)
	}
	tw.Emit(ev)
	stats["index_dumps"]++
}

var spellRng = rand.New(rand.NewSource(4242))

func must(err error) {
	if err != nil {
		fmt.Fprintln(os.Stderr, "storedrv:", err)
		os.Exit(3)
	}
}

// apply performs one store/graph operation on the real store and logs it with the full observation.
func apply(st storage.Store, names []string, op, g string, b []int) bool {
	ok := true
	switch op {
	case "NewGraph":
		_, err := st.NewGraph(ctx, g)
		ok = err == nil
	case "Graph":
		gr, err := st.Graph(ctx, g)
		ok = err == nil && gr != nil
	case "DeleteGraph":
		ok = st.DeleteGraph(ctx, g) == nil
	case "Add", "Remove":
		gr, err := st.Graph(ctx, g) // handle re-fetched before each graph operation
		if err != nil {
			must(fmt.Errorf("harness: %s on missing graph %s", op, g))
		}
		// every occurrence of a triple in a batch is written in the stored or in another spelling of its anchors
		// (same instants, other zone): the same triple for the store (seeded choice, deterministic per run)
		ts := storeops.BatchSpelled(u, b, func(int) bool { return spellRng.Intn(3) == 0 })
		if op == "Add" {
			ok = gr.AddTriples(ctx, ts) == nil
		} else {
			ok = gr.RemoveTriples(ctx, ts) == nil
		}
	default:
		must(fmt.Errorf("unknown op %q", op))
	}
	if sparseEvery > 0 && rng.Intn(sparseEvery) != 0 {
		tw.Emit(opEvent{Ev: "Op", Op: op, G: g, B: trace.Ints(b), Ok: ok, Names: []string{}, Obs: []storeops.GraphObs{}, Sparse: true})
		stats["op:"+op]++
		stats["unobserved"]++
		return ok
	}
	n, obs := storeops.Observe(ctx, u, st, names)
	tw.Emit(opEvent{Ev: "Op", Op: op, G: g, B: trace.Ints(b), Ok: ok, Names: n, Obs: obs})
	stats["op:"+op]++
	return ok
}

func anchor(st storage.Store, names []string, ev string) {
	n, obs := storeops.Observe(ctx, u, st, names)
	tw.Emit(opEvent{Ev: ev, B: []int{}, Names: n, Obs: obs})
}

// encode computes the state encoding of spec/Store.tla (Enc) from an observation.
func encode(st storage.Store, names []string) []int {
	_, obs := storeops.Observe(ctx, u, st, names)
	r := make([]int, len(obs))
	for i, o := range obs {
		if !o.X {
			r[i] = -1
			continue
		}
		for _, t := range o.Ls {
			if t > 0 {
				r[i] |= 1 << (t - 1)
			}
		}
	}
	return r
}

// allLookups issues every method with every combination of fixed components drawn from the whole
// universe (stored or not), default options, on graph g.
func allLookups(st storage.Store, gname string, prop string) {
	g, err := st.Graph(ctx, gname)
	if err != nil {
		return
	}
	for _, m := range storeops.Methods {
		ss, ps, os_ := []int{0}, []int{0}, []int{0}
		if m.S {
			ss = seq(len(u.Nodes))
		}
		if m.P {
			ps = seq(len(u.CPreds))
		}
		if m.O {
			os_ = seq(len(u.Objs))
		}
		for _, s := range ss {
			for _, cp := range ps {
				for _, o := range os_ {
					q := mkQ(m.Name, m.C, s, cp, o)
					emitBase(g, gname, prop, q)
				}
			}
		}
	}
}

func seq(n int) []int {
	r := make([]int, n)
	for i := range r {
		r[i] = i + 1
	}
	return r
}

func mkQ(m, c string, s, cp, o int) storeops.Q {
	q := storeops.Q{M: m, C: c, S: s, CP: cp, O: o, Ff: "predicate"}
	if cp > 0 {
		q.P = u.CPreds[cp-1].Abs
		q.Canon = true
		for i, c := range u.CPreds {
			if c.Abs == q.P {
				q.Canon = i+1 == cp
				break
			}
		}
	} else {
		q.Canon = true
	}
	return q
}

// emitBase runs the unpaged request twice (fresh options each time) and logs it; returns the sequence.
func emitBase(g storage.Graph, gname, prop string, q storeops.Q) ([]int, bool) {
	q.Max, q.Off = 0, 0
	r1, err1, _ := storeops.Lookup(ctx, u, g, &q, storeops.Options(u, &q))
	r2, err2, _ := storeops.Lookup(ctx, u, g, &q, storeops.Options(u, &q))
	if err1 == storeops.ErrTimeout || err2 == storeops.ErrTimeout {
		must(fmt.Errorf("watchdog fired on %+v", q))
	}
	tw.Emit(lEvent{Ev: "L", Prop: prop, G: gname, K: "base", Q: q, Err: err1 != nil || err2 != nil, Res: r1, Res2: r2, Base: []int{}})
	stats["lookup:"+q.M]++
	return r1, err1 == nil && err2 == nil
}

func emitPage(g storage.Graph, gname, prop string, q storeops.Q, base []int) {
	r, err, _ := storeops.Lookup(ctx, u, g, &q, storeops.Options(u, &q))
	tw.Emit(lEvent{Ev: "L", Prop: prop, G: gname, K: "page", Q: q, Err: err != nil, Res: r, Res2: []int{}, Base: base})
	stats["page"]++
}

func readEdges(path string) []*edge {
	f, err := os.Open(path)
	must(err)
	defer f.Close()
	var es []*edge
	sc := bufio.NewScanner(f)
	sc.Buffer(make([]byte, 1<<20), 1<<20)
	for sc.Scan() {
		e := &edge{}
		must(json.Unmarshal(sc.Bytes(), e))
		es = append(es, e)
	}
	return es
}

func tour(edgesPath string, names []string, lookups bool, anchorEvery int, sampleLookups int) {
	es := readEdges(edgesPath)
	adj := map[string][]*edge{}
	for _, e := range es {
		k := key(e.From)
		adj[k] = append(adj[k], e)
	}
	// shuffle the order in which edges are tried: different seeds give different histories
	for _, l := range adj {
		rng.Shuffle(len(l), func(i, j int) { l[i], l[j] = l[j], l[i] })
	}
	next := map[string]int{} // index of first possibly-untaken edge per state
	// distinct successors per state for path search
	type hop struct {
		to string
		e  *edge
	}
	succ := map[string][]hop{}
	for k, l := range adj {
		seen := map[string]bool{}
		for _, e := range l {
			t := key(e.To)
			if t != k && !seen[t] {
				seen[t] = true
				succ[k] = append(succ[k], hop{t, e})
			}
		}
	}
	st := memory.NewStore()
	anchor(st, names, "Reset")
	cur := key(encode(st, names))
	visited := map[string]bool{}
	remaining := len(es)
	steps, desync := 0, 0
	visit := func() {
		if lookups && !visited[cur] {
			for i, n := range names {
				if oneGraph && i != rng.Intn(len(names)) {
					continue
				}
				allLookups(st, n, "C02")
				dumpIndexes(st, n)
			}
		}
		visited[cur] = true
	}
	visit()
	exec := func(e *edge) {
		apply(st, names, e.Op, e.G, e.B)
		steps++
		if !e.done {
			e.done = true
			remaining--
		}
		got := key(encode(st, names))
		if got != key(e.To) {
			// the real store left the model's path; StoreTrace will reject that step. Continue the
			// tour from where the store really is if that is a model state, else start a new store.
			desync++
			if _, ok := adj[got]; !ok {
				st = memory.NewStore()
				anchor(st, names, "Reset")
				got = key(encode(st, names))
			}
		}
		cur = got
		if lookups && visited[cur] && sampleLookups > 0 && rng.Intn(sampleLookups) == 0 {
			n := names[rng.Intn(len(names))]
			allLookups(st, n, "C02")
			dumpIndexes(st, n)
		}
		visit()
		if anchorEvery > 0 && tw.N%anchorEvery < 2 {
			// chunk boundary marker; python splits only at Anchor lines
		}
	}
	lastAnchor := 0
	maxSteps := 12*len(es) + 1000
	for remaining > 0 {
		if steps > maxSteps || desync > 200 {
			// the real store keeps leaving the model's graph (every such step is rejected by the trace
			// spec): stop touring, what was recorded is enough for a verdict
			fmt.Fprintf(os.Stderr, "storedrv: tour stopped after %d steps, %d desynchronisations, %d edges left\n", steps, desync, remaining)
			break
		}
		if anchorEvery > 0 && tw.N-lastAnchor >= anchorEvery {
			anchor(st, names, "Anchor")
			lastAnchor = tw.N
		}
		l := adj[cur]
		i := next[cur]
		for i < len(l) && l[i].done {
			i++
		}
		next[cur] = i
		if i < len(l) {
			exec(l[i])
			continue
		}
		// BFS to the nearest state with an untaken edge
		prev := map[string]hop{}
		queue := []string{cur}
		seen := map[string]bool{cur: true}
		target := ""
		for len(queue) > 0 && target == "" {
			x := queue[0]
			queue = queue[1:]
			for _, h := range succ[x] {
				if seen[h.to] {
					continue
				}
				seen[h.to] = true
				prev[h.to] = hop{x, h.e}
				j := next[h.to]
				ll := adj[h.to]
				for j < len(ll) && ll[j].done {
					j++
				}
				next[h.to] = j
				if j < len(ll) {
					target = h.to
					break
				}
				queue = append(queue, h.to)
			}
		}
		if target == "" {
			// unreachable remainder (should not happen: the model graph is strongly connected)
			fmt.Fprintf(os.Stderr, "storedrv: %d edges unreachable from %s\n", remaining, cur)
			break
		}
		var path []*edge
		for x := target; x != cur; x = prev[x].to {
			path = append([]*edge{prev[x].e}, path...)
		}
		start := cur
		for _, e := range path {
			if cur != key(e.From) {
				break // desynchronised on the way; re-plan
			}
			exec(e)
		}
		_ = start
	}
	stats["steps"] = steps
	stats["edges"] = len(es)
	stats["edges_taken"] = len(es) - remaining
	stats["states_visited"] = len(visited)
	stats["desync"] = desync
}

func randomHist(names []string, steps int, lookups bool, anchorEvery int) {
	st := memory.NewStore()
	anchor(st, names, "Reset")
	exists := map[string]bool{}
	lastAnchor := 0
	for i := 0; i < steps; i++ {
		if anchorEvery > 0 && tw.N-lastAnchor >= anchorEvery {
			anchor(st, names, "Anchor")
			lastAnchor = tw.N
		}
		g := names[rng.Intn(len(names))]
		r := rng.Intn(100)
		if sparseEvery > 0 && r >= 16 && rng.Intn(3) == 0 {
			r = rng.Intn(16) // more creations, drops and look-ups of graphs between two observations
		}
		switch {
		case r < 8:
			if apply(st, names, "NewGraph", g, nil) {
				exists[g] = true
			}
		case r < 12:
			if apply(st, names, "DeleteGraph", g, nil) {
				exists[g] = false
			}
		case r < 16:
			apply(st, names, "Graph", g, nil)
		default:
			if !exists[g] {
				if apply(st, names, "NewGraph", g, nil) {
					exists[g] = true
				}
				continue
			}
			n := rng.Intn(6)
			b := make([]int, n)
			for j := range b {
				b[j] = 1 + rng.Intn(u.NT())
			}
			if r < 62 {
				apply(st, names, "Add", g, b)
			} else {
				apply(st, names, "Remove", g, b)
			}
		}
		if lookups && rng.Intn(lookupEvery) == 0 {
			allLookups(st, g, "C02")
			dumpIndexes(st, g)
		}
	}
	stats["steps"] = steps
}

// options: C09. For K graph contents, requests over methods x arguments x windows x filters x paging.
func options(contents, budget int, full bool) {
	st := memory.NewStore()
	names := []string{u.Graphs[0]}
	gname := names[0]
	g, err := st.NewGraph(ctx, gname)
	must(err)
	anchor(st, names, "Reset")
	ni := len(u.Instants)
	type win struct{ lo, hi int }
	var wins []win
	for lo := 0; lo <= ni; lo++ {
		for hi := 0; hi <= ni; hi++ {
			wins = append(wins, win{lo, hi})
		}
	}
	type fl struct {
		fop, ff string
		la      bool
	}
	fls := []fl{{"", "predicate", false}, {"", "predicate", true}}
	for _, op := range []string{"latest", "isTemporal", "isImmutable", "bogus"} {
		for _, f := range []string{"predicate", "object", "subject"} {
			fls = append(fls, fl{op, f, false})
		}
	}
	fls = append(fls, fl{"latest", "predicate", true}, fl{"isTemporal", "object", true})
	cur := map[int]bool{}
	for c := 0; c < contents; c++ {
		// next content: crafted first (everything, nothing), then random subsets reached by add/remove
		var want map[int]bool
		switch c {
		case 0:
			want = map[int]bool{}
			for i := 1; i <= u.NT(); i++ {
				want[i] = true
			}
		case 1:
			// a graph that never held a triple with a temporal predicate of its own, but holds predicate-valued
			// temporal OBJECTS (reification): the filters on the object field look at those
			st = memory.NewStore()
			g, err = st.NewGraph(ctx, gname)
			must(err)
			cur = map[int]bool{}
			anchor(st, names, "Reset")
			want = map[int]bool{}
			for i := 1; i <= u.NT(); i++ {
				if u.Triple(i).Predicate().Type() == predicate.Immutable {
					want[i] = true
				}
			}
		default:
			want = map[int]bool{}
			dens := 20 + rng.Intn(70)
			for i := 1; i <= u.NT(); i++ {
				if rng.Intn(100) < dens {
					want[i] = true
				}
			}
		}
		var add, rem []int
		for i := 1; i <= u.NT(); i++ {
			if want[i] && !cur[i] {
				add = append(add, i)
			}
			if !want[i] && cur[i] {
				rem = append(rem, i)
			}
		}
		apply(st, names, "Remove", gname, rem)
		apply(st, names, "Add", gname, add)
		cur = want
		per := budget / contents
		if full {
			per = 1 << 30
		}
		n := 0
		// enumerate (method,args) x window x filter; page variants for each base
		type req struct {
			q storeops.Q
		}
		var reqs []storeops.Q
		for _, m := range storeops.Methods {
			ss, ps, os_ := []int{0}, []int{0}, []int{0}
			if m.S {
				ss = seq(len(u.Nodes))
			}
			if m.P {
				ps = seq(len(u.CPreds))
			}
			if m.O {
				os_ = seq(len(u.Objs))
			}
			for _, s := range ss {
				for _, cp := range ps {
					for _, o := range os_ {
						reqs = append(reqs, mkQ(m.Name, m.C, s, cp, o))
					}
				}
			}
		}
		type combo struct {
			r int
			w win
			f fl
		}
		total := len(reqs) * len(wins) * len(fls)
		pick := func(i int) combo {
			return combo{i % len(reqs), wins[(i/len(reqs))%len(wins)], fls[i/(len(reqs)*len(wins))]}
		}
		// full: the whole product in a random order. Otherwise independent draws per dimension, the unbounded
		// window four times in ten (so that every request meets every filter without a window often enough)
		var idx []int
		if full {
			idx = rng.Perm(total)
		}
		for k := 0; ; k++ {
			if n >= per || (full && k >= len(idx)) {
				break
			}
			var cb combo
			if full {
				cb = pick(idx[k])
			} else {
				cb = combo{rng.Intn(len(reqs)), wins[rng.Intn(len(wins))], fls[rng.Intn(len(fls))]}
				if rng.Intn(10) < 4 {
					cb.w = win{0, 0}
				}
			}
			q := reqs[cb.r]
			q.Lo, q.Hi, q.Fop, q.Ff, q.La = cb.w.lo, cb.w.hi, cb.f.fop, cb.f.ff, cb.f.la
			base, ok := emitBase(g, gname, "C09", q)
			n++
			if !ok {
				continue
			}
			// paging: all (max, off) in 0..4 x 0..3 when the base has >= 2 elements or with prob.
			if len(base) >= 2 || rng.Intn(8) == 0 {
				for max := 0; max <= 4; max++ {
					for off := 0; off <= 3; off++ {
						if !full && len(base) < 2 && rng.Intn(4) != 0 {
							continue
						}
						qq := q
						qq.Max, qq.Off = max, off
						emitPage(g, gname, "C09", qq, base)
						n++
					}
				}
			}
		}
		stats["contents"]++
	}
}

func main() {
	if len(os.Args) < 2 {
		must(fmt.Errorf("usage: storedrv tour|random|options ..."))
	}
	mode := os.Args[1]
	fs := flag.NewFlagSet(mode, flag.ExitOnError)
	up := fs.String("universe", "", "universe json")
	edges := fs.String("edges", "", "edges ndjson (tour)")
	namesF := fs.String("names", "?g1,?g2", "graph names")
	out := fs.String("out", "", "trace output")
	seed := fs.Int64("seed", 1, "seed")
	lookups := fs.Bool("lookups", false, "issue all lookups (C02)")
	sample := fs.Int("sample-lookups", 40, "1/N of revisits also get lookups")
	steps := fs.Int("steps", 1000, "random history length")
	sparse := fs.Int("sparse", 0, "random: observe the store after an operation only one time in N (0 = always)")
	anchorEvery := fs.Int("anchor-every", 20000, "emit an Anchor every N events")
	contents := fs.Int("contents", 6, "number of graph contents (options)")
	budget := fs.Int("budget", 10000, "requests (options)")
	full := fs.Bool("full", false, "full product (options)")
	nt := fs.Int("nt", 0, "restrict the universe to its first N triples")
	statsOut := fs.String("stats", "", "stats json output")
	fs.BoolVar(&oneGraph, "one-graph", false, "lookups on one random graph per new state")
	fs.IntVar(&lookupEvery, "lookup-every", 25, "random histories: lookups after every n-th step on average")
	must(fs.Parse(os.Args[2:]))
	var err error
	u, err = uni.Load(*up)
	must(err)
	_ = nt
	rng = rand.New(rand.NewSource(*seed))
	tw, err = trace.New(*out)
	must(err)
	names := strings.Split(*namesF, ",")
	switch mode {
	case "tour":
		tour(*edges, names, *lookups, *anchorEvery, *sample)
	case "random":
		sparseEvery = *sparse
		randomHist(names, *steps, *lookups, *anchorEvery)
	case "options":
		options(*contents, *budget, *full)
	default:
		must(fmt.Errorf("unknown mode %q", mode))
	}
	must(tw.Close())
	stats["events"] = tw.N
	if *statsOut != "" {
		b, _ := json.Marshal(stats)
		must(os.WriteFile(*statsOut, b, 0o644))
	}
}
