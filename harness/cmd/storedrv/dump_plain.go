//go:build !verif

package main

import (
	"github.com/google/badwolf/storage"
	"github.com/google/badwolf/triple"
)

// verifDump without the hook (a tree in which storage/memory/verif_dump.go does not compile, e.g. renamed index
// fields): no index dumps; lookups are still compared with scans.
func verifDump(g storage.Graph) (map[string][][]*triple.Triple, bool) {
	return nil, false
}
