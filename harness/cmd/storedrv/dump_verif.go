//go:build verif

package main

import (
	"github.com/google/badwolf/storage"
	"github.com/google/badwolf/storage/memory"
	"github.com/google/badwolf/triple"
)

// verifDump reads the index maps of an in-memory graph through the hook storage/memory/verif_dump.go.
func verifDump(g storage.Graph) (map[string][][]*triple.Triple, bool) {
	return memory.VerifDumpIndexes(g)
}
