// lexdrv drives the real BQL lexer and records its token streams as ndjson that spec/LexerTrace.tla
// validates against spec/LexerStream.tla (C16).
//
//	lexdrv exhaustive -maxlen N [-skip K -limit M] -out T   every string of length <= N over a 12-symbol alphabet
//	lexdrv values     -out T                                printed forms of values (event One)
//	lexdrv pairs      -in sentences.ndjson -out T           statements and their case / white space variants (event Pair)
//	lexdrv random     -n N [-in sentences.ndjson] -out T    seeded random bytes and mutated statements
//
// Bytes are logged as arrays of integers: the specification looks inside the texts.
package main

import (
	"bufio"
	"encoding/json"
	"flag"
	"fmt"
	"math/rand"
	"os"
	"strings"
	"time"

	"github.com/google/badwolf/bql/lexer"
	"github.com/google/badwolf/triple/literal"
	"github.com/google/badwolf/triple/node"
	"github.com/google/badwolf/triple/predicate"

	"verif/harness/gram"
	"verif/harness/trace"
)

type tok struct {
	K string `json:"k"`
	T []int  `json:"t"`
}

type run struct {
	In      []int  `json:"in"`
	Cap     int    `json:"cap"`
	Toks    []tok  `json:"toks"`
	Closed  bool   `json:"closed"`
	Timeout bool   `json:"timeout"`
	Text    string `json:"text"` // for the reader; not used by the specification
}

type lexEvent struct {
	Ev  string `json:"ev"`
	Src string `json:"src"`
	run
}

type oneEvent struct {
	Ev     string `json:"ev"`
	Kind   string `json:"kind"`   // token kind the printed value must be lexed as
	Quotes int    `json:"quotes"` // double quotes a printed form WITHOUT embedded quotes contains (0 or 2)
	run
}

type pairEvent struct {
	Ev  string `json:"ev"`
	Var string `json:"var"` // case | ws | ws1
	A   run    `json:"a"`
	B   run    `json:"b"`
}

var (
	tw       *trace.Writer
	rng      *rand.Rand
	stats    = map[string]int{}
	careful  bool
	watchdog = 5 * time.Second
	caps     = []int{0, 1, 2, 8}
	ncase    int
)

func must(err error) {
	if err != nil {
		fmt.Fprintln(os.Stderr, "lexdrv:", err)
		os.Exit(3)
	}
}

func bytesOf(s string) []int {
	r := make([]int, len(s))
	for i := 0; i < len(s); i++ {
		r[i] = int(s[i])
	}
	return r
}

func lexRun(input string) run {
	if careful {
		b, _ := json.Marshal(input)
		fmt.Fprintf(os.Stderr, "CURRENT %s\n", b)
	}
	c := caps[ncase%len(caps)]
	ncase++
	lr := gram.Lex(input, c, watchdog)
	if lr.Timeout { // re-run once before it counts
		lr = gram.Lex(input, c, watchdog)
	}
	if lr.Timeout {
		timeouts++
	}
	r := run{In: bytesOf(input), Cap: c, Toks: make([]tok, 0, len(lr.Toks)), Closed: lr.Closed, Timeout: lr.Timeout, Text: input}
	for _, t := range lr.Toks {
		r.Toks = append(r.Toks, tok{K: gram.KindName(t.Type), T: bytesOf(t.Text)})
	}
	return r
}

// finish writes the trace and the statistics; also called early, see emit.
var finish func()

func emit(ev interface{}) {
	tw.Emit(ev)
	if careful {
		tw.Flush()
	}
	if timeouts >= 5 {
		// five inputs on which the lexer did not terminate (each confirmed by a second attempt): the verdict is
		// settled, and every further one costs two watchdog periods and may leave a spinning goroutine behind
		stats["stopped_after_5_timeouts"] = 1
		finish()
		os.Exit(0)
	}
}

var timeouts int

// ------------------------------------------------------------------------------ exhaustive ----

var alphabet = []string{"a", "é", "1", " ", "\"", "\\", "@", "[", "]", "<", "/", "?"}

func exhaustive(maxlen, skip, limit int) {
	idx := 0
	var rec func(prefix string, depth int) bool
	rec = func(prefix string, depth int) bool {
		if idx >= skip {
			if limit > 0 && idx >= skip+limit {
				return false
			}
			emit(lexEvent{Ev: "Lex", Src: "exhaustive", run: lexRun(prefix)})
			stats["lex:exhaustive"]++
		} else {
			ncase++
		}
		idx++
		if depth == maxlen {
			return true
		}
		for _, a := range alphabet {
			if !rec(prefix+a, depth+1) {
				return false
			}
		}
		return true
	}
	rec("", 0)
}

// ------------------------------------------------------------------------------ values ----

func values() {
	one := func(kind string, quotes int, text string) {
		emit(oneEvent{Ev: "One", Kind: kind, Quotes: quotes, run: lexRun(text)})
		stats["one:"+kind]++
	}
	ids := []string{"a", "b c", "é", "a/b", "a]b", "a[b", "@[", "a@[b]", "a,b", "^^type:text", "a\\b", "a\\", "\\", "a\\\\", "?x", "_:v", "{}();.", "select",
		"a\"b", "\"", "a\"@[", "1", "/u<a", "日本"}
	types := []string{"/t", "/a/b", "/_", "/é", "/a<b", "/a>b", "/t\"x", "/select", "/a@[b"}
	for _, t := range types {
		for _, id := range ids {
			if strings.ContainsAny(id, "<>") {
				continue
			}
			n, err := node.NewNodeFromStrings(t, id)
			if err != nil {
				continue
			}
			one("NODE", 0, n.String())
		}
	}
	instants := []string{"2019-03-01T00:00:00Z", "2020-06-01T12:30:00.5Z", "2021-11-11T11:11:11.000000011Z", "2020-01-01T02:00:00+02:00", "0001-01-01T00:00:00Z"}
	for _, id := range ids {
		if p, err := predicate.NewImmutable(id); err == nil {
			one("PREDICATE", 2, p.String())
		}
		for _, ts := range instants {
			t, err := time.Parse(time.RFC3339Nano, ts)
			must(err)
			if p, err := predicate.NewTemporal(id, t); err == nil {
				one("PREDICATE", 2, p.String())
			}
		}
		// bounds have no printer in the code base: the BQL notation "id"@[lo,hi], either side may be empty
		for _, b := range []string{",", instants[0] + "," + instants[2], instants[0] + ",", "," + instants[2]} {
			one("PREDICATE_BOUND", 2, `"`+id+`"@[`+b+`]`)
		}
	}
	bld := literal.DefaultBuilder()
	for _, tv := range [][2]string{{"bool", "true"}, {"bool", "false"}, {"int64", "1"}, {"int64", "-9223372036854775808"}, {"float64", "1.5"},
		{"float64", "1e+21"}, {"float64", "-0.25"}, {"blob", "[1 2 3]"}, {"blob", "[]"}} {
		if l, err := bld.Parse(`"` + tv[1] + `"^^type:` + tv[0]); err == nil {
			one("LITERAL", 2, l.String())
		}
	}
	for _, id := range ids {
		if l, err := bld.Build(literal.Text, id); err == nil {
			one("LITERAL", 2, l.String())
		}
	}
	for _, b := range []string{"?x", "?x_1", "?é", "?X1", "?日本", "?_", "?select"} {
		one("BINDING", 0, b)
	}
	for _, b := range []string{"_:v", "_:v_1", "_:é1", "_:select"} {
		one("BLANK_NODE", 0, b)
	}
}

// ------------------------------------------------------------------------------ pairs ----

type sentence struct {
	S []gram.Tok `json:"s"`
}

func readSentences(path string) []sentence {
	f, err := os.Open(path)
	must(err)
	defer f.Close()
	var res []sentence
	sc := bufio.NewScanner(f)
	sc.Buffer(make([]byte, 1<<20), 1<<26)
	for sc.Scan() {
		if len(strings.TrimSpace(sc.Text())) == 0 {
			continue
		}
		var s sentence
		must(json.Unmarshal(sc.Bytes(), &s))
		res = append(res, s)
	}
	must(sc.Err())
	return res
}

func recase(w string) string {
	b := []byte(w)
	switch rng.Intn(3) {
	case 0:
		return strings.ToUpper(w)
	case 1:
		return strings.ToUpper(w[:1]) + w[1:]
	}
	for i := range b {
		if rng.Intn(2) == 0 && b[i] >= 'a' && b[i] <= 'z' {
			b[i] -= 32
		}
	}
	return string(b)
}

var spaces = []string{" ", "  ", "\t", "\n", " \n\t ", "\r\n"}
var uspaces = []string{"\u0085", "\u00a0", "\u2003", "\u3000", " \u00a0", "\u2003 ", "\u00a0\u3000"}

func pairs(sents []sentence) {
	c := &gram.Concretizer{Rng: rng}
	for _, s := range sents {
		texts := c.Texts(s.S)
		base := gram.Join(s.S, texts)
		a := lexRun(base)
		// (1) letter case of keywords and of literal type names
		ct := append([]string{}, texts...)
		for i, t := range s.S {
			if gram.IsKeyword(t.K) {
				ct[i] = recase(texts[i])
			} else if t.K == "LITERAL" {
				if j := strings.LastIndex(texts[i], "^^type:"); j >= 0 {
					ct[i] = texts[i][:j+7] + recase(texts[i][j+7:])
				}
			}
		}
		emit(pairEvent{Ev: "Pair", Var: "case", A: a, B: lexRun(gram.Join(s.S, ct))})
		stats["pair:case"]++
		// (2) amount of white space between tokens that are separated by white space
		var b strings.Builder
		b.WriteString(spaces[rng.Intn(len(spaces))])
		for i, t := range texts {
			if t == "" {
				continue
			}
			if i > 0 && !gram.Glued(s.S, i) {
				b.WriteString(spaces[rng.Intn(len(spaces))])
			}
			b.WriteString(t)
		}
		b.WriteString(spaces[rng.Intn(len(spaces))])
		emit(pairEvent{Ev: "Pair", Var: "ws", A: a, B: lexRun(b.String())})
		stats["pair:ws"]++
		// (2b) the same with white space beyond ASCII (the lexer skips whatever unicode.IsSpace accepts): runes of two
		// and three bytes next to every token
		var ub strings.Builder
		for i, t := range texts {
			if t == "" {
				continue
			}
			if i > 0 && !gram.Glued(s.S, i) {
				ub.WriteString(uspaces[rng.Intn(len(uspaces))])
			}
			ub.WriteString(t)
		}
		ub.WriteString(uspaces[rng.Intn(len(uspaces))])
		emit(pairEvent{Ev: "Pair", Var: "wsu", A: a, B: lexRun(ub.String())})
		stats["pair:wsu"]++
		// (3) the base written as compactly as the punctuation allows vs the spaced text
		var cb strings.Builder
		for i, t := range texts {
			if t == "" {
				continue
			}
			// (a filter function and its "(" stay glued in both texts: the repository's own tests require
			// "FILTER latest (?p)" to be rejected, so that white space is part of the notation)
			if i > 0 && cb.Len() > 0 && !punct(texts[i-1]) && !punct(t) {
				cb.WriteByte(' ')
			}
			cb.WriteString(t)
		}
		emit(pairEvent{Ev: "Pair", Var: "ws1", A: lexRun(cb.String()), B: a})
		stats["pair:ws1"]++
	}
}

// punct reports single-symbol tokens, which need no white space around them.
func punct(t string) bool {
	return len(t) == 1 && strings.ContainsAny(t, "{}().;,<>=")
}

// ------------------------------------------------------------------------------ random ----

func random(n int, sents []sentence) {
	c := &gram.Concretizer{Rng: rng, Hostile: true}
	frag := []string{"\"", "\"@[", "]", "\"^^type:", "text", "int64", "/", "<", ">", "?", "_:", "\\", " ", "\n", ",", ";", "select", "before", "filter", "=", "1", "é",
		"2020-01-01T00:00:00Z", "{", "}", "(", ")", ".", "\x00", "\xff", " ", " "}
	for i := 0; i < n; i++ {
		var text string
		switch {
		case len(sents) > 0 && i%2 == 0: // mutated statement
			s := sents[rng.Intn(len(sents))]
			text = c.Text(s.S)
			for k := rng.Intn(3) + 1; k > 0 && len(text) > 0; k-- {
				p := rng.Intn(len(text))
				switch rng.Intn(4) {
				case 0:
					text = text[:p] + text[p+1:]
				case 1:
					text = text[:p] + frag[rng.Intn(len(frag))] + text[p:]
				case 2:
					text = text[:p]
				case 3:
					text = text[:p] + text[p:] + text[p:]
				}
			}
		case i%4 == 1: // random bytes
			b := make([]byte, rng.Intn(24))
			for j := range b {
				b[j] = byte(rng.Intn(256))
			}
			text = string(b)
		default: // random fragments
			for k := rng.Intn(8); k >= 0; k-- {
				text += frag[rng.Intn(len(frag))]
			}
		}
		emit(lexEvent{Ev: "Lex", Src: "random", run: lexRun(text)})
		stats["lex:random"]++
	}
}

// textsMode replays logged cases given as byte arrays: {"in": [..]} -> Lex, {"kind","quotes","in"} -> One,
// {"var", "a": [..], "b": [..]} -> Pair.
func textsMode(path string) {
	f, err := os.Open(path)
	must(err)
	defer f.Close()
	str := func(b []int) string {
		r := make([]byte, len(b))
		for i, x := range b {
			r[i] = byte(x)
		}
		return string(r)
	}
	sc := bufio.NewScanner(f)
	sc.Buffer(make([]byte, 1<<20), 1<<26)
	for sc.Scan() {
		if len(strings.TrimSpace(sc.Text())) == 0 {
			continue
		}
		var c struct {
			In     []int  `json:"in"`
			Kind   string `json:"kind"`
			Quotes int    `json:"quotes"`
			Var    string `json:"var"`
			A      []int  `json:"a"`
			B      []int  `json:"b"`
		}
		must(json.Unmarshal(sc.Bytes(), &c))
		switch {
		case c.Var != "":
			emit(pairEvent{Ev: "Pair", Var: c.Var, A: lexRun(str(c.A)), B: lexRun(str(c.B))})
		case c.Kind != "":
			emit(oneEvent{Ev: "One", Kind: c.Kind, Quotes: c.Quotes, run: lexRun(str(c.In))})
		default:
			for range caps { // every capacity
				emit(lexEvent{Ev: "Lex", Src: "replay", run: lexRun(str(c.In))})
			}
		}
	}
	must(sc.Err())
}

func main() {
	if len(os.Args) < 2 {
		must(fmt.Errorf("usage: lexdrv exhaustive|values|pairs|random ..."))
	}
	mode := os.Args[1]
	fs := flag.NewFlagSet(mode, flag.ExitOnError)
	in := fs.String("in", "", "sentences (ndjson printed by the TLC derivation machine)")
	out := fs.String("out", "", "trace file")
	statsPath := fs.String("stats", "", "stats file (json)")
	seed := fs.Int64("seed", 1, "seed")
	maxlen := fs.Int("maxlen", 3, "exhaustive: maximal input length")
	skip := fs.Int("skip", 0, "exhaustive: skip the first K inputs")
	limit := fs.Int("limit", 0, "exhaustive: at most M inputs (0 = all)")
	n := fs.Int("n", 1000, "random: number of inputs")
	fs.BoolVar(&careful, "careful", false, "announce every input on stderr and flush every event (used to find a crashing input)")
	must(fs.Parse(os.Args[2:]))
	rng = rand.New(rand.NewSource(*seed))
	var err error
	tw, err = trace.New(*out)
	must(err)
	setFinish(*statsPath)
	_ = lexer.ItemEOF
	switch mode {
	case "exhaustive":
		exhaustive(*maxlen, *skip, *limit)
	case "values":
		values()
	case "pairs":
		pairs(readSentences(*in))
	case "texts":
		textsMode(*in)
	case "random":
		var s []sentence
		if *in != "" {
			s = readSentences(*in)
		}
		random(*n, s)
	default:
		must(fmt.Errorf("unknown mode %q", mode))
	}
	finish()
}

func init() {
	finish = func() {}
}

func setFinish(statsPath string) {
	finish = func() {
		must(tw.Close())
		if statsPath == "" {
			return
		}
		b, _ := json.Marshal(stats)
		must(os.WriteFile(statsPath, b, 0o644))
	}
}
