// Package bqlu maps the BQL universe (universe/bql.json) to real badwolf values and result cells back
// to abstract cells {k,v} (see spec/BQLSemantics.tla). Concretisation uses constructors only,
// projection uses accessors only (never String()/UUID() of the code under test).
package bqlu

import (
	"encoding/json"
	"fmt"
	"math"
	"os"
	"time"

	"github.com/google/badwolf/bql/table"
	"github.com/google/badwolf/triple"
	"github.com/google/badwolf/triple/literal"
	"github.com/google/badwolf/triple/node"
	"github.com/google/badwolf/triple/predicate"
)

// FScale: float64 cells carry value * 2^24 (see lib/bqlu.py).
const FScale = 1 << 24

// Big / BigBase: the abstract int64 value Big + d (0 <= d < 2^20) stands for 2^53 + d, see lib/bqlu.py.
const (
	Big     = 1 << 29
	BigBase = int64(1) << 53
)

// IntActual maps an abstract int64 cell value to the number it stands for.
func IntActual(v int) int64 {
	a := int64(v)
	if a < 0 {
		a = -a
	}
	if a < Big/2 {
		return int64(v)
	}
	// q * Big + r (|r| < 2^22) stands for q * 2^53 + r: q = 1 are the stand-ins of the universe; q = 2, 3 and small
	// negative r come from sums of up to three of them with small numbers
	q := (a + Big/2) / Big
	x := q*BigBase + (a - q*Big)
	if v < 0 {
		return -x
	}
	return x
}

// IntAbstract is the inverse of IntActual; ok = false for numbers outside the universe's ranges.
func IntAbstract(x int64) (int, bool) {
	a := x
	if a < 0 {
		a = -a
	}
	if a >= 0 && a < Big/2 {
		return int(x), true
	}
	// additive on the stand-ins: the sum of up to three of them and of small numbers maps to the sum of their abstract
	// values, so that TLC can judge sums of numbers beyond 2^53 (where float64 arithmetic is not exact)
	q := (a + BigBase/2) / BigBase
	r := a - q*BigBase
	if q >= 1 && q <= 3 && r > -(1<<22) && r < (1<<22) {
		v := int(q*Big + r)
		if x < 0 {
			v = -v
		}
		return v, true
	}
	return 0, false
}

type Cell struct {
	K string `json:"k"`
	V int    `json:"v"`
}

type U struct {
	Instants []string `json:"instants"`
	Str      []string `json:"str"`
	Nodes    []struct {
		Type string `json:"type"`
		ID   string `json:"id"`
	} `json:"nodes"`
	Preds []struct {
		ID     string `json:"id"`
		Tmp    bool   `json:"tmp"`
		N      int    `json:"n"`
		Anchor string `json:"anchor"`
	} `json:"preds"`
	Triples []struct {
		S      int    `json:"s"`
		P      int    `json:"p"`
		O      Cell   `json:"o"`
		Anchor string `json:"anchor"` // "" or another spelling (zone) of the predicate's anchor, for this triple only
	} `json:"triples"`

	times   []time.Time
	nodes   []*node.Node
	preds   []*predicate.Predicate
	triples []*triple.Triple
}

func Load(path string) (*U, error) {
	b, err := os.ReadFile(path)
	if err != nil {
		return nil, err
	}
	u := &U{}
	if err := json.Unmarshal(b, u); err != nil {
		return nil, err
	}
	for _, s := range u.Instants {
		t, err := time.Parse(time.RFC3339Nano, s)
		if err != nil {
			return nil, err
		}
		u.times = append(u.times, t)
	}
	for _, n := range u.Nodes {
		nn, err := node.NewNodeFromStrings(n.Type, n.ID)
		if err != nil {
			return nil, err
		}
		u.nodes = append(u.nodes, nn)
	}
	for _, p := range u.Preds {
		var pp *predicate.Predicate
		var err error
		if p.Tmp {
			// the stored value keeps the spelling (zone) given in the universe file
			var ta time.Time
			ta, err = time.Parse(time.RFC3339Nano, p.Anchor)
			if err != nil {
				return nil, err
			}
			if !ta.Equal(u.times[p.N-1]) {
				return nil, fmt.Errorf("predicate %q: anchor %s is not instant rank %d", p.ID, p.Anchor, p.N)
			}
			pp, err = predicate.NewTemporal(p.ID, ta)
		} else {
			pp, err = predicate.NewImmutable(p.ID)
		}
		if err != nil {
			return nil, err
		}
		u.preds = append(u.preds, pp)
	}
	for _, t := range u.Triples {
		o, err := u.Object(t.O)
		if err != nil {
			return nil, err
		}
		pp := u.preds[t.P-1]
		if t.Anchor != "" {
			ta, err := time.Parse(time.RFC3339Nano, t.Anchor)
			if err != nil {
				return nil, err
			}
			e := u.Preds[t.P-1]
			if !e.Tmp || !ta.Equal(u.times[e.N-1]) {
				return nil, fmt.Errorf("triple anchor %s is not a spelling of the anchor of predicate %d", t.Anchor, t.P)
			}
			if pp, err = predicate.NewTemporal(e.ID, ta); err != nil {
				return nil, err
			}
		}
		tt, err := triple.New(u.nodes[t.S-1], pp, o)
		if err != nil {
			return nil, err
		}
		u.triples = append(u.triples, tt)
	}
	return u, nil
}

func (u *U) Triple(i int) *triple.Triple { return u.triples[i-1] }
func (u *U) NT() int                     { return len(u.triples) }

// Object concretises an object cell (kinds N, P, I, F, X, B).
func (u *U) Object(c Cell) (*triple.Object, error) {
	b := literal.DefaultBuilder()
	switch c.K {
	case "N":
		return triple.NewNodeObject(u.nodes[c.V-1]), nil
	case "P":
		return triple.NewPredicateObject(u.preds[c.V-1]), nil
	case "I":
		l, err := b.Build(literal.Int64, IntActual(c.V))
		if err != nil {
			return nil, err
		}
		return triple.NewLiteralObject(l), nil
	case "F":
		l, err := b.Build(literal.Float64, float64(c.V)/FScale)
		if err != nil {
			return nil, err
		}
		return triple.NewLiteralObject(l), nil
	case "X":
		l, err := b.Build(literal.Text, u.Str[c.V-1])
		if err != nil {
			return nil, err
		}
		return triple.NewLiteralObject(l), nil
	case "B":
		l, err := b.Build(literal.Bool, c.V != 0)
		if err != nil {
			return nil, err
		}
		return triple.NewLiteralObject(l), nil
	}
	return nil, fmt.Errorf("bad object cell %+v", c)
}

var unknown = Cell{K: "?", V: 0}

func (u *U) StrID(s string) int {
	for i, x := range u.Str {
		if x == s {
			return i + 1
		}
	}
	return 0
}

func (u *U) NodeCell(n *node.Node) Cell {
	if n == nil || n.Type() == nil || n.ID() == nil {
		return unknown
	}
	for i, e := range u.Nodes {
		if e.Type == n.Type().String() && e.ID == n.ID().String() {
			return Cell{"N", i + 1}
		}
	}
	return unknown
}

func (u *U) TimeRank(t *time.Time) int {
	if t == nil {
		return 0
	}
	for i, x := range u.times {
		if x.Equal(*t) {
			return i + 1
		}
	}
	return 0
}

func (u *U) PredCell(p *predicate.Predicate) Cell {
	if p == nil {
		return unknown
	}
	for i, e := range u.Preds {
		if e.ID != string(p.ID()) {
			continue
		}
		if p.Type() == predicate.Immutable {
			if !e.Tmp {
				return Cell{"P", i + 1}
			}
			continue
		}
		if !e.Tmp {
			continue
		}
		ta, err := p.TimeAnchor()
		if err == nil && ta != nil && ta.Equal(u.times[e.N-1]) {
			return Cell{"P", i + 1}
		}
	}
	return unknown
}

func (u *U) LitCell(l *literal.Literal) Cell {
	if l == nil {
		return unknown
	}
	switch v := l.Interface().(type) {
	case int64:
		if a, ok := IntAbstract(v); ok && l.Type() == literal.Int64 {
			return Cell{"I", a}
		}
	case float64:
		q := v * FScale
		if l.Type() == literal.Float64 && q == math.Trunc(q) && math.Abs(q) < (1<<31)-1 {
			return Cell{"F", int(q)}
		}
	case string:
		if id := u.StrID(v); id > 0 && l.Type() == literal.Text {
			return Cell{"X", id}
		}
	case bool:
		if l.Type() == literal.Bool {
			if v {
				return Cell{"B", 1}
			}
			return Cell{"B", 0}
		}
	}
	return unknown
}

func (u *U) ObjectCell(o *triple.Object) Cell {
	if o == nil {
		return unknown
	}
	if n, err := o.Node(); err == nil {
		return u.NodeCell(n)
	}
	if p, err := o.Predicate(); err == nil {
		return u.PredCell(p)
	}
	if l, err := o.Literal(); err == nil {
		return u.LitCell(l)
	}
	return unknown
}

// TableCell projects a result cell; a cell with no component set is NULL.
func (u *U) TableCell(c *table.Cell) Cell {
	if c == nil {
		return Cell{"?", 1} // binding missing from the row
	}
	set := 0
	var r Cell
	if c.S != nil {
		set++
		if id := u.StrID(*c.S); id > 0 {
			r = Cell{"S", id}
		} else {
			r = unknown
		}
	}
	if c.N != nil {
		set++
		r = u.NodeCell(c.N)
	}
	if c.P != nil {
		set++
		r = u.PredCell(c.P)
	}
	if c.L != nil {
		set++
		r = u.LitCell(c.L)
	}
	if c.T != nil {
		set++
		if n := u.TimeRank(c.T); n > 0 {
			r = Cell{"T", n}
		} else {
			r = unknown
		}
	}
	switch set {
	case 0:
		return Cell{"0", 0}
	case 1:
		return r
	}
	return Cell{"?", 2} // more than one component set
}

// TripleID returns the universe index of a real triple, 0 if unknown.
func (u *U) TripleID(t *triple.Triple) int {
	if t == nil {
		return 0
	}
	s, p, o := u.NodeCell(t.Subject()), u.PredCell(t.Predicate()), u.ObjectCell(t.Object())
	for i, e := range u.Triples {
		if e.S == s.V && s.K == "N" && e.P == p.V && p.K == "P" && e.O == o {
			return i + 1
		}
	}
	return 0
}
