// Package storeops runs storage.Graph / storage.Store calls for the drivers and projects the results
// to abstract ids of a universe. Shared by the store, memoization and concurrency drivers.
package storeops

import (
	"context"
	"fmt"
	"sort"
	"time"

	"github.com/google/badwolf/bql/planner/filter"
	"github.com/google/badwolf/storage"
	"github.com/google/badwolf/triple"
	"github.com/google/badwolf/triple/node"
	"github.com/google/badwolf/triple/predicate"

	"verif/harness/uni"
)

// Q is one lookup request in abstract terms (see spec/Lookups.tla).
type Q struct {
	M     string `json:"m"`     // method name
	C     string `json:"c"`     // returned component: s,p,o,t
	S     int    `json:"s"`     // abstract node id or 0
	P     int    `json:"p"`     // abstract predicate id or 0
	CP    int    `json:"cp"`    // concrete predicate spelling (index into cpreds) or 0
	Canon bool   `json:"canon"` // CP is the canonical spelling of P (the one stored triples use)
	O     int    `json:"o"`     // abstract object id or 0
	Lo    int    `json:"lo"`    // instant rank or 0
	Hi    int    `json:"hi"`
	LoD   int    `json:"lod"` // nanoseconds added to the lower / upper bound (bounds that differ below one second)
	HiD   int    `json:"hid"`
	Fop   string `json:"fop"` // "", latest, isTemporal, isImmutable, bogus
	Ff    string `json:"ff"`  // predicate, object, subject
	La    bool   `json:"la"`
	Max   int    `json:"max"`
	Off   int    `json:"off"`
}

// Methods lists the ten indexed lookups plus the full listing: name, returned component, fixed parts.
// Method describes one lookup of storage.Graph: result component C (o/s/p/t) and which arguments it takes.
type Method struct {
	Name    string
	C       string
	S, P, O bool
}

var Methods = []Method{
	{"Objects", "o", true, true, false},
	{"Subjects", "s", false, true, true},
	{"PredicatesForSubject", "p", true, false, false},
	{"PredicatesForObject", "p", false, false, true},
	{"PredicatesForSubjectAndObject", "p", true, false, true},
	{"TriplesForSubject", "t", true, false, false},
	{"TriplesForPredicate", "t", false, true, false},
	{"TriplesForObject", "t", false, false, true},
	{"TriplesForSubjectAndPredicate", "t", true, true, false},
	{"TriplesForPredicateAndObject", "t", false, true, true},
	{"Triples", "t", false, false, false},
}

// Options builds a fresh storage.LookupOptions value for q.
func Options(u *uni.Universe, q *Q) *storage.LookupOptions {
	lo := &storage.LookupOptions{MaxElements: q.Max, Offset: q.Off, LatestAnchor: q.La}
	if q.Lo > 0 {
		t := u.Time(q.Lo).Add(time.Duration(q.LoD))
		lo.LowerAnchor = &t
	}
	if q.Hi > 0 {
		t := u.Time(q.Hi).Add(time.Duration(q.HiD))
		lo.UpperAnchor = &t
	}
	if q.Fop != "" {
		fo := &filter.StorageOptions{}
		switch q.Fop {
		case "latest":
			fo.Operation = filter.Latest
		case "isTemporal":
			fo.Operation = filter.IsTemporal
		case "isImmutable":
			fo.Operation = filter.IsImmutable
		default:
			fo.Operation = filter.Operation(77)
		}
		switch q.Ff {
		case "predicate":
			fo.Field = filter.PredicateField
		case "object":
			fo.Field = filter.ObjectField
		default:
			fo.Field = filter.SubjectField
		}
		lo.FilterOptions = fo
	}
	return lo
}

// ErrTimeout is returned by Lookup when the call did not finish within the watchdog.
var ErrTimeout = fmt.Errorf("watchdog: lookup did not return")

// Lookup runs q on g with the given options value and returns the results projected to abstract ids
// (0 = value outside the universe), in delivery order, the error of the call, and whether the channel
// was closed by the callee.
func Lookup(ctx context.Context, u *uni.Universe, g storage.Graph, q *Q, lo *storage.LookupOptions) (res []int, err error, closed bool) {
	res = []int{}
	var s *node.Node
	var p *predicate.Predicate
	var o *triple.Object
	if q.S > 0 {
		s = u.Node(q.S)
	}
	if q.CP > 0 {
		p = u.CPred(q.CP)
	}
	if q.O > 0 {
		o = u.Obj(q.O)
	}
	errc := make(chan error, 1)
	done := make(chan struct{})
	switch q.C {
	case "o":
		ch := make(chan *triple.Object, 4)
		go func() { errc <- g.Objects(ctx, s, p, lo, ch) }()
		go func() {
			for x := range ch {
				res = append(res, u.ObjID(x))
			}
			close(done)
		}()
	case "s":
		ch := make(chan *node.Node, 4)
		go func() { errc <- g.Subjects(ctx, p, o, lo, ch) }()
		go func() {
			for x := range ch {
				res = append(res, u.NodeID(x))
			}
			close(done)
		}()
	case "p":
		ch := make(chan *predicate.Predicate, 4)
		go func() {
			switch q.M {
			case "PredicatesForSubject":
				errc <- g.PredicatesForSubject(ctx, s, lo, ch)
			case "PredicatesForObject":
				errc <- g.PredicatesForObject(ctx, o, lo, ch)
			default:
				errc <- g.PredicatesForSubjectAndObject(ctx, s, o, lo, ch)
			}
		}()
		go func() {
			for x := range ch {
				res = append(res, u.PredID(x))
			}
			close(done)
		}()
	default:
		ch := make(chan *triple.Triple, 4)
		go func() {
			switch q.M {
			case "TriplesForSubject":
				errc <- g.TriplesForSubject(ctx, s, lo, ch)
			case "TriplesForPredicate":
				errc <- g.TriplesForPredicate(ctx, p, lo, ch)
			case "TriplesForObject":
				errc <- g.TriplesForObject(ctx, o, lo, ch)
			case "TriplesForSubjectAndPredicate":
				errc <- g.TriplesForSubjectAndPredicate(ctx, s, p, lo, ch)
			case "TriplesForPredicateAndObject":
				errc <- g.TriplesForPredicateAndObject(ctx, p, o, lo, ch)
			default:
				errc <- g.Triples(ctx, lo, ch)
			}
		}()
		go func() {
			for x := range ch {
				res = append(res, u.TripleID(x))
			}
			close(done)
		}()
	}
	select {
	case err = <-errc:
	case <-time.After(20 * time.Second):
		return res, ErrTimeout, false
	}
	select {
	case <-done:
		closed = true
	case <-time.After(2 * time.Second):
		return []int{-2}, err, false
	}
	return res, err, closed
}

// GraphObs is the observation of one graph name after an operation.
type GraphObs struct {
	G   string `json:"g"`
	X   bool   `json:"x"`   // Store.Graph succeeded
	Ls  []int  `json:"ls"`  // Graph.Triples(DefaultLookup) in delivery order
	Ex  []int  `json:"ex"`  // universe triples for which Graph.Exist is true
	Ex2 []int  `json:"ex2"` // the same with every anchor written in another zone (TripleAlt)
}

// Observe returns what GraphNames delivers (sorted) and the observation of every universe name.
func Observe(ctx context.Context, u *uni.Universe, st storage.Store, names []string) ([]string, []GraphObs) {
	nc := make(chan string, 8)
	var got []string
	done := make(chan struct{})
	go func() {
		for n := range nc {
			got = append(got, n)
		}
		close(done)
	}()
	if err := st.GraphNames(ctx, nc); err != nil {
		got = append(got, "!error:"+err.Error())
	}
	<-done
	sort.Strings(got)
	if got == nil {
		got = []string{}
	}
	obs := make([]GraphObs, 0, len(names))
	for _, n := range names {
		o := GraphObs{G: n, Ls: []int{}, Ex: []int{}, Ex2: []int{}}
		g, err := st.Graph(ctx, n)
		if err == nil && g != nil {
			o.X = true
			q := &Q{M: "Triples", C: "t"}
			ls, lerr, _ := Lookup(ctx, u, g, q, &storage.LookupOptions{})
			if lerr != nil {
				ls = append(ls, -1)
			}
			o.Ls = ls
			for i := 1; i <= u.NT(); i++ {
				ok, eerr := g.Exist(ctx, u.Triple(i))
				if eerr != nil {
					o.Ex = append(o.Ex, -1)
				} else if ok {
					o.Ex = append(o.Ex, i)
				}
				// the same question with the anchors written in another zone: the same triple
				ok, eerr = g.Exist(ctx, u.TripleAlt(i))
				if eerr != nil {
					o.Ex2 = append(o.Ex2, -1)
				} else if ok {
					o.Ex2 = append(o.Ex2, i)
				}
			}
		}
		obs = append(obs, o)
	}
	return got, obs
}

// Batch concretises a batch of triple ids.
func Batch(u *uni.Universe, b []int) []*triple.Triple {
	ts := make([]*triple.Triple, 0, len(b))
	for _, i := range b {
		ts = append(ts, u.Triple(i))
	}
	return ts
}

// BatchSpelled concretises a batch of triple ids, each occurrence in the stored or in the alternative spelling
// of its anchors as pick(k) says (k = position in the batch).
func BatchSpelled(u *uni.Universe, b []int, pick func(k int) bool) []*triple.Triple {
	ts := make([]*triple.Triple, 0, len(b))
	for k, i := range b {
		if pick(k) {
			ts = append(ts, u.TripleAlt(i))
		} else {
			ts = append(ts, u.Triple(i))
		}
	}
	return ts
}
