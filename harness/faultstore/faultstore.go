// Package faultstore wraps a storage.Store so that every driver call is recorded and any single call can
// be made to fail: before delivering anything, after delivering j elements, or (writes) instead of writing.
// It is a pure implementation of the storage interfaces (no repository hook) and behaves like a well
// mannered failing driver: a lookup that fails still closes its channel, exactly as the in-memory driver
// does on its own error paths.
//
// A call is identified by its Key (method, graph, printed arguments) and the occurrence number among the
// calls with the same key, so that a fault plan derived from a fault-free run designates the same call even
// when the planner issues its calls from several goroutines in a different order.
package faultstore

import (
	"context"
	"fmt"
	"runtime"
	"sync"
	"time"

	"github.com/google/badwolf/storage"
	"github.com/google/badwolf/triple"
	"github.com/google/badwolf/triple/node"
	"github.com/google/badwolf/triple/predicate"
)

// Call is one recorded driver call.
type Call struct {
	Seq       int    `json:"seq"`  // arrival order (1-based)
	Key       string `json:"key"`  // method|graph|arguments
	Occ       int    `json:"occ"`  // occurrence number among the calls with this key (1-based)
	Method    string `json:"meth"` // NewGraph, Graph, DeleteGraph, GraphNames, AddTriples, RemoveTriples, Exist, Objects, ...
	Kind      string `json:"kind"` // store | write | exist | stream
	Graph     string `json:"g"`
	Delivered int    `json:"n"`    // elements delivered to the caller (stream calls)
	Failed    bool   `json:"fail"` // the injected fault hit this call
	InnerErr  bool   `json:"ierr"` // the wrapped driver itself returned an error
}

// Plan designates the call to fail. Mode: "before" (error, nothing delivered), "after" (error after J
// elements; J may equal the number of elements the call has), "write" (the write is not performed).
type Plan struct {
	Key  string `json:"key"`
	Occ  int    `json:"occ"`
	Mode string `json:"mode"`
	J    int    `json:"j"`
}

// ErrInjected is the error returned by a failed call.
var ErrInjected = fmt.Errorf("faultstore: injected driver failure")

// Store is the recording / fault injecting wrapper.
type Store struct {
	inner storage.Store

	mu    sync.Mutex
	calls []*Call
	occ   map[string]int
	plan  *Plan
	hit   bool
	// ArmNext, when >= 0, makes the next stream call fail after that many elements (one shot; used by the
	// memoization driver). -1 = disarmed.
	armNext int
}

// New wraps inner.
func New(inner storage.Store) *Store {
	return &Store{inner: inner, occ: map[string]int{}, armNext: -1}
}

// Reset forgets the recorded calls and installs a plan (nil = no fault).
func (s *Store) Reset(p *Plan) {
	s.mu.Lock()
	defer s.mu.Unlock()
	s.calls, s.occ, s.plan, s.hit, s.armNext = nil, map[string]int{}, p, false, -1
}

// ArmNextStream makes the next lookup fail after j elements.
func (s *Store) ArmNextStream(j int) {
	s.mu.Lock()
	s.armNext = j
	s.mu.Unlock()
}

// Calls returns a copy of the recorded calls in arrival order.
func (s *Store) Calls() []Call {
	s.mu.Lock()
	defer s.mu.Unlock()
	r := make([]Call, len(s.calls))
	for i, c := range s.calls {
		r[i] = *c
	}
	return r
}

// FaultHit reports whether the planned fault was injected.
func (s *Store) FaultHit() bool {
	s.mu.Lock()
	defer s.mu.Unlock()
	return s.hit
}

// begin records a call and decides its fate: mode "" = pass through.
func (s *Store) begin(method, kind, graph, args string) (*Call, string, int) {
	s.mu.Lock()
	defer s.mu.Unlock()
	key := method + "|" + graph + "|" + args
	s.occ[key]++
	c := &Call{Seq: len(s.calls) + 1, Key: key, Occ: s.occ[key], Method: method, Kind: kind, Graph: graph}
	s.calls = append(s.calls, c)
	if kind == "stream" && s.armNext >= 0 {
		j := s.armNext
		s.armNext = -1
		c.Failed, s.hit = true, true
		if j == 0 {
			return c, "before", 0
		}
		return c, "after", j
	}
	if s.plan != nil && !s.hit && s.plan.Key == key && s.plan.Occ == c.Occ {
		c.Failed, s.hit = true, true
		return c, s.plan.Mode, s.plan.J
	}
	return c, "", 0
}

func (s *Store) setDelivered(c *Call, n int, ierr bool) {
	s.mu.Lock()
	c.Delivered, c.InnerErr = n, ierr
	s.mu.Unlock()
}

func (s *Store) Name(ctx context.Context) string    { return s.inner.Name(ctx) }
func (s *Store) Version(ctx context.Context) string { return s.inner.Version(ctx) }

func (s *Store) NewGraph(ctx context.Context, id string) (storage.Graph, error) {
	c, mode, _ := s.begin("NewGraph", "store", id, "")
	if mode != "" {
		return nil, ErrInjected
	}
	g, err := s.inner.NewGraph(ctx, id)
	if err != nil {
		s.setDelivered(c, 0, true)
		return nil, err
	}
	return &graph{s: s, g: g, id: id}, nil
}

func (s *Store) Graph(ctx context.Context, id string) (storage.Graph, error) {
	c, mode, _ := s.begin("Graph", "store", id, "")
	if mode != "" {
		return nil, ErrInjected
	}
	g, err := s.inner.Graph(ctx, id)
	if err != nil {
		s.setDelivered(c, 0, true)
		return nil, err
	}
	return &graph{s: s, g: g, id: id}, nil
}

func (s *Store) DeleteGraph(ctx context.Context, id string) error {
	c, mode, _ := s.begin("DeleteGraph", "store", id, "")
	if mode != "" {
		return ErrInjected
	}
	err := s.inner.DeleteGraph(ctx, id)
	if err != nil {
		s.setDelivered(c, 0, true)
	}
	return err
}

func (s *Store) GraphNames(ctx context.Context, names chan<- string) error {
	c, mode, j := s.begin("GraphNames", "stream", "", "")
	return stream(s, c, mode, j, names, func(ch chan<- string) error { return s.inner.GraphNames(ctx, ch) })
}

// stream forwards a streaming call, counting the elements, and injects the fault.
func stream[T any](s *Store, c *Call, mode string, j int, out chan<- T, call func(chan<- T) error) error {
	if mode == "before" {
		close(out)
		afterClose()
		return ErrInjected
	}
	in := make(chan T)
	var ierr error
	done := make(chan struct{})
	go func() {
		ierr = call(in)
		close(done)
	}()
	n := 0
	failed := false
	for x := range in {
		if failed {
			continue // keep draining the wrapped driver
		}
		if mode == "after" && n >= j {
			failed = true
			continue
		}
		out <- x
		n++
	}
	<-done
	close(out)
	s.setDelivered(c, n, ierr != nil)
	if mode == "after" {
		afterClose()
		return ErrInjected
	}
	return ierr
}

// afterClose: a driver does some work between closing its channel and returning (it releases a lock, a connection,
// a cursor). A caller that reads the error of the call as soon as the channel is closed, without waiting for the call
// to return, only loses the error when that takes a moment.
func afterClose() {
	runtime.Gosched()
	time.Sleep(300 * time.Microsecond)
}

type graph struct {
	s  *Store
	g  storage.Graph
	id string
}

func (g *graph) ID(ctx context.Context) string { return g.g.ID(ctx) }

// tsKey identifies a batch by its size only: CONSTRUCT reifies fresh blank nodes on every execution, so the
// text of the triples is not stable between the fault-free run and the faulted run.
func tsKey(ts []*triple.Triple) string {
	return fmt.Sprintf("%d triples", len(ts))
}

func (g *graph) AddTriples(ctx context.Context, ts []*triple.Triple) error {
	c, mode, _ := g.s.begin("AddTriples", "write", g.id, tsKey(ts))
	if mode != "" {
		return ErrInjected
	}
	err := g.g.AddTriples(ctx, ts)
	g.s.setDelivered(c, len(ts), err != nil)
	return err
}

func (g *graph) RemoveTriples(ctx context.Context, ts []*triple.Triple) error {
	c, mode, _ := g.s.begin("RemoveTriples", "write", g.id, tsKey(ts))
	if mode != "" {
		return ErrInjected
	}
	err := g.g.RemoveTriples(ctx, ts)
	g.s.setDelivered(c, len(ts), err != nil)
	return err
}

func (g *graph) Exist(ctx context.Context, t *triple.Triple) (bool, error) {
	c, mode, _ := g.s.begin("Exist", "exist", g.id, t.String())
	if mode != "" {
		return false, ErrInjected
	}
	b, err := g.g.Exist(ctx, t)
	n := 0
	if b {
		n = 1
	}
	g.s.setDelivered(c, n, err != nil)
	return b, err
}

func (g *graph) Objects(ctx context.Context, s *node.Node, p *predicate.Predicate, lo *storage.LookupOptions, out chan<- *triple.Object) error {
	c, mode, j := g.s.begin("Objects", "stream", g.id, s.String()+" "+p.String()+" "+lo.String())
	return stream(g.s, c, mode, j, out, func(ch chan<- *triple.Object) error { return g.g.Objects(ctx, s, p, lo, ch) })
}

func (g *graph) Subjects(ctx context.Context, p *predicate.Predicate, o *triple.Object, lo *storage.LookupOptions, out chan<- *node.Node) error {
	c, mode, j := g.s.begin("Subjects", "stream", g.id, p.String()+" "+o.String()+" "+lo.String())
	return stream(g.s, c, mode, j, out, func(ch chan<- *node.Node) error { return g.g.Subjects(ctx, p, o, lo, ch) })
}

func (g *graph) PredicatesForSubject(ctx context.Context, s *node.Node, lo *storage.LookupOptions, out chan<- *predicate.Predicate) error {
	c, mode, j := g.s.begin("PredicatesForSubject", "stream", g.id, s.String()+" "+lo.String())
	return stream(g.s, c, mode, j, out, func(ch chan<- *predicate.Predicate) error { return g.g.PredicatesForSubject(ctx, s, lo, ch) })
}

func (g *graph) PredicatesForObject(ctx context.Context, o *triple.Object, lo *storage.LookupOptions, out chan<- *predicate.Predicate) error {
	c, mode, j := g.s.begin("PredicatesForObject", "stream", g.id, o.String()+" "+lo.String())
	return stream(g.s, c, mode, j, out, func(ch chan<- *predicate.Predicate) error { return g.g.PredicatesForObject(ctx, o, lo, ch) })
}

func (g *graph) PredicatesForSubjectAndObject(ctx context.Context, s *node.Node, o *triple.Object, lo *storage.LookupOptions, out chan<- *predicate.Predicate) error {
	c, mode, j := g.s.begin("PredicatesForSubjectAndObject", "stream", g.id, s.String()+" "+o.String()+" "+lo.String())
	return stream(g.s, c, mode, j, out, func(ch chan<- *predicate.Predicate) error {
		return g.g.PredicatesForSubjectAndObject(ctx, s, o, lo, ch)
	})
}

func (g *graph) TriplesForSubject(ctx context.Context, s *node.Node, lo *storage.LookupOptions, out chan<- *triple.Triple) error {
	c, mode, j := g.s.begin("TriplesForSubject", "stream", g.id, s.String()+" "+lo.String())
	return stream(g.s, c, mode, j, out, func(ch chan<- *triple.Triple) error { return g.g.TriplesForSubject(ctx, s, lo, ch) })
}

func (g *graph) TriplesForPredicate(ctx context.Context, p *predicate.Predicate, lo *storage.LookupOptions, out chan<- *triple.Triple) error {
	c, mode, j := g.s.begin("TriplesForPredicate", "stream", g.id, p.String()+" "+lo.String())
	return stream(g.s, c, mode, j, out, func(ch chan<- *triple.Triple) error { return g.g.TriplesForPredicate(ctx, p, lo, ch) })
}

func (g *graph) TriplesForObject(ctx context.Context, o *triple.Object, lo *storage.LookupOptions, out chan<- *triple.Triple) error {
	c, mode, j := g.s.begin("TriplesForObject", "stream", g.id, o.String()+" "+lo.String())
	return stream(g.s, c, mode, j, out, func(ch chan<- *triple.Triple) error { return g.g.TriplesForObject(ctx, o, lo, ch) })
}

func (g *graph) TriplesForSubjectAndPredicate(ctx context.Context, s *node.Node, p *predicate.Predicate, lo *storage.LookupOptions, out chan<- *triple.Triple) error {
	c, mode, j := g.s.begin("TriplesForSubjectAndPredicate", "stream", g.id, s.String()+" "+p.String()+" "+lo.String())
	return stream(g.s, c, mode, j, out, func(ch chan<- *triple.Triple) error {
		return g.g.TriplesForSubjectAndPredicate(ctx, s, p, lo, ch)
	})
}

func (g *graph) TriplesForPredicateAndObject(ctx context.Context, p *predicate.Predicate, o *triple.Object, lo *storage.LookupOptions, out chan<- *triple.Triple) error {
	c, mode, j := g.s.begin("TriplesForPredicateAndObject", "stream", g.id, p.String()+" "+o.String()+" "+lo.String())
	return stream(g.s, c, mode, j, out, func(ch chan<- *triple.Triple) error {
		return g.g.TriplesForPredicateAndObject(ctx, p, o, lo, ch)
	})
}

func (g *graph) Triples(ctx context.Context, lo *storage.LookupOptions, out chan<- *triple.Triple) error {
	c, mode, j := g.s.begin("Triples", "stream", g.id, lo.String())
	return stream(g.s, c, mode, j, out, func(ch chan<- *triple.Triple) error { return g.g.Triples(ctx, lo, ch) })
}
