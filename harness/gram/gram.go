// Package gram holds what the grammar/lexer/parser drivers (grammardump, lexdrv, parsedrv, rundrv) share:
// token-kind names, the concretiser that turns a sequence of token kinds into BQL text, a lexer
// reader with a watchdog, and goroutine accounting.  Nothing here is an oracle: the concretiser only
// proposes texts; every event logs the kinds the real lexer actually produced for the text.
package gram

import (
	"fmt"
	"math/rand"
	"strings"
	"time"

	"github.com/google/badwolf/bql/lexer"
)

// KindName is the name of a token kind used in spec/GrammarData.tla and in the traces.
func KindName(tt lexer.TokenType) string {
	s := tt.String()
	if s == "UNKNOWN" {
		return fmt.Sprintf("UNKNOWN_%d", int(tt))
	}
	return s
}

// AllKinds lists the token types the lexer package knows (String() != "UNKNOWN"), scanning a
// generous range so that a token added later is picked up without touching this file.
func AllKinds() []lexer.TokenType {
	var r []lexer.TokenType
	for i := 0; i < 256; i++ {
		if lexer.TokenType(i).String() != "UNKNOWN" {
			r = append(r, lexer.TokenType(i))
		}
	}
	return r
}

// Tok is one token of a generated sentence: its kind and (when it comes from a derivation of the
// TLC grammar machine) the rule whose alternative contained it.  Own is only a hint for choosing
// sensible binding names; it never enters a verdict.
type Tok struct {
	K   string `json:"k"`
	Own string `json:"own"`
}

var keyword = map[string]string{
	"QUERY": "select", "INSERT": "insert", "DELETE": "delete", "CREATE": "create", "CONSTRUCT": "construct",
	"DECONSTRUCT": "deconstruct", "DROP": "drop", "Graph": "graph", "DATA": "data", "INTO": "into", "FROM": "from",
	"WHERE": "where", "AS": "as", "TYPE": "type", "ID": "id", "AT": "at", "IN": "in", "BEFORE": "before",
	"AFTER": "after", "BETWEEN": "between", "COUNT": "count", "DISTINCT": "distinct", "SUM": "sum", "GROUP": "group",
	"BY": "by", "ORDER": "order", "HAVING": "having", "ASC": "asc", "DESC": "desc", "LIMIT": "limit", "NOT": "not",
	"AND": "and", "OR": "or", "SHOW": "show", "GRAPHS": "graphs", "OPTIONAL": "optional", "FILTER": "filter",
	"LEFT_BRACKET": "{", "RIGHT_BRACKET": "}", "LEFT_PARENT": "(", "RIGHT_PARENT": ")", "DOT": ".", "SEMICOLON": ";",
	"COMMA": ",", "LT": "<", "GT": ">", "EQ": "=",
}

// IsKeyword reports whether the kind is rendered by a fixed word made of letters.
func IsKeyword(k string) bool {
	w, ok := keyword[k]
	return ok && len(w) > 0 && (w[0] >= 'a' && w[0] <= 'z')
}

const (
	T1 = "2019-03-01T00:00:00Z"
	T2 = "2020-01-01T00:00:00Z"
	T3 = "2021-11-11T11:11:11.000000011Z"
)

// Concretizer proposes a text for every token of a kind sequence.
type Concretizer struct {
	Rng     *rand.Rand
	Hostile bool // also use texts meant to break the hooks / planner (C08)
}

func (c *Concretizer) pick(xs ...string) string {
	if c.Rng == nil {
		return xs[0]
	}
	return xs[c.Rng.Intn(len(xs))]
}

// often returns the first (plain) choice most of the time, one of the others otherwise.
func (c *Concretizer) often(plain string, others ...string) string {
	if c.Rng == nil || len(others) == 0 || c.Rng.Intn(4) != 0 {
		return plain
	}
	return others[c.Rng.Intn(len(others))]
}

func (c *Concretizer) literal(limit bool) string {
	if limit {
		if c.Hostile {
			return c.often(`"2"^^type:int64`, `"0"^^type:int64`, `"-1"^^type:int64`, `"1"^^type:INT64`, `"9223372036854775807"^^type:int64`,
				`"x"^^type:text`, `"1.5"^^type:float64`, `"abc"^^type:int64`, `"-9223372036854775808"^^type:int64`)
		}
		return c.pick(`"2"^^type:int64`, `"1"^^type:int64`, `"10"^^type:int64`)
	}
	if c.Hostile {
		return c.often(`"1"^^type:int64`, `"x"^^type:text`, `"true"^^type:bool`, `"1.5"^^type:float64`, `"[1 2]"^^type:blob`, `"[]"^^type:blob`,
			`""^^type:blob`, `"1"^^type:INT64`, `"x"^^TYPE:Text`, `"abc"^^type:int64`, `""^^type:text`, `"a\"b"^^type:text`, `"maybe"^^type:bool`,
			`"1e999"^^type:float64`, `"[x]"^^type:blob`)
	}
	return c.pick(`"1"^^type:int64`, `"x"^^type:text`, `"true"^^type:bool`, `"1.5"^^type:float64`)
}

func (c *Concretizer) node() string {
	if c.Hostile {
		return c.often(`/u<a>`, `/u<b>`, `/_<x>`, `/v/w<a>`, `/u<zz>`, `/<a>`, `/u/<a>`, `/u<a b>`, `/u<é>`)
	}
	return c.pick(`/u<a>`, `/u<b>`, `/v/w<a>`)
}

func (c *Concretizer) predicate() string {
	if c.Hostile {
		return c.often(`"p"@[]`, `"q"@[`+T2+`]`, `"q"@[?t]`, `"p"@[junk]`, `"q"@["`+T2+`"]`, `"zz"@[]`, `"q"@[2020-01-01T02:00:00+02:00]`,
			`"p q"@[]`, `"p"@[ ]`, `"é"@[]`, `"p"@["]`)
	}
	return c.pick(`"p"@[]`, `"q"@[`+T2+`]`, `"q"@[?t]`)
}

func (c *Concretizer) bound() string {
	if c.Hostile {
		return c.often(`"q"@[`+T1+`,`+T3+`]`, `"q"@[,]`, `"q"@[`+T3+`,`+T1+`]`, `"q"@[?lo,?hi]`, `"q"@[`+T1+`,]`, `"q"@[,`+T3+`]`, `"q"@[x,y]`,
			`"q"@["`+T1+`","`+T3+`"]`)
	}
	return c.pick(`"q"@[`+T1+`,`+T3+`]`, `"q"@[,]`, `"q"@[`+T1+`,]`)
}

// Texts returns one text per token.  prev-kind context is honoured where the lexer needs it (TIME
// and PREDICATE_BOUND after BEFORE/AFTER/BETWEEN or a comparison, FILTER_FUNCTION after FILTER).
func (c *Concretizer) Texts(toks []Tok) []string {
	// pass 1: bindings that the WHERE clause (or construct template) makes available
	where := []string{}
	res := make([]string, len(toks))
	naliases := 0
	alias := func() string { naliases++; return fmt.Sprintf("?x%d", naliases) }
	isWhereOwn := func(own string) bool {
		return strings.HasPrefix(own, "SUBJECT") || strings.HasPrefix(own, "PREDICATE") || strings.HasPrefix(own, "OBJECT") ||
			own == "FIRST_CLAUSE" || own == "CLAUSES" || own == "OPTIONAL_CLAUSE"
	}
	prevK := func(i int) string {
		if i == 0 {
			return ""
		}
		return toks[i-1].K
	}
	for i, t := range toks {
		if t.K != "BINDING" || !isWhereOwn(t.Own) {
			continue
		}
		var b string
		switch p := prevK(i); {
		case p == "AS" || p == "TYPE" || p == "ID" || p == "AT" || p == "COMMA":
			b = alias()
		case t.Own == "FIRST_CLAUSE" || t.Own == "CLAUSES" || t.Own == "OPTIONAL_CLAUSE":
			b = c.pick("?s", "?s", "?o")
		case t.Own == "PREDICATE":
			b = "?p"
		case t.Own == "OBJECT":
			b = c.pick("?o", "?o", "?s")
		default:
			b = alias()
		}
		res[i] = b
		where = append(where, b)
	}
	out := []string{} // bindings projected so far (for group by / order by / having)
	fromWhere := func() string {
		if len(where) == 0 {
			return "?s"
		}
		return where[c.intn(len(where))]
	}
	for i, t := range toks {
		if res[i] != "" {
			continue
		}
		p := prevK(i)
		timeCtx := p == "BEFORE" || p == "AFTER" || p == "BETWEEN" || p == "LT" || p == "GT" || p == "EQ"
		switch t.K {
		case "BINDING":
			switch {
			case strings.Contains(t.Own, "GRAPHS"):
				res[i] = c.often("?a", "?b", "?c", "?nograph")
			case t.Own == "VARS" || t.Own == "VARS_AS":
				if p == "AS" {
					res[i] = alias()
					out = append(out, res[i])
				} else {
					res[i] = fromWhere()
					if i+1 < len(toks) && toks[i+1].K != "AS" && p != "LEFT_PARENT" && p != "DISTINCT" {
						out = append(out, res[i])
					}
				}
			case strings.HasPrefix(t.Own, "GROUP_BY") || strings.HasPrefix(t.Own, "ORDER_BY"):
				if len(out) > 0 {
					res[i] = out[c.intn(len(out))]
				} else {
					res[i] = fromWhere()
				}
			case strings.HasPrefix(t.Own, "HAVING") || strings.HasPrefix(t.Own, "FILTER") || strings.HasPrefix(t.Own, "CONSTRUCT") ||
				strings.HasPrefix(t.Own, "DECONSTRUCT"):
				res[i] = fromWhere()
			default:
				res[i] = c.pick("?s", "?p", "?o", "?a")
			}
		case "NODE":
			res[i] = c.node()
		case "BLANK_NODE":
			res[i] = c.pick("_:v", "_:w1")
		case "LITERAL":
			res[i] = c.literal(p == "LIMIT")
		case "PREDICATE":
			res[i] = c.predicate()
		case "PREDICATE_BOUND":
			if timeCtx {
				if c.Hostile {
					res[i] = c.often(T1+","+T3, T3+","+T1, T1+", "+T3, "1,2", T1+",")
				} else {
					res[i] = c.pick(T1+","+T3, T1+", "+T3)
				}
			} else {
				res[i] = c.bound()
			}
		case "TIME":
			if c.Hostile {
				res[i] = c.often(T2, T1, "2020-13-45T00:00:00Z", "2020", "2020-01-01T02:00:00+02:00")
			} else {
				res[i] = c.pick(T2, T1)
			}
		case "FILTER_FUNCTION":
			res[i] = c.often("latest", "isTemporal", "isImmutable", "nosuch", "LATEST")
		case "ERROR":
			res[i] = c.pick(`"unterminated`, "nokeyword", "_x", "/u", `"p"@[`)
		case "EOF":
			res[i] = ""
		default:
			if w, ok := keyword[t.K]; ok {
				res[i] = w
			} else {
				res[i] = strings.ToLower(t.K) // a kind added after this file was written: best guess
			}
		}
	}
	return res
}

// HostileOptions lists the texts meant to break hooks, planner or executor for token i of toks (empty for
// tokens rendered by a fixed word).  Used to put ONE hostile text at a time into an otherwise plain statement.
func HostileOptions(toks []Tok, i int) []string {
	p := ""
	if i > 0 {
		p = toks[i-1].K
	}
	timeCtx := p == "BEFORE" || p == "AFTER" || p == "BETWEEN" || p == "LT" || p == "GT" || p == "EQ"
	switch toks[i].K {
	case "LITERAL":
		if p == "LIMIT" {
			return []string{`"0"^^type:int64`, `"-1"^^type:int64`, `"1"^^type:INT64`, `"9223372036854775807"^^type:int64`, `"x"^^type:text`,
				`"1.5"^^type:float64`, `"abc"^^type:int64`, `"-9223372036854775808"^^type:int64`, `"99999999999999999999"^^type:int64`}
		}
		return []string{`"x"^^type:text`, `"true"^^type:bool`, `"1.5"^^type:float64`, `"[1 2]"^^type:blob`, `"[]"^^type:blob`, `""^^type:blob`, `"1"^^type:INT64`,
			`"x"^^TYPE:Text`, `"abc"^^type:int64`, `""^^type:text`, `"a\"b"^^type:text`, `"maybe"^^type:bool`, `"1e999"^^type:float64`, `"[x]"^^type:blob`,
			`"-1"^^type:int64`, `"NaN"^^type:float64`, `"x"^^type:blob`}
	case "NODE":
		return []string{`/_<x>`, `/u<zz>`, `/<a>`, `/u/<a>`, `/u<a b>`, `/u<é>`, `/u<>`, `/u<a"b>`}
	case "PREDICATE":
		return []string{`"q"@[?t]`, `"p"@[junk]`, `"q"@["` + T2 + `"]`, `"zz"@[]`, `"q"@[2020-01-01T02:00:00+02:00]`, `"p q"@[]`, `"p"@[ ]`, `"é"@[]`, `""@[]`,
			`"q"@[` + T2 + `]`, `"q"@[?]`, `"p"@["]`, `"p"@[""]`}
	case "PREDICATE_BOUND":
		if timeCtx {
			return []string{T3 + "," + T1, T1 + ", " + T3, "1,2", T1 + ",", "," + T3}
		}
		return []string{`"q"@[,]`, `"q"@[` + T3 + `,` + T1 + `]`, `"q"@[?lo,?hi]`, `"q"@[` + T1 + `,]`, `"q"@[,` + T3 + `]`, `"q"@[x,y]`, `"q"@["` + T1 + `","` + T3 + `"]`,
			`""@[,]`}
	case "TIME":
		return []string{"2020-13-45T00:00:00Z", "2020", "2020-01-01T02:00:00+02:00", "1", "0000-00-00T00:00:00Z"}
	case "FILTER_FUNCTION":
		return []string{"isTemporal", "isImmutable", "nosuch", "LATEST"}
	case "BLANK_NODE":
		return []string{"_:v", "_:w1"}
	case "BINDING":
		if strings.Contains(toks[i].Own, "GRAPHS") {
			return []string{"?nograph", "?c", "?a"}
		}
	}
	return nil
}

func (c *Concretizer) intn(n int) int {
	if c.Rng == nil {
		return 0
	}
	return c.Rng.Intn(n)
}

// Glued reports whether text number i must follow its predecessor without white space: the lexer
// only recognises a filter function when "(" follows it immediately.
func Glued(toks []Tok, i int) bool {
	return i > 0 && toks[i-1].K == "FILTER_FUNCTION" && toks[i].K == "LEFT_PARENT"
}

// Join renders the texts separated by one space (tokens that the lexer delimits itself would not
// need it, but a uniform separator keeps case/whitespace variants simple).
func Join(toks []Tok, texts []string) string {
	var b strings.Builder
	for i, t := range texts {
		if t == "" {
			continue
		}
		if b.Len() > 0 && !(i < len(toks) && Glued(toks, i)) {
			b.WriteByte(' ')
		}
		b.WriteString(t)
	}
	return b.String()
}

// Text is Join(toks, c.Texts(toks)).
func (c *Concretizer) Text(toks []Tok) string { return Join(toks, c.Texts(toks)) }

// LexResult is what reading the channel of lexer.New to its end gave.
type LexResult struct {
	Toks    []lexer.Token
	Closed  bool // channel was closed by the lexer
	Timeout bool // watchdog fired before the channel was closed
}

// Lex reads every token of lexer.New(input, capacity); the watchdog turns a lexer that does not
// finish into an observation instead of a hung driver.
func Lex(input string, capacity int, watchdog time.Duration) LexResult {
	// lexer.New itself is part of the code under test: a New that never returns is a Timeout, not a hung driver
	chc := make(chan (<-chan lexer.Token), 1)
	go func() { chc <- lexer.New(input, capacity) }()
	var ch <-chan lexer.Token
	var r LexResult
	select {
	case ch = <-chc:
	case <-time.After(watchdog):
		r.Timeout = true
		return r
	}
	var timer *time.Timer
	for {
		select {
		case t, ok := <-ch:
			if !ok {
				r.Closed = true
				if timer != nil {
					timer.Stop()
				}
				return r
			}
			r.Toks = append(r.Toks, t)
			if len(r.Toks) > 4*len(input)+16 { // more tokens than any tokenisation of the input can have
				r.Timeout = true
				return r
			}
			continue
		default:
		}
		if timer == nil {
			timer = time.NewTimer(watchdog)
		}
		select {
		case t, ok := <-ch:
			if !ok {
				r.Closed = true
				timer.Stop()
				return r
			}
			r.Toks = append(r.Toks, t)
		case <-timer.C:
			r.Timeout = true
			return r
		}
	}
}

// Kinds of a token list.
func Kinds(ts []lexer.Token) []string {
	r := make([]string, 0, len(ts))
	for _, t := range ts {
		r = append(r, KindName(t.Type))
	}
	return r
}
