// Package uni loads a universe file and maps abstract ids <-> real badwolf values.
//
// Concretisation uses only constructors; projection back uses only accessors (Type(), ID(),
// TimeAnchor() compared with time.Equal, Interface()) - never String()/UUID() of the code under test.
package uni

import (
	"bytes"
	"encoding/json"
	"fmt"
	"os"
	"time"

	"github.com/google/badwolf/triple"
	"github.com/google/badwolf/triple/literal"
	"github.com/google/badwolf/triple/node"
	"github.com/google/badwolf/triple/predicate"
)

type Spelling struct {
	N    int    `json:"n"`
	Text string `json:"text"`
}
type NodeE struct {
	Type string `json:"type"`
	ID   string `json:"id"`
}
type PredE struct {
	ID   string `json:"id"`
	Kind string `json:"kind"`
	N    int    `json:"n"`
}
type CPredE struct {
	Abs    int    `json:"abs"`
	ID     string `json:"id"`
	Anchor string `json:"anchor"`
}
type ObjE struct {
	Kind string `json:"kind"`
	Ref  int    `json:"ref"`
	Type string `json:"type"`
	Val  string `json:"val"`
}
type TripleE struct {
	S  int `json:"s"`
	P  int `json:"p"`
	O  int `json:"o"`
	CP int `json:"cp"` // concrete spelling of the predicate this triple is stored with (0 = canonical)
}

type Universe struct {
	Instants  []string   `json:"instants"`
	Spellings []Spelling `json:"spellings"`
	Nodes     []NodeE    `json:"nodes"`
	Preds     []PredE    `json:"preds"`
	CPreds    []CPredE   `json:"cpreds"`
	Objs      []ObjE     `json:"objs"`
	Triples   []TripleE  `json:"triples"`
	Graphs    []string   `json:"graphs"`

	times   []time.Time // by rank-1
	nodes   []*node.Node
	cpreds  []*predicate.Predicate // by concrete index-1
	canon   []int                  // abstract pred -> first concrete index (1-based)
	objs    []*triple.Object
	triples []*triple.Triple
	alts    []*triple.Triple // the same triples, predicate and predicate-valued object in another spelling of their anchor (when there is one)
}

func Load(path string) (*Universe, error) {
	b, err := os.ReadFile(path)
	if err != nil {
		return nil, err
	}
	u := &Universe{}
	if err := json.Unmarshal(b, u); err != nil {
		return nil, err
	}
	for _, s := range u.Instants {
		t, err := time.Parse(time.RFC3339Nano, s)
		if err != nil {
			return nil, err
		}
		u.times = append(u.times, t)
	}
	for _, n := range u.Nodes {
		nn, err := node.NewNodeFromStrings(n.Type, n.ID)
		if err != nil {
			return nil, err
		}
		u.nodes = append(u.nodes, nn)
	}
	u.canon = make([]int, len(u.Preds)+1)
	for i, c := range u.CPreds {
		var p *predicate.Predicate
		var err error
		if c.Anchor == "" {
			p, err = predicate.NewImmutable(c.ID)
		} else {
			var t time.Time
			t, err = time.Parse(time.RFC3339Nano, c.Anchor)
			if err != nil {
				return nil, err
			}
			p, err = predicate.NewTemporal(c.ID, t)
		}
		if err != nil {
			return nil, err
		}
		u.cpreds = append(u.cpreds, p)
		if u.canon[c.Abs] == 0 {
			u.canon[c.Abs] = i + 1
		}
	}
	for _, o := range u.Objs {
		switch o.Kind {
		case "node":
			u.objs = append(u.objs, triple.NewNodeObject(u.nodes[o.Ref-1]))
		case "pred":
			u.objs = append(u.objs, triple.NewPredicateObject(u.cpreds[u.canon[o.Ref]-1]))
		case "lit":
			l, err := BuildLit(o.Type, o.Val)
			if err != nil {
				return nil, err
			}
			u.objs = append(u.objs, triple.NewLiteralObject(l))
		default:
			return nil, fmt.Errorf("bad object kind %q", o.Kind)
		}
	}
	for _, t := range u.Triples {
		cp := u.canon[t.P]
		if t.CP > 0 {
			if u.CPreds[t.CP-1].Abs != t.P {
				return nil, fmt.Errorf("triple: spelling %d is not a spelling of predicate %d", t.CP, t.P)
			}
			cp = t.CP
		}
		tt, err := triple.New(u.nodes[t.S-1], u.cpreds[cp-1], u.objs[t.O-1])
		if err != nil {
			return nil, err
		}
		u.triples = append(u.triples, tt)
		// the alternative spelling: the LAST spelling of the predicate's (and of a predicate object's) instant that
		// is not the one used above
		other := func(abs, used int) *predicate.Predicate {
			r := u.cpreds[used-1]
			for i, c := range u.CPreds {
				if c.Abs == abs && i+1 != used {
					r = u.cpreds[i]
				}
			}
			return r
		}
		ao := u.objs[t.O-1]
		if oe := u.Objs[t.O-1]; oe.Kind == "pred" {
			ao = triple.NewPredicateObject(other(oe.Ref, u.canon[oe.Ref]))
		}
		at, err := triple.New(u.nodes[t.S-1], other(t.P, cp), ao)
		if err != nil {
			return nil, err
		}
		u.alts = append(u.alts, at)
	}
	return u, nil
}

// BuildLit builds a literal from a type name and a canonical token using the builder only.
func BuildLit(typ, val string) (*literal.Literal, error) {
	b := literal.DefaultBuilder()
	switch typ {
	case "bool":
		return b.Build(literal.Bool, val == "true")
	case "int64":
		var v int64
		if _, err := fmt.Sscanf(val, "%d", &v); err != nil {
			return nil, err
		}
		return b.Build(literal.Int64, v)
	case "float64":
		var v float64
		if _, err := fmt.Sscanf(val, "%g", &v); err != nil {
			return nil, err
		}
		return b.Build(literal.Float64, v)
	case "text":
		return b.Build(literal.Text, val)
	case "blob":
		return b.Build(literal.Blob, []byte(val))
	}
	return nil, fmt.Errorf("bad literal type %q", typ)
}

func (u *Universe) Node(i int) *node.Node             { return u.nodes[i-1] }
func (u *Universe) CPred(i int) *predicate.Predicate  { return u.cpreds[i-1] }
func (u *Universe) Pred(abs int) *predicate.Predicate { return u.cpreds[u.canon[abs]-1] }
func (u *Universe) Obj(i int) *triple.Object          { return u.objs[i-1] }
func (u *Universe) Triple(i int) *triple.Triple       { return u.triples[i-1] }

// TripleAlt is the same triple as Triple(i) written with other spellings of its time anchors (other zone).
func (u *Universe) TripleAlt(i int) *triple.Triple { return u.alts[i-1] }
func (u *Universe) Time(rank int) time.Time        { return u.times[rank-1] }
func (u *Universe) NT() int                        { return len(u.triples) }

// NodeID returns the abstract index of a real node, 0 if it is not in the universe.
func (u *Universe) NodeID(n *node.Node) int {
	if n == nil || n.Type() == nil || n.ID() == nil {
		return 0
	}
	for i, e := range u.Nodes {
		if e.Type == n.Type().String() && e.ID == n.ID().String() {
			return i + 1
		}
	}
	return 0
}

// PredID returns the abstract index of a real predicate, 0 if unknown.
func (u *Universe) PredID(p *predicate.Predicate) int {
	if p == nil {
		return 0
	}
	for i, e := range u.Preds {
		if e.ID != string(p.ID()) {
			continue
		}
		if p.Type() == predicate.Immutable {
			if e.Kind == "imm" {
				return i + 1
			}
			continue
		}
		if e.Kind != "tmp" {
			continue
		}
		ta, err := p.TimeAnchor()
		if err != nil || ta == nil {
			return 0
		}
		if ta.Equal(u.times[e.N-1]) {
			return i + 1
		}
	}
	return 0
}

// ObjID returns the abstract index of a real object, 0 if unknown.
func (u *Universe) ObjID(o *triple.Object) int {
	if o == nil {
		return 0
	}
	if n, err := o.Node(); err == nil {
		ni := u.NodeID(n)
		for i, e := range u.Objs {
			if e.Kind == "node" && e.Ref == ni {
				return i + 1
			}
		}
		return 0
	}
	if p, err := o.Predicate(); err == nil {
		pi := u.PredID(p)
		for i, e := range u.Objs {
			if e.Kind == "pred" && e.Ref == pi {
				return i + 1
			}
		}
		return 0
	}
	if l, err := o.Literal(); err == nil {
		for i, e := range u.Objs {
			if e.Kind != "lit" || e.Type != l.Type().String() {
				continue
			}
			if LitToken(l) == e.Val {
				return i + 1
			}
		}
	}
	return 0
}

// LitToken renders the value of a literal as the canonical token used in universe files
// (from Interface(), not from String()).
func LitToken(l *literal.Literal) string {
	switch v := l.Interface().(type) {
	case bool:
		if v {
			return "true"
		}
		return "false"
	case int64:
		return fmt.Sprintf("%d", v)
	case float64:
		return fmt.Sprintf("%g", v)
	case string:
		return v
	case []byte:
		return string(bytes.Clone(v))
	}
	return "?"
}

// TripleID returns the index of a real triple in the universe, 0 if unknown.
func (u *Universe) TripleID(t *triple.Triple) int {
	if t == nil {
		return 0
	}
	s, p, o := u.NodeID(t.Subject()), u.PredID(t.Predicate()), u.ObjID(t.Object())
	if s == 0 || p == 0 || o == 0 {
		return 0
	}
	for i, e := range u.Triples {
		if e.S == s && e.P == p && e.O == o {
			return i + 1
		}
	}
	return 0
}
